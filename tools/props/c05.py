"""C05 - decoder output is independent of how the stream is split into chunks."""
import json

import canon
import fv
import gen
from props import decoder_common as dc

MODULES = ['FeVerif.Props.C05']


def flat_canon(flat):
    """Per message: what the caller held when the call that delivered it returned (results are values: run_decoder(own=True)
    separately demands that the objects still show exactly this after every later call)."""
    return [(d['offset'], d['raw'].hex(), d['header_snap'], d['contents_snap']) for d in flat]


OWNERSHIP = {'ResultChanged': 'C05/returned-object-changes-after-its-call', 'ResultAliased': 'C05/returned-object-handed-out-twice'}


def boundary_chunkings(data, ends, each):
    """Chunk ends exactly at, one byte before and one byte after the last byte of the delivered messages: all of them at once
    (one message per call) and, if `each`, every single one of them as the only cut."""
    res = []
    n = len(data)
    for dlt in (0, -1, 1):
        cuts = sorted({e + dlt for e in ends if 0 < e + dlt < n})
        if cuts:
            res.append([data[a:b] for a, b in zip([0] + cuts, cuts + [n])])
        if each:
            for e in ends:
                if 0 < e + dlt < n:
                    res.append([data[:e + dlt], data[e + dlt:], b''])       # and one more (empty) call afterwards
    return res


def self_consistent(ctx, flat, replay, rb):
    """Every delivered entry describes ONE message: the header is the one in its raw bytes, the raw bytes are header + payload."""
    for k, d in enumerate(flat):
        h = d['header_snap']
        if rb:
            raw = d['raw']
            if len(raw) != 24 + h[6] or dc.header_fields_from_raw(raw) != h:
                ctx.violation('C05/entry-mixes-messages',
                              'message %d%s: returned header (reserved, crc, protocol, version, type, sequence, size, source) = %s '
                              'but its returned raw bytes are %d bytes %s...' % (
                                  k, ' at %d' % d['offset'] if 'offset' in d else '', h, len(raw), raw[:24].hex()), replay)
                return False
    return True


def one_stream(ctx, data, kinds, m, lines, pending, opts='random', directed=False):
    if opts == 'random':
        opts = dc.decoder_options(ctx.rng) if ctx.rng.random() < 0.7 else None      # one decoder configuration per stream
    replay0 = {'stream': data.hex(), 'tokens': kinds, 'max_payload': m, 'options': opts, 'directed': directed}
    chs = gen.chunkings(ctx.rng, data, ctx.thorough)
    big = len(data) > 6000
    if big:
        # no byte-by-byte / 7-byte / 24-byte runs of very large streams (the boundary chunkings below stand in)
        chs = [chs[0], [data[i:i + 4096] for i in range(0, len(data), 4096)]] + chs[2:-2] + [[data[i:i + 1000] for i in range(0, len(data), 1000)]]
    if len(data) <= (160 if ctx.thorough else 90):
        # all contiguous (prefix, next chunk) pairs: [data[:i], data[i:j]] -- with state equality after every
        # prefix this covers all partitions by induction
        n = len(data)
        step = 1 if n < 60 else 3
        for i in range(0, n + 1, step):
            chs.append([data[:i], data[i:]])
    ref = None
    # one message per call, and chunk ends one byte before / after every message end (from what one call delivers)
    _, flat1, err1, _ = dc.run_decoder([data], m, opts=opts)
    ends = [d['offset'] + len(d['raw']) for d in flat1] if err1 is None else []
    bnd = boundary_chunkings(data, ends, directed or ctx.thorough)
    ctx.count('boundary_chunkings', len(bnd))
    forms = [(c, 'bytes', False) for c in chs]
    # the other documented / plausible call forms of the same chunkings: single bytes as ints, caller-owned bytearrays
    forms += [(chs[1], 'bytes', True), (chs[1], 'ba_reuse', False)]
    for c in chs[2:5]:
        forms += [(c, 'ba_wipe', False), (c, 'ba_reuse', False)]
    forms += [(c, 'bytes', False) for c in bnd]
    forms += [(c, f, False) for c in bnd[:3] for f in ('ba_reuse', 'bytearray')]
    for chunks, form, as_ints in forms:
        calls, flat, err, _ = dc.run_decoder(chunks, m, form=form, as_ints=as_ints, opts=opts, own=True)
        replay = dict(replay0, chunks=[c.hex() for c in chunks], form=form, as_ints=as_ints)
        ctx.count('form_' + form + ('_ints' if as_ints else ''))
        if err is not None:
            if err.split(':')[0] in OWNERSHIP:
                ctx.violation(OWNERSHIP[err.split(':')[0]], err, replay)
                return
            if err.startswith('SharedResult'):
                ctx.violation('C05/result-list-shared-between-calls', err, replay)
                return
            ctx.violation('C05/decoder-raised', 'on_data raised %s' % err, replay)
            return
        if not self_consistent(ctx, flat, replay, True):
            return
        fc = flat_canon(flat)
        final = calls[-1].split('|', 1)[1] if calls else '0|0|0'
        if ref is None:
            ref = (fc, final, chunks)
            # payload values must be those of the message's own bytes
            for d in flat:
                if repr(canon.canon(d['contents'])) != repr(dc.expected_contents(d['raw'])):
                    ctx.violation('C05/payload-depends-on-following-bytes',
                                  'message at %d: decoded payload differs from decoding exactly its own bytes' % d['offset'], replay)
                    return
        else:
            if fc != ref[0]:
                what = 'results'
                a = [(x[0], len(x[1]) // 2) for x in ref[0]]
                b = [(x[0], len(x[1]) // 2) for x in fc]
                if a == b:
                    what = 'payload-values' if [x[:3] for x in fc] == [x[:3] for x in ref[0]] else 'headers-or-bytes'
                    if what == 'headers-or-bytes' and [x[:2] for x in fc] == [x[:2] for x in ref[0]]:
                        what = 'headers'
                ctx.violation('C05/chunking-changes-' + what,
                              'one call gives %s, chunking %s gives %s' % (a, [len(c) for c in chunks][:12], b), replay)
                return
            if final != ref[1]:
                ctx.violation('C05/chunking-changes-final-state',
                              'final (buffered|header cached|processed) %s vs %s' % (ref[1], final), replay)
                return
        line = 'pydec %d %s' % (m, ','.join(c.hex() or '-' for c in chunks) or '=')
        if not big or chunks is chs[0] or (bnd and chunks is bnd[0] and form == 'bytes'):
            # (very large streams: the model replays one call and one-message-per-call; the other chunkings are compared with
            # those on the implementation)
            lines.append(line)
            pending.append((replay, calls))
        ctx.case(line, nontrivial=bool(flat))
    # the other settings of return_bytes / return_offset: same headers, payload values, and whichever of raw bytes / offsets is
    # returned, under one call, one byte per call, a random partition and the message-boundary chunkings
    other = [(True, False), (False, True), (False, False)]
    full = None if (directed or ctx.thorough) else ctx.rng.choice(other)    # quick tier: byte by byte under one of the three
    for rb, ro in other:
        for chunks in (chs[:3] if full in (None, (rb, ro)) else chs[:1]) + bnd:
            calls, flat, err, _ = dc.run_decoder(chunks, m, return_bytes=rb, return_offset=ro, opts=opts, own=True)
            replay = dict(replay0, chunks=[c.hex() for c in chunks], form='bytes', as_ints=False, return_bytes=rb, return_offset=ro)
            ctx.count('flags_bytes%d_offset%d' % (rb, ro))
            if err is not None:
                ctx.violation(OWNERSHIP.get(err.split(':')[0], 'C05/decoder-raised'), 'return_bytes=%s return_offset=%s: %s' % (rb, ro, err),
                              replay)
                return
            if not self_consistent(ctx, flat, replay, rb):
                return
            got = [(d.get('offset'), d['raw'].hex() if rb else None, d['header_snap'], d['contents_snap']) for d in flat]
            want = [(x[0] if ro else None, x[1] if rb else None, x[2], x[3]) for x in ref[0]]
            if got != want:
                ctx.violation('C05/chunking-changes-results-other-flags',
                              'return_bytes=%s return_offset=%s, chunking %s: %d messages %s; one call with both flags gives %d: %s' % (
                                  rb, ro, [len(c) for c in chunks][:12], len(got), [(g[0], g[2][4], g[2][5]) for g in got][:8],
                                  len(want), [(w[0], w[2][4], w[2][5]) for w in ref[0]][:8]), replay)
                return
    if big:
        return
    # delivery time, byte by byte
    chunks = [data[i:i + 1] for i in range(len(data))]
    calls, flat, err, _ = dc.run_decoder(chunks, m, opts=opts)
    processed = [int(c.split('|')[3]) for c in calls]
    for k, c in enumerate(calls, 1):
        for pr in filter(None, c.split('|')[0].split(',')):
            o, n = map(int, pr.split(':'))
            if k != o + n:
                # allowed only if an earlier candidate was still pending when the last byte arrived
                if not (processed[o + n - 1] < o):
                    ctx.violation('C05/delivered-late', 'message %d:%d delivered by byte %d' % (o, n, k),
                                  dict(replay0, chunks=[x.hex() for x in chunks]))
                else:
                    ctx.count('late_delivery_blocked_by_earlier_candidate')
            else:
                ctx.count('delivered_with_last_byte')


def run(ctx, budget):
    lines, pending = [], []
    rng = ctx.rng
    streams = []
    alphabet = 'VVVUWGGCTSFHRJDZN'
    for _ in range(budget):
        streams.append(gen.stream(rng, rng.choice([1, 2, 3, 4, 6]), alphabet))
    # length-inferred payloads followed directly by other messages
    for _ in range(budget // 4 + 5):
        streams.append(gen.stream(rng, rng.choice([2, 3]), 'GGWV'))
    # large messages (1-5 kB) directly followed by other data
    for _ in range(max(6, budget // 10)):
        streams.append(gen.stream(rng, rng.choice([2, 3, 4]), 'LKMLKMVUZJ'))
    for n in (1024, 2048, 2049, 4100):
        seqs = {'n': 3}
        big = gen.frame(rng.choice([13120, 2999]), bytes(rng.randrange(256) for _ in range(n)), 1, 0)
        streams.append((big + gen.token(rng, 'V', seqs), 'LV'))
        streams.append((gen.token(rng, 'Z', seqs) + big + b'\x2e', 'ZLS'))
    directed = []
    # a dropped candidate (false sync with non-zero reserved bytes, a length over the limit - announced by junk or by a real
    # message that is over THIS decoder's limit), then several messages that one call completes
    for k in range(16 if ctx.thorough else 6):
        seqs = {'n': rng.choice([0, 7, 0xFFFFFFFE])}
        small = k % 3 == 2
        pre = [gen.token(rng, 'R', seqs), gen.token(rng, 'H', seqs), gen.frame(2999, bytes(rng.randrange(256) for _ in range(150)), 1, 0)][k % 3]
        if rng.random() < 0.5:
            pre = gen.token(rng, 'J', seqs) + pre
        if rng.random() < 0.5:
            pre = pre + gen.token(rng, 'J', seqs)
        ks = [rng.choice('ZU' if small else 'VVUZG') for _ in range(rng.choice([2, 3, 4]))]
        directed.append((pre + b''.join(gen.token(rng, t, seqs) for t in ks), 'RHX'[k % 3] + ''.join(ks), 140 if small else 1 << 24))
    # large messages: total size at / around 4096 and 65536 bytes, alone, last, and followed by another message
    totals = [4096, 65536] + ([4095, 4097, 8192, 65535, 65537, 70001] if ctx.thorough else [rng.choice([4095, 4097, 8192, 65535, 65537])])
    for tot in totals:
        seqs = {'n': 11}
        big = gen.frame(rng.choice([13120, 2999]), bytes(rng.randrange(256) for _ in range(tot - 24)), 10, 0)
        for shape in (['LZ', 'ZLVL'] if not ctx.thorough else ['L', 'LZ', 'ZL', 'ZLVL']):
            directed.append((b''.join(big if t == 'L' else gen.token(rng, t, seqs) for t in shape), shape, 1 << 24))
    for r in fv.corpus('C05') + fv.corpus('C04'):      # regression corpus first
        if 'stream' in r:
            one_stream(ctx, bytes.fromhex(r['stream']), 'corpus', r.get('max_payload', 1 << 24), lines, pending)
            ctx.count('corpus_cases')
    for data, kinds, m in directed:
        ctx.count('directed_streams')
        one_stream(ctx, data, kinds, m, lines, pending, directed=True)
    for data, kinds in streams:
        for t in kinds:
            ctx.count('token_' + t)
        one_stream(ctx, data, kinds, rng.choice([1 << 24, 1 << 24, 140, 30]), lines, pending)
    outs = ctx.driver(lines)
    for (replay, calls), mo in zip(pending, outs):
        if ';'.join(calls) != mo:
            ctx.disagree('decoder != model: impl=%s model=%s' % (';'.join(calls)[:200], mo[:200]), replay)
        ctx.cov['traces_validated_against_impl'] += 1
    for (replay, calls), mo in list(zip(pending, outs))[:3]:
        ctx.sample({'max': replay['max_payload'], 'chunk_sizes': [len(c) // 2 for c in replay['chunks']][:20], 'per_call': mo[:200]})


def search(ctx):
    run(ctx, 600)


def check(ctx):
    ctx.cov['rule'] = ('streams of 1-6 tokens (valid messages of every registered class, length-inferred payloads, wrappers, '
                       'corrupted/truncated messages, false headers, junk); per stream: one call, one byte per call, random '
                       'partitions, 24- and 7-byte chunks, one message per call and chunk ends one byte before / after every '
                       'message end and, for short streams, every (prefix, rest) pair; directed streams: a dropped candidate '
                       '(non-zero reserved bytes / over-size length) followed by 2-4 messages, messages of 4096 / 65536 bytes '
                       '(+-1) alone, last and followed by others; every return_bytes / return_offset setting; compared: '
                       'offsets, raw bytes, header fields, decoded payload field values AS HELD WHEN EACH CALL RETURNED and the '
                       'final decoder state; every returned header / payload / raw-bytes object is read again after every later '
                       'call (must be unchanged) and no mutable object may be handed out twice or be the argument; '
                       'non-trivial = at least one message returned; distinct = distinct chunk list')
    ctx.assumptions += ['payload field values are compared on the implementation between chunkings and against the class\'s own '
                        'unpack of exactly the message bytes (the Lean model carries offsets/lengths/state, not fields)']
    ctx.prove(MODULES)
    try:
        run(ctx, 400 if ctx.thorough else 60)
    except fv.InfraError:
        if not ctx.proof_failures:
            raise
    return fv.finish(ctx, 'proof', search)


def replay(ctx, path):
    obj = json.load(open(path))
    r = obj['input']
    lines, pending = [], []
    one_stream(ctx, bytes.fromhex(r['stream']), r.get('tokens', ''), r['max_payload'], lines, pending, opts=r.get('options', 'random'),
               directed=r.get('directed', False))
    return fv.finish(ctx, 'proof', None)
