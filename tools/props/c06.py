"""C06 - encoder output validates, corruption is rejected, CRCs agree.

Real code: python/fusion_engine_client (FusionEngineEncoder.encode_message, MessageHeader.pack / calculate_crc /
validate_crc / unpack(validate_crc=True), FusionEngineDecoder, and `crc32` as imported by messages/defs.py) run
in-process - unpack() in every way its options can be written (unpack_forms(): validate_sync / validate_crc /
warn_on_unrecognized / return_sync_bytes omitted, False or True, by keyword and positionally, offset 0 or not);
src/point_one/fusion_engine/messages/crc.cc (+ crc.h IsValid, the framer) through cxx/c06_harness.cc + cxx/c06_startup.cc,
compiled on every run with ASan + UBSan and linked in both orders (harness objects before / after the repository's): requests
are answered from main() and - run_startup() - during static initialisation, before crc.cc's own initialisers have run.
Model: FeVerif/Model/Crc32.lean, FeVerif/Model/Encoder.lean through the driver commands crcspec / crctab / crcsplit /
crclin / encode / session (the encoder model stepped over a whole call history: type, version, source identifier - given or
omitted - and payload are inputs of each call, the encoder object carries only its sequence number) / validate.
Oracle: the property statement, written directly below (the three CRC routines agree; the encoder's fields; every
validator accepts encoder output; every validator rejects every altered message - in particular a message whose size
field was altered to any value is refused without a read outside the caller's buffer, C06_oversize_rejected).
"""
import itertools
import json
import os
import struct
import subprocess
import threading

import fv

MODULES = ['FeVerif.Props.C06']
SRC = ['point_one/fusion_engine/messages/crc.cc', 'point_one/fusion_engine/parsers/fusion_engine_framer.cc',
       'point_one/fusion_engine/common/logging.cc']
HDR = 24
M32 = 0xFFFFFFFF


# ---- C++ harness -------------------------------------------------------------------------------------------
EXES = {}         # link order -> executable; see build_harness()
ORDERS = (('startup-first', 'c06_startup.cc and the harness linked BEFORE crc.cc (their namespace-scope objects are constructed before '
           'the dynamic initialisers of crc.cc run)'),
          ('startup-last', 'c06_startup.cc and the harness linked AFTER crc.cc'))


def build_harness(ctx):
    """Compiles the harness, cxx/c06_startup.cc and the repository's sources once and links them in both orders.  Returns the
    executable of the first order (harness objects first - the usual 'application objects, then the library'), which is the one
    every request goes to; run_startup() uses both."""
    src = os.path.join(fv.REPO, 'src')
    objdir = os.path.join(fv.BUILD, 'c06_obj')
    os.makedirs(objdir, exist_ok=True)
    flags = ['-std=c++14', '-O1', '-g', '-Wall', '-fsanitize=address,undefined', '-fno-sanitize-recover=all', '-I' + src]
    units = [os.path.join(fv.VERIF, 'cxx', 'c06_startup.cc'), os.path.join(fv.VERIF, 'cxx', 'c06_harness.cc')] + \
        [os.path.join(src, s) for s in SRC]
    objs = [os.path.join(objdir, '%d_%s.o' % (i, os.path.basename(u))) for i, u in enumerate(units)]
    results = [None] * len(units)

    def compile_one(i):
        results[i] = fv.sh(['clang++'] + flags + ['-c', units[i], '-o', objs[i]], timeout=600)
    ths = [threading.Thread(target=compile_one, args=(i,)) for i in range(len(units))]
    for t in ths:
        t.start()
    for t in ths:
        t.join()
    for (rc, out), u in zip(results, units):
        if rc != 0:
            ctx.proof_failures.append('harness does not compile against %s: %s: %s' % (src, u, out[-1500:]))
            return None
    for order, link in (('startup-first', objs), ('startup-last', objs[2:] + [objs[1], objs[0]])):
        exe = os.path.join(fv.BUILD, 'c06_harness' if order == 'startup-first' else 'c06_harness_' + order)
        rc, out = fv.sh(['clang++'] + flags + link + ['-o', exe], timeout=600)
        if rc != 0:
            ctx.proof_failures.append('harness does not link (%s): %s' % (order, out[-1500:]))
            return None
        EXES[order] = exe
    return EXES['startup-first']


FAULTS = {}      # request line during which the harness died -> one-line summary of the sanitizer report


def fault_summary(stderr):
    first = [l.strip() for l in stderr.split('\n') if 'ERROR: ' in l or 'runtime error' in l]
    frames = [l.strip() for l in stderr.split('\n') if l.strip().startswith('#') and ('point_one' in l or 'c06_harness' in l)]
    return ((first[0] if first else stderr.strip()[-200:]) + ' | ' + ' <- '.join(f.split(' in ', 1)[-1] for f in frames[:3]))[:600]


def run_mut(ctx, exe, jobs, step=400):
    """jobs: [(message bytes, [spec, ...], None | (total buffer length, fill byte))] -> per job the list of per-spec answers
    ('<IsValid><crc compare><framer callbacks>' or 'fault').  A request during which the harness dies is repeated one spec per
    request, so that 'fault' is attributed to exactly the altered copies on which the code under test faults."""
    def line(msg, specs, pad):
        if pad is None:
            return 'mut %s %s' % (hx(msg), ';'.join(specs))
        return 'mutp %s %d %d %s' % (hx(msg), pad[0], pad[1], ';'.join(specs))
    lines, where = [], []
    for j, (msg, specs, pad) in enumerate(jobs):
        for i in range(0, len(specs), step):
            lines.append(line(msg, specs[i:i + step], pad))
            where.append((j, i, len(specs[i:i + step])))
    out = run_harness(ctx, exe, lines)
    res = [[None] * len(specs) for _, specs, _ in jobs]
    again = []
    for (j, i, n), ans in zip(where, out):
        if ans == 'fault':
            again += [(j, i + k) for k in range(n)]
        else:
            parts = ans.split(',')
            if len(parts) != n:
                raise fv.InfraError('mut: %d answers for %d specs' % (len(parts), n))
            res[j][i:i + n] = parts
    for j, k in again[1200:]:          # every faulting request has at least one spec among the ones repeated singly
        res[j][k] = 'skip'
        ctx.count('cxx_fault_request_specs_not_repeated_singly')
    again = again[:1200]
    if again:
        single = [line(jobs[j][0], [jobs[j][1][k]], jobs[j][2]) for j, k in again]
        out2 = run_harness(ctx, exe, single, nproc=12)
        for (j, k), l, ans in zip(again, single, out2):
            res[j][k] = 'fault:' + FAULTS.get(l, '?') if ans == 'fault' else ans
    return res


def run_harness(ctx, exe, lines, nproc=None):
    """One answer per request line.  A request during which the process dies (sanitizer report) is answered
    'fault' and the sanitizer text is kept in ctx.notes."""
    if not lines:
        return []
    nproc = min(12, len(lines), nproc or max(1, len(lines) // 40))
    chunks = [lines[i::nproc] for i in range(nproc)]
    results = [None] * nproc
    env = dict(os.environ, **HARNESS_ENV)

    def work(i):
        todo = chunks[i]
        res = []
        while todo:
            p = subprocess.run([exe], input='\n'.join(todo) + '\n', stdout=subprocess.PIPE, stderr=subprocess.PIPE,
                               text=True, env=env)
            ans = p.stdout.split('\n')
            if ans and ans[-1] == '':
                ans.pop()
            ans = ans[:len(todo)]
            res += ans
            if len(ans) == len(todo):
                break
            # died while executing request len(ans)
            res.append('fault')
            ctx.notes.append('harness died on request %r: %s' % (todo[len(ans)][:200], p.stderr[-1500:]))
            FAULTS[todo[len(ans)]] = fault_summary(p.stderr)
            todo = todo[len(ans) + 1:]
        results[i] = res
    ths = [threading.Thread(target=work, args=(i,)) for i in range(nproc)]
    for t in ths:
        t.start()
    for t in ths:
        t.join()
    out = [None] * len(lines)
    for i in range(nproc):
        if len(results[i]) != len(chunks[i]):
            raise fv.InfraError('harness returned %d lines for %d requests' % (len(results[i]), len(chunks[i])))
        out[i::nproc] = results[i]
    return out


HARNESS_ENV = dict(ASAN_OPTIONS='detect_leaks=1:abort_on_error=0:allocator_may_return_null=1', UBSAN_OPTIONS='print_stacktrace=1')
WHENS = (('static-init', 'called during static initialisation (from the constructor of a namespace-scope object of another translation unit)'),
         ('main-after-static-init-calls', 'called from main() of a process that made the same calls during static initialisation'))


def run_startup(ctx, lines, nproc=None):
    """Every request answered DURING STATIC INITIALISATION (C06_SERVE_AT_STARTUP, see cxx/c06_startup.cc) and once more from main()
    of the same process, by the executables of both link orders.  -> [((order, when), answers)], four phases, each a list with
    one answer per request line ('fault' as in run_harness)."""
    res = []
    if not lines:
        return res
    nproc = min(12, len(lines), nproc or max(1, len(lines) // 25))
    for order, _ in ORDERS:
        exe = EXES[order]
        early, late = [None] * len(lines), [None] * len(lines)

        def work(ids):
            todo = list(ids)
            while todo:
                n = len(todo)
                p = subprocess.run([exe], input='\n'.join(lines[i] for i in todo + todo) + '\n', stdout=subprocess.PIPE, stderr=subprocess.PIPE,
                                   text=True, env=dict(os.environ, C06_SERVE_AT_STARTUP=str(n), **HARNESS_ENV))
                ans = p.stdout.split('\n')
                if ans and ans[-1] == '':
                    ans.pop()
                ans = ans[:2 * n]
                for j, a in enumerate(ans):
                    (early if j < n else late)[todo[j % n]] = a
                if len(ans) == 2 * n:
                    return
                k = len(ans)                  # died while executing request k of 2n
                dead = todo[k % n]
                ctx.notes.append('harness (%s) died on request %r (%s): %s' % (order, lines[dead][:200], WHENS[0][0] if k < n else WHENS[1][0], p.stderr[-1500:]))
                FAULTS[lines[dead]] = fault_summary(p.stderr)
                if k < n:
                    early[dead] = late[dead] = 'fault'
                    todo = todo[:k] + todo[k + 1:]          # the ones before it have no answer from main() yet
                else:
                    late[dead] = 'fault'
                    todo = todo[k - n + 1:]
        ths = [threading.Thread(target=work, args=(list(range(i, len(lines), nproc)),)) for i in range(nproc)]
        for t in ths:
            t.start()
        for t in ths:
            t.join()
        if any(a is None for a in early + late):
            raise fv.InfraError('run_startup: unanswered requests (%s)' % order)
        res.append(((order, WHENS[0][0]), early))
        res.append(((order, WHENS[1][0]), late))
        ctx.count('cxx_requests_answered_during_static_initialisation', len(lines))
    return res


def phase_sfx(phase):
    return '' if phase is None else '-during-static-initialisation' if phase[1] == 'static-init' else '-after-calls-during-static-initialisation'


def phase_text(phase):
    return '' if phase is None else ' [%s; link order: %s]' % (dict(WHENS)[phase[1]], dict(ORDERS)[phase[0]])


def with_phase(replay, phase):
    return replay if phase is None else dict(replay, phase=list(phase))


# ---- the Python code under test ----------------------------------------------------------------------------
def repo_crc32():
    from fusion_engine_client.messages import defs
    return defs.crc32


def py_validate(buf):
    """MessageHeader.unpack(validate_crc=True): 1 accepted, 0 ValueError, otherwise the exception type."""
    from fusion_engine_client.messages import MessageHeader
    h = MessageHeader()
    try:
        h.unpack(buf, validate_crc=True, warn_on_unrecognized=False)
        return 1
    except ValueError:
        return 0
    except Exception as e:  # e.g. struct.error on a buffer shorter than a header
        return 'raised:' + type(e).__name__


OPTIONS = ('validate_sync', 'validate_crc', 'warn_on_unrecognized', 'return_sync_bytes')     # in the order of unpack()'s signature
PREFIX = b'\x2e\x31\x07'      # what precedes the message in the caller's buffer when the call gives a non-zero offset


def unpack_forms():
    """Every way a caller can write MessageHeader.unpack(buffer, offset, validate_sync, validate_crc, warn_on_unrecognized,
    return_sync_bytes): each option omitted, False or True by keyword (3^4) x offset omitted / non-zero positional / non-zero by
    keyword; and options given positionally (all four, and the first two with the other two omitted; then the offset is
    positional too: 0 or non-zero).  -> [(text, offset, positional args after the buffer, keyword args, {option: effective value})]"""
    if unpack_forms.cache:
        return unpack_forms.cache
    defaults = dict(validate_sync=False, validate_crc=False, warn_on_unrecognized=True, return_sync_bytes=False)
    res = []

    def add(off, pos, kw, given):
        text = 'unpack(%s)' % ', '.join(['buffer'] + [repr(a) for a in pos] + ['%s=%r' % kv for kv in kw.items()])
        res.append((text, off, tuple(pos), kw, dict(defaults, **given)))
    for vals in itertools.product((None, False, True), repeat=4):
        given = {k: v for k, v in zip(OPTIONS, vals) if v is not None}
        add(0, (), dict(given), given)
        add(len(PREFIX), (len(PREFIX),), dict(given), given)
        add(len(PREFIX), (), dict(offset=len(PREFIX), **given), given)
    for off in (0, len(PREFIX)):
        for vals in itertools.product((False, True), repeat=4):
            add(off, (off,) + vals, {}, dict(zip(OPTIONS, vals)))
        for vals in itertools.product((False, True), repeat=2):
            add(off, (off,) + vals, {}, dict(zip(OPTIONS, vals)))
            add(off, (off,) + vals, {'return_sync_bytes': True}, dict(zip(OPTIONS, vals), return_sync_bytes=True))
    unpack_forms.cache = res
    return res


unpack_forms.cache = []


def crc_forms():
    """The call forms that request CRC validation (the plain one, unpack(buffer, validate_crc=True, warn_on_unrecognized=False), is
    what py_validate() calls)."""
    return [f for f in unpack_forms() if f[4]['validate_crc']]


def py_unpack(form, buf, header=None):
    """One call form on the message `buf`: ('ok', return value, header object) | 0 for ValueError | 'raised:<type>'."""
    import logging
    from fusion_engine_client.messages import MessageHeader
    text, off, pos, kw, _ = form
    h = MessageHeader() if header is None else header
    before = logging.root.manager.disable
    logging.disable(logging.CRITICAL)      # warn_on_unrecognized=True (the default) logs; the text is not what is judged here
    try:
        return ('ok', h.unpack(PREFIX + bytes(buf) if off else buf, *pos, **kw), h)
    except ValueError:
        return 0
    except Exception as e:
        return 'raised:' + type(e).__name__
    finally:
        logging.disable(before)


ROTATE = [0]


def some_crc_forms(n):
    """The next n CRC-requesting call forms, in rotation over all of them (so that every form meets thousands of altered messages of
    every kind in a run)."""
    forms = crc_forms()
    ROTATE[0] += n
    return [forms[(ROTATE[0] + 37 * i) % len(forms)] for i in range(n)]


def forms_accepting(forms, bad):
    """Of the given CRC-requesting call forms, those that do not refuse the altered message `bad`: [(form text, what happened)]."""
    res = []
    for form in forms:
        r = py_unpack(form, bad)
        if r != 0:
            res.append((form[0], 'returned %r' % (r[1],) if isinstance(r, tuple) else r))
    return res


def judge_forms_on_valid(ctx, label, b, forms):
    """An encoder output given to unpack() in each call form: accepted, the documented return value, the header's fields."""
    replay = {'kind': 'valid', 'label': label, 'msg': hx(b)}
    s0, s1, res, crc, pv_, mv, mt, seq, sz, sid = struct.unpack_from('<BBHIBBHIII', b, 0)
    for form in forms:
        r = py_unpack(form, b)
        ctx.count('unpack_call_forms_on_encoder_output')
        want = (HDR, b[:2]) if form[4]['return_sync_bytes'] else HDR
        if not isinstance(r, tuple):
            ctx.violation('C06/encoder-output-rejected-by-unpack-call-form', '%s on %s -> %s' % (form[0], label, 'ValueError' if r == 0 else r),
                          dict(replay, unpack_form=form[0]))
            continue
        h = r[2]
        got = (h.crc, h.message_version, int(h.message_type), h.sequence_number, h.payload_size_bytes, h.source_identifier)
        if r[1] != want or type(r[1]) is not type(want) or got != (crc, mv, mt, seq, sz, sid):
            ctx.violation('C06/unpack-call-form-result', '%s on %s returned %r (documented: %r); fields (crc, version, type, sequence, size, source) = %s, '
                          'the message carries %s' % (form[0], label, r[1], want, got, (crc, mv, mt, seq, sz, sid)), dict(replay, unpack_form=form[0]))


def py_validate_direct(buf):
    """unpack() then validate_crc(buffer) as the decoder does."""
    from fusion_engine_client.messages import MessageHeader
    h = MessageHeader()
    try:
        h.unpack(buf, warn_on_unrecognized=False)
        h.validate_crc(buf)
        return 1
    except ValueError:
        return 0
    except Exception as e:
        return 'raised:' + type(e).__name__


def py_decode(buf, max_payload=1 << 24):
    """(offset, raw bytes) of every message a fresh FusionEngineDecoder returns for this stream, or an exception."""
    from fusion_engine_client.parsers.decoder import FusionEngineDecoder
    dec = FusionEngineDecoder(max_payload_len_bytes=max_payload, return_bytes=True, return_offset=True,
                              warn_on_error='none')
    try:
        res = dec.on_data(bytes(buf))
    except Exception as e:
        return 'raised:' + type(e).__name__
    return [(r[3], bytes(r[2])) for r in res]


def make_raw_class(msg_type, version, payload, raises=False, base=object):
    # deliberately not a MessagePayload subclass: subclassing registers the class in message_type_to_class.
    # `base`: another class made here - the new class DERIVES from it and overrides everything (its own type, version, payload)
    class RawPayload(base):
        MESSAGE_TYPE = msg_type
        MESSAGE_VERSION = version

        def get_type(self):
            return msg_type

        def get_version(self):
            return version

        def pack(self, buffer=None, offset=0, return_buffer=True):
            if raises:
                raise IndexError('pack failed')
            return payload

        def unpack(self, buffer, offset=0, message_version=0):
            return len(payload)

        def calcsize(self):
            return len(payload)
    return RawPayload


SYNTHETIC = (  # label, base label, type, version, payload: payload classes outside the library related by inheritance
    ('Syn:A', None, 20010, 1, bytes(range(1, 9))),
    ('Syn:B(A)', 'Syn:A', 20011, 2, bytes(range(16, 28))),           # derived: other type, version and payload
    ('Syn:C(B(A))', 'Syn:B(A)', 20012, 1, bytes(range(32, 37))),     # derived twice; the version of its grandparent
    ('Syn:D(A)', 'Syn:A', 20010, 3, bytes(range(48, 58))),           # derived: the parent's type, another version
    ('Syn:E(A)', 'Syn:A', 20013, 1, bytes(range(1, 9))),             # derived: another type, the parent's version and payload bytes
    ('Syn:F', None, 20010, 4, bytes(range(64, 70))),                 # unrelated class with the type of A
)


def synthetic_family():
    """{label: (label, object, type, version, payload)} - the same objects on every call (classes are made once)."""
    if not synthetic_family.cache:
        cls = {}
        for label, base, t, v, p in SYNTHETIC:
            cls[label] = make_raw_class(t, v, p, base=cls[base] if base else object)
            cls[label].SYN_LABEL = label
            synthetic_family.cache[label] = (label, cls[label](), t, v, p)
    return synthetic_family.cache


synthetic_family.cache = {}


def registered_class_of(obj):
    """The class of `obj` when it is the class the library registers for its message type (what a decoder constructs), else None."""
    from fusion_engine_client.messages import message_type_to_class, MessagePayload
    if isinstance(obj, MessagePayload) and message_type_to_class.get(type(obj).get_type()) is type(obj):
        return type(obj)
    return None


def class_label(obj):
    """How a replay names the class of a payload object: a registered class by name, a synthetic class by its label, else None
    (a free-standing raw class, rebuilt from type / version / payload)."""
    c = registered_class_of(obj)
    return c.__name__ if c is not None else getattr(type(obj), 'SYN_LABEL', None)


def payload_objects(ctx):
    """(label, object, type int, version int, payload bytes or None when pack() raises).
    type / version are those of the object's CLASS: type(obj).get_type() / get_version(), which must be what the object itself
    reports, the class's own MESSAGE_TYPE / MESSAGE_VERSION and the type the class is registered under."""
    from fusion_engine_client.messages import message_type_to_class
    rng = ctx.rng
    res = []
    for t, c in sorted(message_type_to_class.items(), key=lambda x: int(x[0])):
        try:
            obj = c()
            p = bytes(obj.pack())
        except Exception:
            ctx.count('class_default_does_not_pack')
            continue
        ids = {'registered as': (int(t), None), 'type(obj).get_type()/get_version()': (int(type(obj).get_type()), int(type(obj).get_version())),
               'obj.get_type()/get_version()': (int(obj.get_type()), int(obj.get_version())),
               'MESSAGE_TYPE/MESSAGE_VERSION': (int(c.MESSAGE_TYPE), int(c.MESSAGE_VERSION))}
        if len(set(x[0] for x in ids.values())) != 1 or len(set(x[1] for x in ids.values() if x[1] is not None)) != 1:
            ctx.violation('C06/payload-class-type-or-version-ambiguous', '%s: %s' % (c.__name__, ids),
                          {'kind': 'class', 'class': c.__name__, 'ids': {k: list(x) for k, x in ids.items()}})
        res.append((c.__name__, obj, int(type(obj).get_type()), int(type(obj).get_version()), p))
    sizes = [0, 1, 2, 3, 4, 5, 8, 40, 41, 100, 1000] + ([65536, 70000] if ctx.thorough else [4096])
    for n in sizes:
        t = rng.choice([9, 2999, 10000, 13120, 20001, 65535, 0])
        v = rng.choice([0, 1, 7, 255])
        p = bytes(rng.getrandbits(8) for _ in range(n))
        res.append(('Raw%d' % n, make_raw_class(t, v, p)(), t, v, p))
    return res


# ---- helpers -----------------------------------------------------------------------------------------------
def hx(b):
    return bytes(b).hex() or '-'


def bits_to_spec(bits):
    """Set of bit indices (8 * byte + bit) -> harness spec 'off:hex+off:hex' (one part per maximal byte run)."""
    by = {}
    for b in bits:
        by[b // 8] = by.get(b // 8, 0) ^ (1 << (b % 8))
    offs = sorted(o for o in by if by[o])
    parts = []
    i = 0
    while i < len(offs):
        j = i
        while j + 1 < len(offs) and offs[j + 1] == offs[j] + 1:
            j += 1
        parts.append('%d:%s' % (offs[i], bytes(by[o] for o in offs[i:j + 1]).hex()))
        i = j + 1
    return '+'.join(parts)


def apply_bits(msg, bits):
    m = bytearray(msg)
    for b in bits:
        m[b // 8] ^= 1 << (b % 8)
    return bytes(m)


def region_of(bits):
    """'crc' (bytes 4..7), 'size' (touches bytes 16..19), 'data' (protected region, size field untouched), 'both'."""
    lo, hi = min(bits) // 8, max(bits) // 8
    in_crc = any(4 <= b // 8 < 8 for b in bits)
    in_data = any(b // 8 >= 8 for b in bits)
    if in_crc and in_data:
        return 'crc+size' if any(16 <= b // 8 < 20 for b in bits) else 'crc+data'
    if in_crc:
        return 'crc'
    return 'size' if any(16 <= b // 8 < 20 for b in bits) else 'data'


# ---- stage C/D part 1: the CRC routines --------------------------------------------------------------------
def check_crc(ctx, exe):
    crc32 = repo_crc32()
    rng = ctx.rng
    hl, dl = [], []      # harness lines, driver lines
    # (1) all 1- and 2-byte buffers, exhaustively, in each language
    inits1 = [0, M32, 1, 0x80000000, rng.getrandbits(32)]
    for init in inits1:
        hl.append('exh %d 1' % init)
        dl.append('crctab %d %s' % (init, ','.join('%02x' % a for a in range(256))))
    hl.append('exh 0 2')
    for a in range(256):
        dl.append('crctab 0 %s' % ','.join('%02x%02x' % (a, b) for b in range(256)))
        dl.append('crcspec %s' % ','.join('%02x%02x' % (a, b) for b in range(256)))
    dl.append('crcspec %s' % ','.join('%02x' % a for a in range(256)))
    hout = run_harness(ctx, exe, hl)
    dout = ctx.driver(dl)
    k = 0
    for idx, init in enumerate(inits1):
        cx = hout[idx].split(',')
        ln = dout[idx].split(',')
        for a in range(256):
            z = crc32(bytes([a]), init)
            ctx.case('crc1 %d %d' % (init, a))
            judge_crc(ctx, bytes([a]), init, z, cx[a], ln[a], None)
    # the same requests answered during static initialisation, and by main() afterwards, in both link orders
    for phase, sout in run_startup(ctx, hl):
        for idx, init in enumerate(inits1):
            cx = sout[idx].split(',')
            for a in range(256 if len(cx) == 256 else 1):
                ctx.case('crc1 %d %d %s' % (init, a, phase))
                judge_crc(ctx, bytes([a]), init, crc32(bytes([a]), init), cx[a], None, None, phase)
        cx2 = sout[len(inits1)].split(',')
        for ab in range(65536 if len(cx2) == 65536 else 1):
            buf = bytes([ab >> 8, ab & 255])
            if cx2[ab] == 'fault' or int(cx2[ab]) != crc32(buf):
                judge_crc(ctx, buf, 0, crc32(buf), cx2[ab], None, None, phase)
        ctx.cov['evaluations'] += 65536
    cx2 = hout[len(inits1)].split(',')
    base = len(inits1)
    for a in range(256):
        tab = dout[base + 2 * a].split(',')
        spec = dout[base + 2 * a + 1].split(',')
        for b in range(256):
            buf = bytes([a, b])
            ctx.case(b'crc2' + buf)
            judge_crc(ctx, buf, 0, crc32(buf), cx2[a * 256 + b], tab[b], spec[b])
    spec1 = dout[base + 512].split(',')
    for a in range(256):
        if int(spec1[a]) != crc32(bytes([a])):
            ctx.disagree('bit-serial model != zlib on %02x' % a, {'kind': 'crc', 'init': 0, 'buf': '%02x' % a})
    ctx.count('crc_exhaustive_1byte_x_inits', 256 * len(inits1))
    ctx.count('crc_exhaustive_2byte', 65536)

    # (2) random buffers up to 64 KiB with random initial values
    sizes = [0, 1, 2, 3, 4, 7, 8, 9, 15, 16, 17, 31, 32, 33, 63, 64, 65, 255, 256, 257, 1000, 4095, 4096, 65535, 65536]
    sizes += [rng.randrange(0, 65537) for _ in range(40 if ctx.thorough else 8)]
    hl, dl, meta = [], [], []
    for n in sizes:
        buf = bytes(rng.getrandbits(8) for _ in range(n)) if rng.random() < 0.8 else bytes([rng.choice([0, 255])]) * n
        init = rng.choice([0, 0, M32, rng.getrandbits(32)])
        hl.append('crc %d %s' % (init, hx(buf)))
        dl.append('crctab %d %s' % (init, hx(buf)))
        dl.append('crcspec %s' % hx(buf))
        meta.append((buf, init))
    hout = run_harness(ctx, exe, hl)
    dout = ctx.driver(dl)
    for i, (buf, init) in enumerate(meta):
        ctx.case(b'crcR' + buf + struct.pack('<I', init))
        judge_crc(ctx, buf, init, crc32(buf, init), hout[i], dout[2 * i], dout[2 * i + 1] if init == 0 else None)
        if init != 0 and int(dout[2 * i + 1]) != crc32(buf):
            ctx.disagree('bit-serial model != zlib', {'kind': 'crc', 'init': 0, 'buf': hx(buf)})
        ctx.count('crc_random_buffers')
    for phase, sout in run_startup(ctx, hl):
        for (buf, init), cx in zip(meta, sout):
            ctx.case(b'crcR' + buf + struct.pack('<I', init) + repr(phase).encode())
            judge_crc(ctx, buf, init, crc32(buf, init), cx, None, None, phase)
    if meta:
        ctx.sample({'crc_of': hx(meta[5][0]), 'init': meta[5][1], 'zlib=cxx=lean': crc32(meta[5][0], meta[5][1])})

    # (3) every split point of incremental computation, buffers up to 64 bytes
    hl, dl, meta = [], [], []
    lens = list(range(0, 65)) if ctx.thorough else [0, 1, 2, 3, 8, 16, 24, 25, 33, 63, 64] + [rng.randrange(65) for _ in range(6)]
    for n in lens:
        buf = bytes(rng.getrandbits(8) for _ in range(n))
        hl.append('split ' + hx(buf))
        dl.append('crcsplit ' + hx(buf))
        meta.append(buf)
    hout = run_harness(ctx, exe, hl)
    dout = ctx.driver(dl)
    for i, buf in enumerate(meta):
        whole = crc32(buf)
        cx = hout[i].split(',')
        ln = dout[i].split(',')
        for k in range(len(buf) + 1):
            ctx.case(b'split' + buf + bytes([k]))
            ctx.count('crc_split_points')
            z = crc32(buf[k:], crc32(buf[:k]))
            replay = {'kind': 'split', 'buf': hx(buf), 'k': k}
            if z != whole:
                ctx.violation('C06/crc-incremental-python', 'crc32(b[%d:], crc32(b[:%d])) = %d but crc32(b) = %d' % (k, k, z, whole), replay)
            judge_split_cxx(ctx, buf, k, cx[k] if len(cx) > k else 'fault', whole, None)
            if int(ln[k]) != whole:
                ctx.disagree('model crc32 split at %d gives %s, zlib gives %d' % (k, ln[k], whole), replay)
    for phase, sout in run_startup(ctx, hl):
        for buf, ans in zip(meta, sout):
            cx = ans.split(',')
            for k in range(len(buf) + 1):
                ctx.case(b'split' + buf + bytes([k]) + repr(phase).encode())
                judge_split_cxx(ctx, buf, k, cx[k] if len(cx) > k else 'fault', crc32(buf), phase)

    # (4) the affine law on the implementation: crc(a ^ e) ^ crc(a) = L(e), L from the Lean definition
    dl, meta = [], []
    for _ in range(60 if ctx.thorough else 20):
        n = rng.choice([1, 2, 5, 24, 64, 300])
        a = bytes(rng.getrandbits(8) for _ in range(n))
        e = bytearray(n)
        for _ in range(rng.choice([1, 2, 3, 8])):
            e[rng.randrange(n)] ^= 1 << rng.randrange(8)
        dl.append('crclin ' + hx(e))
        meta.append((a, bytes(e)))
    dout = ctx.driver(dl)
    for (a, e), l in zip(meta, dout):
        x = bytes(p ^ q for p, q in zip(a, e))
        ctx.case(b'lin' + a + e)
        ctx.count('crc_affine_cases')
        if crc32(x) ^ crc32(a) != int(l):
            ctx.disagree('zlib.crc32(a^e) ^ zlib.crc32(a) = %d, model crcLin(e) = %s' % (crc32(x) ^ crc32(a), l),
                         {'kind': 'lin', 'a': hx(a), 'e': hx(e)})


def judge_split_cxx(ctx, buf, k, cx, whole, phase):
    if cx == 'fault' or int(cx) != whole:
        ctx.violation('C06/crc-incremental-cxx' + phase_sfx(phase), 'CalculateCRC(b+%d, n-%d, CalculateCRC(b, %d)) = %s but zlib.crc32(b) = %d%s'
                      % (k, k, k, cx, whole, phase_text(phase)), with_phase({'kind': 'split', 'buf': hx(buf), 'k': k}, phase))


def judge_crc(ctx, buf, init, z, cx, tab, spec, phase=None):
    """tab / spec: the Lean answers (None: not asked for this case - the startup phases repeat cases whose Lean answers were compared)."""
    replay = with_phase({'kind': 'crc', 'init': init, 'buf': hx(buf)}, phase)
    if cx == 'fault' or int(cx) != z:
        ctx.violation('C06/crc-cxx-differs-from-python' + phase_sfx(phase), 'CalculateCRC(%s, %d, %d) = %s but crc32 (zlib) gives %d%s'
                      % (hx(buf)[:80], len(buf), init, cx, z, phase_text(phase)), replay)
    if tab is not None and int(tab) != z:
        ctx.disagree('model table CRC of %s init %d = %s, zlib = %d' % (hx(buf)[:80], init, tab, z), replay)
    if spec is not None and int(spec) != z:
        ctx.disagree('bit-serial specification CRC of %s = %s, zlib = %d' % (hx(buf)[:80], spec, z), replay)


# ---- stage C/D part 2: the encoder -------------------------------------------------------------------------
# A call of a history: (encoder index, payload object, type, version, payload bytes | None when pack() raises,
# source identifier | None when the call omits the argument, call form).
SRC_OK = [0, 1, 7, 255, 256, 65535, 65536, 0x7FFFFFFF, 0x80000000, 0xFFFFFFFE, 0xFFFFFFFF]
SRC_REFUSED = [1 << 32, (1 << 32) + 1, 1 << 64, -1, -(1 << 31), -(1 << 32)]
FORMS = ('pos', 'kw', 'kwall')


def call_encoder(enc, obj, src, form):
    """encode_message in each way a caller can write it; src None = the source_identifier argument is omitted."""
    if src is None:
        return enc.encode_message(message=obj) if form == 'kwall' else enc.encode_message(obj)
    if form == 'kw':
        return enc.encode_message(obj, source_identifier=src)
    if form == 'kwall':
        return enc.encode_message(message=obj, source_identifier=src)
    return enc.encode_message(obj, src)


def failing_objects(ctx, bad):
    """(object, type, version) of payload objects whose pack() raises."""
    from fusion_engine_client.messages import message_type_to_class
    res = [(bad, 10000, 0)]
    for t, c in sorted(message_type_to_class.items(), key=lambda x: int(x[0])):
        try:
            obj = c()
        except Exception:
            continue
        try:
            obj.pack()
        except Exception:
            res.append((obj, int(obj.get_type()), int(obj.get_version())))
    ctx.count('payload_objects_whose_pack_raises', len(res))
    return res


def directed_history(rng, obj, t, v, p, bad, long_form=True):
    """One encoder: calls that omit the source identifier after every kind of call that was given one (zero, small, 2^32 - 1,
    refused 2^32 / -1, a payload whose pack() raises), in every call form."""
    s1, s2, s3, s4 = [rng.choice([1, 7, 255, 12345, 0x80000000, rng.getrandbits(32) | 1]) for _ in range(4)]
    good = (0, obj, t, v, p)
    fail = (0,) + bad + (None,)
    if not long_form:
        return [good + (None, 'pos'), good + (s1, 'kw'), good + (None, 'kwall'), good + (1 << 32, 'pos'), good + (None, 'pos')]
    return [good + (None, 'pos'), good + (s1, 'pos'), good + (None, 'pos'), good + (0, 'kw'), good + (None, 'kwall'),
            good + (M32, 'kw'), good + (None, 'pos'), good + (1 << 32, 'pos'), good + (None, 'pos'), good + (-1, 'kw'),
            good + (None, 'kwall'), fail + (s2, 'pos'), good + (None, 'pos'), fail + (None, 'pos'), good + (None, 'pos'),
            good + (s3, 'kwall'), good + (s4, 'kw'), good + (None, 'pos'), good + (s4, 'pos')]


def interleaved_history(rng, a, b, bad):
    """Two encoder objects (the second constructed after the first was used), calls alternating: what one encoder was given must
    not show in the other's messages, each numbers its own messages."""
    A = (0,) + a
    B = (1,) + b
    s1, s2 = rng.choice([3, 77, M32]), rng.choice([5, 1 << 31, 0xFFFFFFFE])
    return [A + (s1, 'pos'), B + (None, 'pos'), A + (None, 'pos'), B + (s2, 'kw'), A + (None, 'kwall'), B + (None, 'pos'),
            A + (1 << 32, 'kw'), B + (None, 'pos'), A + (None, 'pos'), (1,) + bad + (None, s1, 'pos'), A + (None, 'pos'),
            B + (None, 'kwall'), B + (-1, 'pos'), A + (s2, 'pos'), B + (None, 'pos'), A + (None, 'pos')]


def random_history(rng, pool, bad, nenc):
    calls = []
    for _ in range(rng.randrange(4, 25)):
        k = rng.randrange(nenc)
        r = rng.random()
        src = None if r < 0.4 else rng.choice(SRC_OK + [rng.getrandbits(32)]) if r < 0.85 else rng.choice(SRC_REFUSED)
        form = rng.choice(FORMS)
        if rng.random() < 0.12:
            calls.append((k,) + rng.choice(bad) + (None, src, form))
        else:
            _, obj, t, v, p = rng.choice(pool)
            calls.append((k, obj, t, v, p, src, form))
    return calls


def related_classes(pool):
    """Every (parent entry, derived entry) of the pool: the class of the second payload object derives (directly or not) from the
    class of the first.  Discovered with issubclass, whatever the library or the synthetic family contains."""
    return [(P, C) for P in pool for C in pool if type(C[1]) is not type(P[1]) and issubclass(type(C[1]), type(P[1]))]


def pair_cover(n, rng):
    """A closed walk over 0..n-1 in which every ordered pair (a, b), a = b included, occurs exactly once as two consecutive
    entries (an Euler circuit of the complete directed graph with loops; n^2 + 1 entries), in an order drawn from rng."""
    nxt = {a: rng.sample(range(n), n) for a in range(n)}
    stack, walk = [rng.randrange(n)], []
    while stack:
        a = stack[-1]
        if nxt[a]:
            stack.append(nxt[a].pop())
        else:
            walk.append(stack.pop())
    return walk[::-1]


def class_histories(ctx, objs, fails):
    """Histories that vary WHICH payload class follows which on one encoder object (the header of a message must be that of the
    payload of THAT call, whatever class the encoder was given before):
    (1) every ordered pair (A, B) of payload classes, A = B included, as the first two calls of a fresh encoder object;
    (2) the same pairs once more inside long histories: a walk through the classes in which every ordered pair is adjacent once,
        cut into histories of 33 calls (each starts with the class the previous one ended with);
    (3) around every two classes related by inheritance (P parent, C derived; found with issubclass): a third class X - every
        class of the pool, P and C themselves included - in every position of both orders (X P C, P X C, P C X, X C P, C X P,
        C P X); a refused call between P and C (pack() raising; source identifier outside its field);
    (4) two encoder objects: what one was given must not label the other's messages - P on one, C on the other, for the related
        classes in both orders, and ordered pairs of the pool (all of them in the thorough tier).
    The pool: every registered class whose default object packs, the synthetic family (SYNTHETIC: classes derived from one
    another once and twice, with the parent's type / version / payload or their own) and the short raw payloads."""
    rng = ctx.rng
    pool = [o for o in objs if registered_class_of(o[1]) is not None or len(o[4]) <= 100] + list(synthetic_family().values())
    n = len(pool)
    ctx.count('class_pool', n)

    def call(entry, k=0, src=None, form='pos'):
        return (k,) + tuple(entry[1:]) + (src, form)
    res = []
    for A in pool:
        for B in pool:
            start = rng.choice([0, 0, 0, 0xFFFFFFFF])
            res.append(('%s,%s+pair' % (A[0], B[0]), [call(A, src=rng.choice([None, 5])), call(B, src=rng.choice([None, 9]), form=rng.choice(FORMS))], [start]))
    ctx.count('class_ordered_pairs_on_a_fresh_encoder', n * n)
    walk = pair_cover(n, rng)
    for i in range(0, len(walk) - 1, 32):
        part = walk[i:i + 33]
        res.append(('pair-walk-%d' % (i // 32), [call(pool[j], src=rng.choice([None, None, 3])) for j in part], [rng.choice([0, 0, 7])]))
    ctx.count('class_ordered_pairs_inside_long_histories', len(walk) - 1)
    related = related_classes(pool)
    ctx.count('class_pairs_related_by_inheritance', len(related))
    for P, C in related:
        name = '%s<-%s' % (P[0], C[0])
        for X in pool:
            for order in ((X, P, C), (P, X, C), (P, C, X), (X, C, P), (C, X, P), (C, P, X)):
                res.append(('%s+%s+triple' % (name, X[0]), [call(e, src=rng.choice([None, None, 5])) for e in order], [0]))
                ctx.count('class_triples_around_related_classes')
        fail = (0,) + rng.choice(fails) + (None, None, 'pos')
        res.append((name + '+refused-between', [call(P), fail, call(C), call(C), call(P)], [0]))
        res.append((name + '+refused-between', [call(P), call(C, src=1 << 32), call(C), call(P, src=-1), call(P), call(C)], [0]))
        for a, b in ((P, C), (C, P)):
            res.append((name + '+two-encoders', [call(a, 0), call(b, 1), call(b, 0), call(a, 1), call(a, 0), call(b, 1)], [0, 0]))
            res.append((name + '+two-encoders', [call(a, 0), call(a, 0), call(b, 1), call(b, 0)], [0, rng.choice([0, 5])]))
    cross = [(A, B) for A in pool for B in pool]
    if not ctx.thorough:
        cross = rng.sample(cross, min(len(cross), 400))
    for A, B in cross:
        res.append(('%s/%s+two-encoders' % (A[0], B[0]), [call(A, 0), call(B, 1), call(B, 0), call(A, 1)], [0, 0]))
    ctx.count('class_pairs_across_two_encoders', len(cross))
    return res


def check_encoder(ctx, exe, objs):
    """Returns the list of encoded messages (label, bytes)."""
    rng = ctx.rng
    sessions = []
    for label, obj, t, v, p in objs:
        for start in (0, rng.choice([1, 77, 0x7FFFFFFF]), 0xFFFFFFFE):
            srcs = [rng.choice([0, 1, 7, 0xFFFFFFFF, 0x80000000, rng.getrandbits(32)]) for _ in range(3)]
            sessions.append((label, [(0, obj, t, v, p, s, 'pos') for s in srcs], [start]))
    # sessions with failing calls in the middle: pack() raising, source id outside its field
    bad = make_raw_class(10000, 0, b'', raises=True)()
    fails = failing_objects(ctx, bad)      # payload objects whose pack() raises: the raw one and every registered class whose default does
    for label, obj, t, v, p in objs[:6] + objs[-3:]:
        for start in (0, 0xFFFFFFFF):
            calls = [(obj, t, v, p, 3), (bad, 10000, 0, None, 3), (obj, t, v, p, 1 << 32), (obj, t, v, p, -1), (obj, t, v, p, 4),
                     (obj, t, v, p, 5)]
            sessions.append((label + '+failing', [(0,) + c + ('pos',) for c in calls], [start]))
    # call HISTORIES: every payload class through one encoder with the source identifier given / omitted / refused in turn;
    # two encoder objects interleaved; random histories over up to three encoder objects
    histories = []
    for i, (label, obj, t, v, p) in enumerate(objs):
        start = (0, 0, rng.choice([1, 77, 0x7FFFFFFF]), 0xFFFFFFFD)[i % 4]
        histories.append((label + '+history', directed_history(rng, obj, t, v, p, fails[i % len(fails)], long_form=len(p) <= 1000), [start]))
    small = [o for o in objs if len(o[4]) <= 1000]
    pairs = list(zip(small, small[1:] + small[:1]))
    if not ctx.thorough:
        pairs = pairs[:2] + rng.sample(pairs[2:], min(len(pairs) - 2, 14))
    for (la, *a), (lb, *b) in pairs:
        starts = rng.choice([[0, 0], [0, 0], [0xFFFFFFFE, 0], [5, 0xFFFFFFFF]])
        histories.append(('%s/%s+two-encoders' % (la, lb), interleaved_history(rng, tuple(a), tuple(b), rng.choice(fails)), starts))
    for i in range(150 if ctx.thorough else 40):
        nenc = rng.choice([1, 1, 2, 3])
        starts = [rng.choice([0, 0, 0, 1, 0xFFFFFFF0 + rng.randrange(16), rng.getrandbits(32)]) for _ in range(nenc)]
        histories.append(('random-history-%d' % i, random_history(rng, small, fails, nenc), starts))
    histories += class_histories(ctx, objs, fails)
    encoded, hist_encoded = [], []
    lines, pend = [], []
    for label, calls, starts in sessions:
        run_history(ctx, label, calls, starts, lines, pend, encoded)
    for label, calls, starts in histories:
        run_history(ctx, label, calls, starts, lines, pend, hist_encoded)
        ctx.count('encoder_call_histories')
    outs = ctx.driver(lines)
    for (replay, impl), model in zip(pend, outs):
        if isinstance(impl, list):          # a whole history of one encoder object against the model stepped over it
            steps = model.split('|')
            if len(steps) != len(impl):
                ctx.disagree('encoder history: model answered %d calls of %d: %s' % (len(steps), len(impl), model[:160]), replay)
                continue
            for i, (a, m) in enumerate(zip(impl, steps)):
                if a != m:
                    ctx.disagree('encode_message != model stepped over the call history, call %d of this encoder: impl=%s model=%s'
                                 % (i, a[:160], m[:160]), replay)
                    break
        elif impl != model:
            ctx.disagree('encode_message != model: impl=%s model=%s' % (impl[:160], model[:160]), replay)
    # the validators on what the encoder produced
    seen = set()
    uniq, uniq_hist = [], []
    for src_list, dst in ((encoded, uniq), (hist_encoded, uniq_hist)):
        for label, b in src_list:
            if b not in seen:
                seen.add(b)
                dst.append((label, b))
    both = uniq + uniq_hist
    hout = run_harness(ctx, exe, ['msg ' + hx(b) for _, b in both])
    dout = ctx.driver(['validate ' + hx(b) for _, b in both])
    for i, ((label, b), cx, md) in enumerate(zip(both, hout, dout)):
        judge_valid(ctx, label, b, cx, md, all_forms=i < len(uniq))
    # the messages of the sessions once more through the C++ validators during static initialisation (both link orders)
    early = uniq if ctx.thorough or len(uniq) <= 300 else uniq[:20] + rng.sample(uniq[20:], 280)
    for phase, sout in run_startup(ctx, ['msg ' + hx(b) for _, b in early]):
        for (label, b), cx in zip(early, sout):
            judge_valid(ctx, label, b, cx, None, phase=phase)
    return uniq


def py_decode_headers(buf):
    """((type, version, sequence number, source identifier, payload size), class of the payload object) of every message a fresh
    FusionEngineDecoder returns."""
    from fusion_engine_client.parsers.decoder import FusionEngineDecoder
    dec = FusionEngineDecoder(max_payload_len_bytes=1 << 24, return_bytes=True, return_offset=True, warn_on_error='none')
    try:
        res = dec.on_data(bytes(buf))
    except Exception as e:
        return 'raised:' + type(e).__name__
    return [((int(r[0].message_type), int(r[0].message_version), int(r[0].sequence_number), int(r[0].source_identifier),
              int(r[0].payload_size_bytes)), type(r[1])) for r in res]


def run_history(ctx, label, calls, starts, lines, pend, encoded):
    """A history of encode_message calls over len(starts) encoder objects (object k is constructed at its first call; its
    sequence_number attribute is assigned only when starts[k] != 0).  Oracle after every call: the produced message carries the
    payload's type and version, the source identifier given to THAT call (0 when omitted), the sequence number following the
    previous message of the same encoder object; a refused call produces nothing.  Model: each call on its own from the
    encoder's state (`encode`), and the model stepped over the whole history of each encoder object (`session`)."""
    from fusion_engine_client.parsers.encoder import FusionEngineEncoder
    encs = [None] * len(starts)
    expect_seq = list(starts)       # per encoder object: the sequence number its next produced message must carry
    trace = []
    sess = [([], []) for _ in starts]        # per encoder object: model call tokens, implementation answers
    streams = [([], []) for _ in starts]     # per encoder object: produced bytes, expected header fields
    base = {'kind': 'encode', 'label': label, 'starts': list(starts)}
    for k, obj, t, v, p, src, form in calls:
        if encs[k] is None:
            encs[k] = FusionEngineEncoder()
            if starts[k] != 0:
                encs[k].sequence_number = starts[k]
        enc = encs[k]
        want_src = 0 if src is None else src
        before = enc.sequence_number
        call = {'enc': k, 'class': class_label(obj), 'type': t, 'version': v, 'source': src, 'form': form,
                'payload': None if p is None else hx(p), 'seq_before': before}
        trace.append(call)
        replay = dict(base, calls=list(trace))
        try:
            out = bytes(call_encoder(enc, obj, src, form))
            impl = 'ok %s %d' % (out.hex(), enc.sequence_number)
        except Exception as e:
            out = None
            kind = 'structError' if type(e).__name__ == 'error' else ('packError' if p is None else 'Other:' + type(e).__name__)
            impl = 'err %s %d' % (kind, enc.sequence_number)
        ctx.case('enc %s %d %d %d %s %s %d' % (label, t, v, before, src, form, k), nontrivial=out is not None)
        ctx.count('encode_calls_ok' if out is not None else 'encode_calls_failing')
        ctx.count('encode_calls_source_omitted' if src is None else 'encode_calls_source_given')
        ctx.cov['traces_validated_against_impl'] += 1
        if isinstance(before, int) and 0 <= before:
            sess[k][0].append('%d:%d:%s:%s' % (t, v, '_' if src is None else src, '!' if p is None else hx(p)))
            sess[k][1].append(impl)
        if 0 <= want_src and isinstance(before, int) and 0 <= before:
            lines.append('encode %d %d %d %d %s' % (t, v, before, want_src, '!' if p is None else hx(p)))
            pend.append((replay, impl))
        elif out is not None:
            # a negative source identifier cannot be carried by the header
            ctx.violation('C06/encoder-negative-argument-accepted', 'encode_message produced bytes for source %d' % want_src, replay)
        if out is None:
            fits = p is not None and 0 <= want_src <= M32 and 0 <= before <= M32 and len(p) <= M32
            if fits:
                ctx.violation('C06/encoder-raised', 'encode_message raised on in-range arguments: %s' % impl, replay)
            continue
        # oracle: fields
        s0, s1, res, crc, pv, mv, mt, seq, size, sid = struct.unpack_from('<BBHIBBHIII', out, 0)
        if (s0, s1, res, pv) != (0x2E, 0x31, 0, 2):
            ctx.violation('C06/encoder-framing-constants', 'sync/reserved/protocol = %r' % ((s0, s1, res, pv),), replay)
        if mt != t or mv != v:
            prev = next((c for c in reversed(trace[:-1]) if c['enc'] == k), None)
            ctx.violation('C06/encoder-type-or-version', 'header carries type %d version %d, the payload object of this call (%s) is type %d version %d '
                          '(call %d of the history, encoder object %d; the previous call on it had a %s payload, type %s version %s)'
                          % (mt, mv, call['class'] or 'raw class', t, v, len(trace) - 1, k, prev and (prev['class'] or 'raw class'),
                             prev and prev['type'], prev and prev['version']), replay)
        if sid != want_src:
            ctx.violation('C06/encoder-source-id', 'header carries source %d, %s (call %d of the history, encoder object %d)'
                          % (sid, 'the call omitted source_identifier (0)' if src is None else 'given %d' % src, len(trace) - 1, k), replay)
        if size != len(p) or out[HDR:] != p or len(out) != HDR + len(p):
            ctx.violation('C06/encoder-payload-size', 'payload_size %d, payload has %d bytes, message %d bytes' % (size, len(p), len(out)), replay)
        if seq != expect_seq[k] % (1 << 32):
            ctx.violation('C06/encoder-sequence-not-consecutive',
                          'message carries sequence %d, the previous produced message implies %d' % (seq, expect_seq[k] % (1 << 32)), replay)
        streams[k][0].append(out)
        streams[k][1].append(((t, v, expect_seq[k] % (1 << 32), want_src, len(p)), registered_class_of(obj)))
        expect_seq[k] = seq + 1
        encoded.append((label, out))
    for k, (tokens, impls) in enumerate(sess):
        if tokens:
            lines.append('session %d %s' % (starts[k], ' '.join(tokens)))
            pend.append((dict(base, calls=list(trace), encoder_object=k), impls))
    # the stream decoder's view of what each encoder object produced, in order
    for k, (outs, want_all) in enumerate(streams):
        if outs and sum(len(o) for o in outs) <= 1 << 16:
            got_all = py_decode_headers(b''.join(outs))
            got = got_all if isinstance(got_all, str) else [g[0] for g in got_all]
            want = [w[0] for w in want_all]
            if got == want:
                # the decoder constructs an object of exactly the class that was encoded (registered classes)
                for i, ((_, gc), (_, wc)) in enumerate(zip(got_all, want_all)):
                    if wc is not None and gc is not wc:
                        ctx.violation('C06/encoder-message-decoded-as-another-class',
                                      'message %d of encoder object %d was encoded from a %s object; FusionEngineDecoder returns a %s object for it'
                                      % (i, k, wc.__name__, gc.__name__), dict(base, calls=list(trace), encoder_object=k))
                        break
            if got != want:
                first = next((i for i, (g, w) in enumerate(zip(got, want)) if g != w), min(len(got), len(want))) if isinstance(got, list) else 0
                ctx.violation('C06/encoder-stream-fields-seen-by-decoder',
                              'FusionEngineDecoder on the %d messages of encoder object %d: message %d is (type, version, sequence, source, size) = %s, '
                              'the calls imply %s' % (len(outs), k, first, (got[first] if first < len(got) else 'not returned') if isinstance(got, list) else got,
                                                      want[first] if first < len(want) else 'no further message'),
                              dict(base, calls=list(trace), encoder_object=k))
    # a session must not stop producing messages: after the calls above one more in-range call must succeed on every encoder object
    for k, enc in enumerate(encs):
        first = next((c for c in calls if c[0] == k and c[4] is not None), None)
        if enc is None or first is None:
            continue
        _, obj, t, v, p, _, _ = first
        final = trace + [{'enc': k, 'type': t, 'version': v, 'source': 0, 'form': 'pos', 'payload': hx(p)}]
        try:
            out = bytes(enc.encode_message(obj, 0))
            seq = struct.unpack_from('<I', out, 12)[0]
            if seq != expect_seq[k] % (1 << 32):
                ctx.violation('C06/encoder-sequence-not-consecutive', 'message carries sequence %d, expected %d' % (seq, expect_seq[k] % (1 << 32)),
                              dict(base, calls=final))
        except Exception as e:
            ctx.violation('C06/encoder-sequence-wrap', 'encode_message raises %s: %s once the sequence number passed 2^32 - 1 (encoder.sequence_number = %s)'
                          % (type(e).__name__, e, enc.sequence_number), dict(base, calls=final))


def py_canon(pv):
    return 'structError' if pv == 'raised:error' else str(pv)


def parse_kv(s):
    return dict(x.split('=', 1) for x in s.split(' '))


def judge_valid(ctx, label, b, cx, md, phase=None, all_forms=True):
    """An encoder output: every validator accepts it; model validators agree.
    phase: the C++ answer `cx` was given during / after static initialisation (run_startup) - only the C++ validators are judged."""
    crc32 = repo_crc32()
    replay = with_phase({'kind': 'valid', 'label': label, 'msg': hx(b)}, phase)
    sfx, ptext = phase_sfx(phase), phase_text(phase)
    ctx.case(b'valid' + b + repr(phase).encode())
    size = len(b) - HDR
    stored = struct.unpack_from('<I', b, 4)[0]
    if phase is None:
        ctx.count('encoded_messages_validated')
        pv, pd = py_validate(b), py_validate_direct(b)
        dec = py_decode(b)
        if crc32(b[8:]) != stored:
            ctx.violation('C06/encoder-crc-wrong', 'stored CRC %d, crc32(message[8:]) = %d' % (stored, crc32(b[8:])), replay)
        if size <= (1 << 24):
            if pv != 1 or pd != 1:
                ctx.violation('C06/encoder-output-rejected-by-validate_crc', 'unpack(validate_crc=True) -> %s, validate_crc -> %s' % (pv, pd), replay)
            if dec != [(0, b)]:
                ctx.violation('C06/encoder-output-rejected-by-python-decoder', 'decoder returned %s' %
                              (dec if isinstance(dec, str) else [(o, len(r)) for o, r in dec]), replay)
            # every way of writing the unpack() call (all of them, or a rotating dozen + the forms that request the CRC check)
            judge_forms_on_valid(ctx, label, b, unpack_forms() if all_forms else some_crc_forms(12))
    if cx == 'fault':
        ctx.violation('C06/cxx-fault-on-encoder-output' + sfx, 'sanitizer report' + ptext, replay)
        return
    c = parse_kv(cx)
    if c['crc'] != str(stored):
        ctx.violation('C06/py-crc-differs-from-cxx-message-crc' + sfx, 'CalculateCRC(message) = %s, Python stored %d%s' % (c['crc'], stored, ptext), replay)
    if HDR + size <= (1 << 24) and c['valid'] != '1':
        ctx.violation('C06/encoder-output-rejected-by-IsValid' + sfx, 'IsValid -> %s%s' % (c['valid'], ptext), replay)
    if HDR + size <= (1 << 17) and not c['framer'].startswith('1:'):
        ctx.violation('C06/encoder-output-rejected-by-framer' + sfx, 'framer callbacks: %s%s' % (c['framer'], ptext), replay)
    s0, s1, res, crc, pv_, mv, mt, seq, sz, sid = struct.unpack_from('<BBHIBBHIII', b, 0)
    if c['hdr'] != '%d,%d,%d,%d,%d,%d' % (mt, mv, seq, sid, sz, crc):
        ctx.violation('C06/header-layout-differs-cxx' + sfx, 'C++ reads %s, Python wrote %s%s' % (c['hdr'], (mt, mv, seq, sid, sz, crc), ptext), replay)
    if phase is not None:
        return
    m = parse_kv(md)
    want = {'py': py_canon(pv), 'cxx': {'1': '1', '0': '0', 'oob': 'oob'}[c['valid']], 'framer': '1' if c['crc'] == str(stored) else '0',
            'type': str(mt), 'ver': str(mv), 'seq': str(seq), 'src': str(sid), 'size': str(sz), 'crc': str(crc)}
    for k, w in want.items():
        if m.get(k) != w:
            ctx.disagree('validators/model differ on an encoder output: %s impl=%s model=%s' % (k, w, m.get(k)), replay)


# ---- stage D part 3: corruption -----------------------------------------------------------------------------
def flips_for(ctx, msg, exhaustive_pairs):
    """List of (kind, frozenset of bit indices) to apply to one message."""
    rng = ctx.rng
    nbits = 8 * len(msg)
    res = [('single', (b,)) for b in range(32, nbits)]
    if not exhaustive_pairs:
        for _ in range(300 if ctx.thorough else 60):
            i, j = rng.sample(range(32, nbits), 2)
            res.append(('double', (min(i, j), max(i, j))))
        for _ in range(40 if ctx.thorough else 15):     # close pairs, and pairs across the field boundary
            i = rng.randrange(32, nbits - 1)
            j = min(nbits - 1, i + rng.randrange(1, 40))
            res.append(('double', (i, j)))
    # bursts of up to 32 bits inside one region
    for _ in range(120 if ctx.thorough else 30):
        span = rng.randrange(2, 33)
        if rng.random() < 0.2:
            lo, hi = 32, 64
        else:
            lo, hi = 64, nbits
        if hi - lo < span:
            span = hi - lo
        s = rng.randrange(lo, hi - span + 1)
        inner = [s + k for k in range(1, span - 1) if rng.random() < 0.5]
        res.append(('burst', tuple([s] + inner + ([s + span - 1] if span > 1 else []))))
    return res


MAXSZ = 1 << 24          # MessageHeader::MAX_MESSAGE_SIZE_BYTES = MessageHeader._MAX_EXPECTED_SIZE_BYTES
FIELDS32 = (('crc', 4), ('sequence_number', 12), ('payload_size_bytes', 16), ('source_identifier', 20))


def size_values(n, total):
    """Values to write into payload_size_bytes of an n-byte message that sits at the start of a buffer of `total` bytes: every
    boundary of every comparison / sum a validator may form from the field (24 + size against the limit, against the bytes that
    exist, against 2^k for the width of any integer type), on both sides."""
    size = n - HDR
    v = set(range(0, 26)) | {size + d for d in (-2, -1, 1, 2)} | {n + d for d in (-1, 0, 1)}
    v |= {total + d for d in (-HDR - 1, -HDR, -HDR + 1, -1, 0, 1)}
    v |= {size - HDR, size + HDR, size - 8, size + 8, size - 16, size + 16}          # header / CRC-region offsets applied twice or not at all
    for k in (7, 8, 15, 16, 23, 24, 31, 32):
        v |= {(1 << k) + d for d in (-HDR - 1, -HDR, -HDR + 1, -1, 0, 1, HDR)}
        v |= {size + (1 << k), size | (M32 + 1 - (1 << k)) & M32}       # the same size modulo 2^k; the bits above k all set
    v |= {MAXSZ + d for d in (-HDR - 1, -HDR, -HDR + 1, -17, -16, -15, -9, -8, -7, -1, 0, 1, HDR - 1, HDR, HDR + 1)}
    v |= {(1 << 32) - HDR + k for k in range(-2, HDR)}                  # 24 + size = 2^32 - 2 ... 2^32 + 23
    v |= {(1 << 32) - 16 + k for k in range(-2, 2)} | {(1 << 32) - 8 + k for k in range(-2, 2)}
    v |= {(1 << 32) - n + d for d in (-1, 0, 1)} | {(1 << 32) - total + d for d in (-1, 0, 1)} | {(1 << 32) + size - HDR}
    v |= {(1 << 31) + size, (1 << 31) - size, (1 << 32) - size, (1 << 32) - size - HDR}
    return sorted(x for x in v if 0 <= x <= M32 and x != size)


def set_field(msg, off, width, value):
    """Bit indices that differ between the little-endian field at [off, off + width) of msg and `value`."""
    cur = int.from_bytes(msg[off:off + width], 'little')
    return tuple(8 * off + k for k in range(8 * width) if (cur ^ value) >> k & 1)


def force_window(msg, s, span, mode):
    """Bit indices of the window [s, s + span) that change when all its bits are set ('one'), cleared ('zero') or inverted ('inv')."""
    bits = []
    for b in range(s, s + span):
        cur = msg[b // 8] >> (b % 8) & 1
        if mode == 'inv' or (mode == 'one') != bool(cur):
            bits.append(b)
    return tuple(bits)


def boundary_bursts(ctx, msg, total, full):
    """Alterations confined to <= 32 contiguous bits that put a boundary VALUE into a field (rather than flipping random bits):
    (1) payload_size_bytes := every value of size_values();
    (2) full only: for each 32-bit header field, its top k and its low k bits all set / all cleared / all inverted, k = 1..32
        (every k for payload_size_bytes and crc, which the validators interpret; a subset for the two they only checksum);
    (3) full only: every window of 32 bits that overlaps payload_size_bytes (every one starting in the header for thorough)
        set / cleared / inverted.
    Returns [(kind, bits)], duplicates and empty alterations removed."""
    n = len(msg)
    seen, res = set(), []

    def add(bits):
        if bits and bits not in seen and max(bits) - min(bits) < 32:
            seen.add(bits)
            res.append(('burst', bits))
    for v in size_values(n, total):
        add(set_field(msg, 16, 4, v))
    ctx.count('boundary_size_values', len(res))
    if full:
        for name, off in FIELDS32:
            ks = range(1, 33) if name in ('crc', 'payload_size_bytes') or ctx.thorough else (1, 2, 8, 16, 24, 27, 28, 31, 32)
            for k in ks:
                for mode in ('one', 'zero', 'inv'):
                    add(force_window(msg, 8 * off + 32 - k, k, mode))
                    add(force_window(msg, 8 * off, k, mode))
        lo, hi = (64, 8 * HDR) if ctx.thorough else (8 * 16 - 31, 8 * 20)
        for st in range(lo, hi):
            span = min(32, 8 * n - st)
            for mode in ('one', 'zero', 'inv'):
                add(force_window(msg, st, span, mode))
    return res


def check_padded(ctx, exe, msgs, model_lines, model_pend):
    """The altered message at the start of a LARGER caller buffer (IsValid / CalculateCRC(const void*) take no length: what they
    may read is decided by the size field alone).  A few messages x buffer lengths around the message, around 2^16 and 2^17 and
    around the 2^24 limit x payload_size_bytes := size_values(message length, buffer length).  Every copy must be refused."""
    rng = ctx.rng
    pool = sorted(set(b for _, b in msgs), key=len)
    pick = [pool[0]] + rng.sample(pool[1:], min(len(pool) - 1, 8 if ctx.thorough else 3))
    jobs, pend = [], []
    for idx, msg in enumerate(pick):
        n = len(msg)
        totals = [n + 1, n + 8, n + 23, n + 24, n + 25, n + 255, n + 4096, n + 65536 + 1, (1 << 17) + 64]
        if idx == 0 or ctx.thorough:
            totals += [MAXSZ - 1, MAXSZ, MAXSZ + 1, MAXSZ + HDR, MAXSZ + 4096]
        else:
            totals.append(rng.choice([MAXSZ - 1, MAXSZ, MAXSZ + 1, MAXSZ + HDR]))
        for total in totals:
            fill = rng.choice([0, 0, 0xA5, 0xFF])
            cases = [bits for _, bits in boundary_bursts(ctx, msg, total, False)]
            jobs.append((msg, [bits_to_spec(b) for b in cases], (total, fill)))
            pend.append((msg, cases, total, fill))
    answers = run_mut(ctx, exe, jobs, step=60)
    for (msg, cases, total, fill), cx in zip(pend, answers):
        tail = bytes([fill]) * (total - len(msg))
        for bits, c in zip(cases, cx):
            if c != 'skip':
                ctx.count('padded_buffer_cases')
                judge_flip(ctx, 'in-%d-byte-buffer' % total, msg, 'burst', bits, c, None, model_lines, model_pend, tail=tail, fill=fill)


def check_corruption(ctx, exe, encoded):
    rng = ctx.rng
    # one message per distinct length <= 64 gets the exhaustive double flips in Python (all of them in C++)
    by_len = {}
    for label, b in encoded:
        by_len.setdefault(len(b), (label, b))
    msgs = []
    seen_labels = set()
    for label, b in encoded:
        if label in seen_labels or len(b) > 2000:
            continue
        seen_labels.add(label)
        msgs.append((label, b))
    # some messages followed by another message in the same stream (the decoder must not lose its footing)
    follower = encoded[0][1]
    # the field-window families of boundary_bursts() on one message per distinct length (a rotating dozen in the quick tier);
    # the size-field values on every message
    reps = [b for _, b in sorted(by_len.values(), key=lambda x: len(x[1])) if len(b) <= 2000]
    if not ctx.thorough and len(reps) > 12:
        reps = reps[:2] + rng.sample(reps[2:], 10)
    reps = set(reps)
    jobs, pend, pair_lines = [], [], []
    for label, msg in msgs:
        exh = len(msg) <= 64
        cases = flips_for(ctx, msg, exh)
        bnd = boundary_bursts(ctx, msg, len(msg), msg in reps)
        ctx.count('boundary_bursts', len(bnd))
        cases += bnd
        jobs.append((msg, [bits_to_spec(bits) for _, bits in cases], None))
        pend.append((label, msg, cases))
        if exh:
            pair_lines.append('pairs %s 32 %d' % (hx(msg), 8 * len(msg)))
    answers = run_mut(ctx, exe, jobs)
    pout = iter(run_harness(ctx, exe, pair_lines, nproc=12))
    model_lines, model_pend = [], []
    # every CRC-requesting unpack() call form on every altered copy of the shortest message and of a few more (one per distinct
    # length <= 64 bytes in the thorough tier); three forms in rotation on every other altered copy
    short = [m for _, m in sorted(by_len.values(), key=lambda x: len(x[1])) if len(m) <= 64]
    every_form = set(short if ctx.thorough else short[:1] + rng.sample(short[1:], min(len(short) - 1, 2)))
    ctx.count('messages_with_every_unpack_call_form_on_every_altered_copy', len(every_form))
    for (label, msg, cases), cx in zip(pend, answers):
        for (kind, bits), c in zip(cases, cx):
            if c != 'skip':
                judge_flip(ctx, label, msg, kind, bits, c, follower, model_lines, model_pend, all_forms=msg in every_form)
        if len(msg) <= 64:
            judge_pairs_cxx(ctx, label, msg, next(pout))
            if by_len[len(msg)][1] == msg or ctx.thorough:
                pairs_python(ctx, label, msg)
            else:
                ctx.count('python_double_flips_sampled_only_messages')
                nb = 8 * len(msg)
                for _ in range(1500):
                    i, j = rng.sample(range(32, nb), 2)
                    judge_flip(ctx, label, msg, 'double', (min(i, j), max(i, j)), None, None, model_lines, model_pend)
    # the altered copies of some messages given to the C++ validators DURING STATIC INITIALISATION (and again from main() of the same
    # process), in both link orders: the shortest message, a few of every size class, all of their alterations
    idx = list(range(len(pend)))
    early = sorted(idx, key=lambda i: len(pend[i][1]))[:2] + rng.sample(idx, min(len(idx), 20 if ctx.thorough else 6))
    early = [i for k, i in enumerate(early) if i not in early[:k]]
    lines, where = [], []
    for i in early:
        specs = jobs[i][1]
        for st in range(0, len(specs), 400):
            lines.append('mut %s %s' % (hx(jobs[i][0]), ';'.join(specs[st:st + 400])))
            where.append((i, st))
    early_pairs = pair_lines[:2]
    sout_all = run_startup(ctx, lines + early_pairs)
    for phase, sout in sout_all:
        for (i, st), ans in zip(where, sout):
            label, msg, cases = pend[i]
            part = cases[st:st + 400]
            cxs = ans.split(',') if ans != 'fault' else ['fault:' + FAULTS.get(lines[where.index((i, st))], '?')] * len(part)
            if len(cxs) != len(part):
                raise fv.InfraError('mut at start-up: %d answers for %d specs' % (len(cxs), len(part)))
            for (kind, bits), c in zip(part, cxs):
                judge_flip(ctx, label, msg, kind, bits, c, None, None, None, phase=phase)
        for pl, ans in zip(early_pairs, sout[len(lines):]):
            judge_pairs_cxx(ctx, 'message of %d bytes' % (len(pl.split(' ')[1]) // 2), bytes.fromhex(pl.split(' ')[1]), ans, phase=phase)
    check_padded(ctx, exe, msgs, model_lines, model_pend)
    outs = ctx.driver(model_lines)
    for (replay, want), got in zip(model_pend, outs):
        m = parse_kv(got)
        for k, w in want.items():
            if w is not None and m.get(k) != w:
                ctx.disagree('validator != model on an altered message: %s impl=%s model=%s' % (k, w, m.get(k)), replay)
                break


def judge_flip(ctx, label, msg, kind, bits, cx, follower, model_lines, model_pend, always_model=False, tail=b'', fill=0,
               all_forms=False, phase=None):
    """One altered copy (followed by `tail` in the same buffer): every validator must reject it.
    all_forms: every unpack() call form that requests the CRC check (otherwise three of them, in rotation).
    phase: the C++ answer `cx` was given during / after static initialisation (run_startup) - only the C++ validators are judged."""
    bad = apply_bits(msg, bits) + tail
    region = region_of(bits)
    size2 = struct.unpack_from('<I', bad, 16)[0]
    sfx = phase_sfx(phase)
    replay = with_phase({'kind': 'flip', 'label': label, 'msg': hx(msg), 'bits': list(bits), 'flip_kind': kind,
                         'altered_header': hx(bad[:HDR]), 'altered_payload_size_bytes': size2}, phase)
    if tail:
        replay.update({'total': len(bad), 'fill': fill})
    if len(bad) <= 4096:
        replay['altered'] = hx(bad)
    small = len(bad) <= 8192        # the Python decoder resynchronises byte by byte: long buffers go to the validators only
    ctx.case(b'flip' + (bad if small else bad[:len(msg)] + b'%d.%d' % (len(bad), fill)) + (repr(phase).encode() if phase else b''), nontrivial=True)
    ctx.count('%s_%s%s' % (kind, region, sfx))
    tag = '%s-%s' % (kind, 'size-field' if 'size' in region else ('crc-field' if region == 'crc' else 'protected-region' if region == 'data' else 'both-regions'))
    accepted = []
    pv = 0
    if phase is None:
        pv = py_validate(bad)
        if pv != 0:
            accepted.append(('validate_crc', 'unpack(validate_crc=True) -> %s' % pv))
        # whatever else the caller asks of unpack(): whenever validate_crc is requested the altered message is refused
        forms = crc_forms() if all_forms else some_crc_forms(3)
        if len(bad) > 8192:             # a form with a non-zero offset copies the buffer behind a prefix
            forms = [f for f in forms if f[1] == 0]
        if forms:
            through = forms_accepting(forms, bad)
            ctx.count('unpack_call_forms_on_altered_messages', len(forms))
            if through:
                replay['unpack_forms_accepting'] = [t for t, _ in through][:12]
                accepted.append(('unpack-call-form', '%s accepts the altered message (%s)%s' % (through[0][0], through[0][1], '' if len(through) == 1 else
                                 ' (as do %d more of the %d call forms tried, all of which request validate_crc)' % (len(through) - 1, len(forms)))))
    run_decoders = cx is not None
    if run_decoders:
        if small and phase is None:
            dec = py_decode(bad)
            if isinstance(dec, str) or any(o == 0 for o, _ in dec):
                accepted.append(('python-decoder', 'decoder returned %s' % (dec if isinstance(dec, str) else [(o, len(r)) for o, r in dec])))
        if phase is None and follower is not None and (kind != 'single' or bits[0] % 3 == 0):
            dec2 = py_decode(bad + follower)
            if isinstance(dec2, str) or any(o == 0 for o, _ in dec2):
                accepted.append(('python-decoder', 'decoder returned %s for the altered message followed by a valid message' %
                                 (dec2 if isinstance(dec2, str) else [(o, len(r)) for o, r in dec2])))
            elif 'size' not in region and (len(msg), follower) not in dec2:
                ctx.violation('C06/decoder-lost-following-message', 'the valid message after the altered %s was not returned: %s' %
                              (label, [(o, len(r)) for o, r in dec2]), replay)
        if cx.startswith('fault'):
            # the sanitizer stopped the harness while the C++ validators looked at exactly this altered copy
            ctx.violation('C06/cxx-fault-on-corrupted-message' + sfx,
                          'sanitizer report while IsValid / CalculateCRC(buffer) / the framer validated %s (%d bytes%s) with bits %s altered '
                          '(payload_size_bytes %d -> %d = 0x%x); must be rejected without reading outside the buffer: %s%s'
                          % (label, len(msg), ', in a %d-byte heap buffer' % len(bad) if tail else ', exact-size heap buffer', list(bits),
                             len(msg) - HDR, size2, size2, cx[6:] or 'see the notes', phase_text(phase)), replay)
            cx = 'fff'
        else:
            if cx[0] == '1':
                accepted.append(('IsValid' + sfx, 'IsValid() -> true' + phase_text(phase)))
            if cx[1] == '1':
                accepted.append(('cxx-crc-compare' + sfx, 'header.crc == CalculateCRC(buffer)' + phase_text(phase)))
            if cx[2] not in '0':
                accepted.append(('framer' + sfx, 'framer made %s callbacks%s' % (cx[2], phase_text(phase))))
            if cx[0] == 'o':
                ctx.count('cxx_not_called_would_read_past_buffer')
            # the verdict the size limits alone dictate (C06_oversize_rejected): above the limit IsValid is called and says no
            if HDR + size2 > MAXSZ and cx[0] != '0':
                ctx.violation('C06/%s-not-refused-by-IsValid-size-limit%s' % (tag, sfx), 'IsValid -> %s for payload_size_bytes = %d%s' % (cx[0], size2, phase_text(phase)), replay)
    if accepted:
        crc32 = repo_crc32()
        reframed = 'size' in region and HDR + size2 <= len(bad) and crc32(bad[8:HDR + size2]) == struct.unpack_from('<I', bad, 4)[0]
        if reframed:
            # the altered size field frames a different extent of the same bytes whose CRC happens to be the stored one
            ctx.violation('C06/size-field-alteration-reframes-a-crc-valid-message',
                          '%s with bits %s flipped (payload size %d -> %d) is accepted: %s' %
                          (label, list(bits), len(msg) - HDR, size2, '; '.join(w for _, w in accepted)), replay)
        else:
            for who, what in accepted:
                ctx.violation('C06/%s-accepted-by-%s' % (tag, who), '%s on %s with bits %s flipped' % (what, label, list(bits)), replay)
    # correspondence with the model validators on a subset (all bursts and doubles handed to C++, every 5th single)
    if phase is None and run_decoders and small and (always_model or kind != 'single' or bits[0] % 5 == 0):
        model_lines.append('validate ' + hx(bad))
        model_pend.append((replay, {'py': py_canon(pv), 'cxx': {'1': '1', '0': '0', 'o': 'oob', 'f': None}[cx[0]],
                                    'framer': {'1': '1', '0': '0', 'o': '0', 'f': None}[cx[1]]}))


def judge_pairs_cxx(ctx, label, msg, ans, phase=None):
    replay = with_phase({'kind': 'pairs', 'label': label, 'msg': hx(msg)}, phase)
    sfx = phase_sfx(phase)
    if ans == 'fault':
        ctx.violation('C06/cxx-fault-on-corrupted-message' + sfx, 'sanitizer report during the exhaustive double flips' + phase_text(phase), replay)
        return
    n, av, ac, first = ans.split(' ')
    nb = 8 * len(msg) - 32
    if int(n) != nb * (nb - 1) // 2:
        raise fv.InfraError('pairs: %s pairs, expected %d' % (n, nb * (nb - 1) // 2))
    ctx.count('double_flips_exhaustive_cxx', int(n))
    ctx.cov['evaluations'] += int(n)
    if av != '0' or ac != '0':
        i, j = first.split('.')
        replay['bits'] = [int(i), int(j)]
        replay['altered'] = hx(apply_bits(msg, (int(i), int(j))))
        ctx.violation('C06/double-accepted-by-IsValid' + sfx, '%s of %s double flips accepted by IsValid, %s by the CRC compare; first: bits %s of %s%s'
                      % (av, n, ac, first, label, phase_text(phase)), replay)


def pairs_python(ctx, label, msg):
    from fusion_engine_client.messages import MessageHeader
    nb = 8 * len(msg)
    m = bytearray(msg)
    h = MessageHeader()
    n = 0
    # the call form changes with the first bit: every CRC-requesting form that reads the buffer in place (offset 0), in rotation
    forms = [f for f in crc_forms() if f[1] == 0]
    for i in range(32, nb):
        m[i >> 3] ^= 1 << (i & 7)
        text, _, pos, kw, _ = forms[i % len(forms)]
        for j in range(i + 1, nb):
            m[j >> 3] ^= 1 << (j & 7)
            n += 1
            ok = []
            try:
                h.unpack(m, validate_crc=True, warn_on_unrecognized=False)
                ok.append('unpack(buffer, validate_crc=True, warn_on_unrecognized=False)')
            except ValueError:
                pass
            try:
                h.unpack(m, *pos, **kw)
                ok.append(text)
            except ValueError:
                pass
            if ok:
                ctx.violation('C06/double-accepted-by-validate_crc', '%s accepts %s with bits %d and %d flipped' % (' and '.join(ok), label, i, j),
                              {'kind': 'flip', 'label': label, 'msg': hx(msg), 'bits': [i, j], 'altered': hx(m), 'flip_kind': 'double',
                               'unpack_forms_accepting': ok})
            m[j >> 3] ^= 1 << (j & 7)
        m[i >> 3] ^= 1 << (i & 7)
    ctx.count('double_flips_exhaustive_python', n)
    ctx.cov['evaluations'] += n


def craft_size_flip(rng, old_size, new_size, msg_type=10000, version=0, seq=0, source=0, prefix=None):
    """A payload of `old_size` bytes (the last four solved for) such that the message encoded with it, with its
    payload size field changed to `new_size` (< old_size - 3), is again a CRC-consistent message.  The CRC is affine
    in the four free bytes, so they are found by Gaussian elimination over GF(2)."""
    crc32 = repo_crc32()

    def tail(size):
        return struct.pack('<BBHIII', 2, version, msg_type, seq, size, source)
    pre = bytes(rng.getrandbits(8) for _ in range(old_size - 4)) if prefix is None else prefix
    target = crc32(tail(new_size) + pre[:new_size])
    zero = crc32(tail(old_size) + pre + bytes(4))
    piv = {}
    for k in range(32):
        c, m = crc32(tail(old_size) + pre + struct.pack('<I', 1 << k)) ^ zero, 1 << k
        for b in sorted(piv, reverse=True):
            if c >> b & 1:
                c ^= piv[b][0]
                m ^= piv[b][1]
        if c:
            piv[c.bit_length() - 1] = (c, m)
    t, sol = zero ^ target, 0
    for b in sorted(piv, reverse=True):
        if t >> b & 1:
            t ^= piv[b][0]
            sol ^= piv[b][1]
    if t:
        raise fv.InfraError('craft_size_flip: no solution')
    return pre + struct.pack('<I', sol)


CRAFTED_LITERAL = '2e3100000d27d90402001027000000000c00000000000000010203040506070808c012ac'   # = c06Crafted in Spec/Integrity.lean


def check_crafted(ctx, exe):
    """Messages built so that ONE flipped bit of payload_size_bytes reframes them as another CRC-valid message."""
    from fusion_engine_client.parsers.encoder import FusionEngineEncoder
    rng = ctx.rng
    todo = [(12, 8, 10000, 0, 0, 0, bytes(range(1, 9)))]
    for _ in range(4):
        bit = rng.randrange(0, 6)
        new = rng.randrange(0, 40) & ~(1 << bit)
        old = new | (1 << bit)
        if old < new + 4:
            continue
        todo.append((old, new, rng.choice([10000, 13120, 2999]), 0, rng.getrandbits(32), rng.getrandbits(32), None))
    model_lines, model_pend, hl, meta = [], [], [], []
    for old, new, t, v, seq, src, prefix in todo:
        payload = craft_size_flip(rng, old, new, t, v, seq, src, prefix)
        enc = FusionEngineEncoder()
        enc.sequence_number = seq
        msg = bytes(enc.encode_message(make_raw_class(t, v, payload)(), src))
        bits = tuple(8 * 16 + k for k in range(32) if (old ^ new) >> k & 1)
        hl.append('mut %s %s' % (hx(msg), bits_to_spec(bits)))
        meta.append((msg, bits))
        ctx.count('crafted_size_flip_messages')
    if todo[0][6] is not None and meta[0][0].hex() != CRAFTED_LITERAL:
        ctx.disagree('the encoder no longer returns the bytes of c06Crafted for its payload: %s' % meta[0][0].hex(), {'kind': 'valid', 'msg': meta[0][0].hex()})
    hout = run_harness(ctx, exe, hl)
    for (msg, bits), cx in zip(meta, hout):
        judge_flip(ctx, 'crafted', msg, 'single', bits, cx, None, model_lines, model_pend, always_model=True, all_forms=True)
    outs = ctx.driver(model_lines)
    for (replay, want), got in zip(model_pend, outs):
        m = parse_kv(got)
        for k, w in want.items():
            if w is not None and m.get(k) != w:
                ctx.disagree('validator != model on an altered crafted message: %s impl=%s model=%s' % (k, w, m.get(k)), replay)
                break


# ---- driver ------------------------------------------------------------------------------------------------
def run(ctx):
    exe = build_harness(ctx)
    if exe is None:
        return
    objs = payload_objects(ctx)
    ctx.count('payload_classes', len(objs))
    check_crc(ctx, exe)
    encoded = check_encoder(ctx, exe, objs)
    if encoded:
        ctx.sample({'encoded': encoded[0][0], 'bytes': encoded[0][1].hex()})
        check_corruption(ctx, exe, encoded)
        check_crafted(ctx, exe)


def search(ctx):
    ctx.notes.append('stage E: the oracle of stage D is already exhaustive over the generated messages; rerun in the thorough configuration')
    ctx.thorough = True
    try:
        run(ctx)
    except fv.InfraError:
        pass


def check(ctx):
    ctx.cov['rule'] = ('CRC: all 1-byte buffers x 5 initial values and all 65536 2-byte buffers in zlib, C++ and both Lean definitions; random buffers '
                       'of boundary and random lengths up to 65536 with random initial values; every split point of buffers up to 64 bytes. '
                       'Encoder: every registered payload class whose default object packs + raw payloads of lengths 0..4096 (65536 thorough) x 3 start '
                       'sequence numbers (0, random, 2^32-2) x 3 consecutive calls with varying source ids, + sessions with failing calls; '
                       'call histories: for every such payload object one encoder object driven through calls that give / omit / are refused '
                       'a source identifier in turn (0, small, 2^32-1; refused 2^32, -1; a payload whose pack() raises; positional and keyword '
                       'call forms), two encoder objects interleaved (the second constructed after the first was used), and random histories '
                       'over 1-3 encoder objects mixing payload classes; WHICH CLASS FOLLOWS WHICH: every ordered pair of payload classes '
                       '(every registered class whose default object packs, short raw payloads, and a synthetic family of classes derived from '
                       'one another with the parent\'s or their own type / version / payload) as the first two calls of a fresh encoder object '
                       'and once more inside long histories (a walk in which every ordered pair is adjacent once), every class of the pool in '
                       'every position around every two classes related by inheritance (found with issubclass) in both orders, refused calls '
                       'between them, and the pairs split over two encoder objects; after every call the message is compared with the arguments '
                       'of THAT call (type and version of the class of that call\'s payload object = its MESSAGE_TYPE / MESSAGE_VERSION = the '
                       'type it is registered under; source 0 when omitted) and with the Lean encoder model stepped over the same history, and '
                       'each encoder object\'s output stream is read back through FusionEngineDecoder, which must construct an object of exactly '
                       'the class that was encoded. '
                       'Corruption: for every distinct encoded message every single-bit flip of bytes [4, end), double flips (all pairs for messages '
                       '<= 64 bytes, sampled otherwise), bursts <= 32 bits at random positions inside one region; each altered copy given to '
                       'unpack(validate_crc=True), FusionEngineDecoder (alone and followed by a valid message), IsValid, the CRC compare and the C++ framer. '
                       'unpack() call forms: validate_sync / validate_crc / warn_on_unrecognized / return_sync_bytes each omitted, False or True by '
                       'keyword (81) x offset omitted / non-zero positional / non-zero by keyword, + the options given positionally at offset 0 and '
                       'non-zero (291 forms): all of them on every message of the encoder sessions (accepted, documented return value, header fields), '
                       'the 105 that request validate_crc on every altered copy of three short messages (one per length <= 64 thorough) and three of '
                       'them in rotation on every other altered copy (must refuse); the exhaustive Python double flips rotate through the offset-0 forms. '
                       'WHEN the C++ routines are called: the harness is linked in both orders (its objects before / after crc.cc) and the requests - '
                       'all 1- and 2-byte buffers, the random buffers, every split point, the session messages (300 sampled in the quick tier), all '
                       'alterations of 8 messages (22 thorough) and the exhaustive double flips of two - are answered once during static '
                       'initialisation (constructor of a namespace-scope object of cxx/c06_startup.cc) and once more from main() of the same process; '
                       'judged by the same oracle (zlib value / accepted / refused). '
                       'Boundary values: for every such message payload_size_bytes set to every boundary of 24 + size against 2^24, against the '
                       'bytes that exist and against 2^k (k = 7..32, both sides; 24 + size = 2^32 - 2 .. 2^32 + 23 each); for one message per '
                       'distinct length the top k / low k bits (k = 1..32) of each 32-bit header field and every 32-bit window overlapping the '
                       'size field all set / cleared / inverted; the same size values with the altered message at the start of larger heap '
                       'buffers (message + 1 .. + 65537 bytes, 2^17 + 64, 2^24 - 1 .. 2^24 + 4096 bytes). IsValid is called whenever the property '
                       'lets it decide from bytes that exist (always when 24 + size exceeds 2^24); a sanitizer report is attributed to the single '
                       'altered copy that causes it. '
                       'A case is distinct by its canonical bytes; all cases process at least one message or buffer.')
    ctx.assumptions += [
        'zlib.crc32 / crc.cc equal the Lean definitions on every buffer: proved for crc.cc\'s algorithm as transcribed (C06_table_crc_eq_spec), '
        'tested for zlib and for the compiled crc.cc (all 1- and 2-byte buffers, random buffers to 64 KiB, all split points)',
        'reading of "burst of the CRC-protected region or of the CRC field": the altered bits lie inside one of the two regions',
        'an alteration that changes payload_size_bytes changes the extent the validators check; its rejection is tested, not proved '
        '(no CRC can guarantee it)',
        'two flipped bits at any distance: proved (C06_two_bit_rejected / C06_two_bit_cross_rejected, from the minimal period 2^32 - 1 of '
        'the polynomial, C06_polynomial_period) for alterations that leave payload_size_bytes intact; additionally tested exhaustively on '
        'messages <= 64 bytes and sampled on longer ones']
    ctx.prove(MODULES)
    try:
        run(ctx)
    except fv.InfraError:
        if not ctx.proof_failures:
            raise
    return fv.finish(ctx, 'proof', search)


def replay_cxx(ctx, exe, line, phase):
    """The harness's answer to one request: from main() of the usual executable, or in the phase / link order the replay names."""
    if not phase:
        return run_harness(ctx, exe, [line])[0]
    return dict((ph, a) for ph, a in run_startup(ctx, [line]))[tuple(phase)][0]


def replay(ctx, path):
    obj = json.load(open(path))
    r = obj['input']
    exe = build_harness(ctx)
    crc32 = repo_crc32()
    kind = r.get('kind')
    phase = tuple(r['phase']) if r.get('phase') else None
    if phase:
        print('C++ answers: %s; link order: %s' % (dict(WHENS)[phase[1]], dict(ORDERS)[phase[0]]))
    if kind == 'crc':
        buf = bytes.fromhex(r['buf'].replace('-', ''))
        cx = replay_cxx(ctx, exe, 'crc %d %s' % (r['init'], hx(buf)), phase)
        d = ctx.driver(['crctab %d %s' % (r['init'], hx(buf)), 'crcspec ' + hx(buf)])
        judge_crc(ctx, buf, r['init'], crc32(buf, r['init']), cx, d[0], d[1] if r['init'] == 0 else None, phase)
        print('python %d  c++ %s  lean %s' % (crc32(buf, r['init']), cx, d[0]))
    elif kind == 'split':
        buf = bytes.fromhex(r['buf'].replace('-', ''))
        cx = replay_cxx(ctx, exe, 'split ' + hx(buf), phase).split(',')
        print('python %d  c++ %s  whole %d' % (crc32(buf[r['k']:], crc32(buf[:r['k']])), cx[r['k']], crc32(buf)))
        judge_split_cxx(ctx, buf, r['k'], cx[r['k']], crc32(buf), phase)
    elif kind in ('flip', 'pairs') and 'bits' in r:
        msg = bytes.fromhex(r['msg'])
        bits = tuple(r['bits'])
        pad = (r['total'], r.get('fill', 0)) if r.get('total') else None
        tail = bytes([pad[1]]) * (pad[0] - len(msg)) if pad else b''
        if phase:
            cx = replay_cxx(ctx, exe, 'mut %s %s' % (hx(msg), bits_to_spec(bits)), phase)
        else:
            cx = run_mut(ctx, exe, [(msg, [bits_to_spec(bits)], pad)])[0][0]
        lines, pend = [], []
        judge_flip(ctx, r.get('label', '?'), msg, r.get('flip_kind', 'double'), bits, cx, None, lines, pend, tail=tail, fill=pad[1] if pad else 0,
                   all_forms=True, phase=phase)
        bad = apply_bits(msg, bits) + tail
        print('altered %s%s: validate_crc -> %s, decoder -> %s, c++ (IsValid, crc compare, framer callbacks) -> %s'
              % (hx(bad[:len(msg)]), ' + %d bytes 0x%02x' % (len(tail), pad[1]) if pad else '', py_validate(bad),
                 py_decode(bad) if len(bad) <= 8192 else 'not run (long buffer)', cx))
        through = forms_accepting([f for f in crc_forms() if f[1] == 0 or len(bad) <= 8192], bad)
        print('unpack() call forms requesting validate_crc that accept it: %s' % ([t for t, _ in through] or 'none'))
    elif kind == 'valid':
        b = bytes.fromhex(r['msg'])
        cx = replay_cxx(ctx, exe, 'msg ' + hx(b), phase)
        md = ctx.driver(['validate ' + hx(b)])[0]
        judge_valid(ctx, r.get('label', '?'), b, cx, md, phase=phase)
        print('c++: %s\nmodel: %s' % (cx, md))
    elif kind == 'encode':
        from fusion_engine_client.messages import message_type_to_class
        by_name = {c.__name__: c for c in message_type_to_class.values()}
        calls = []
        for c in r['calls']:
            p = None if c['payload'] is None else bytes.fromhex(c['payload'].replace('-', ''))
            name = c.get('class')
            if name in by_name and p is not None:       # the library's own class (its default object), so that inheritance is as in the run
                obj = by_name[name]()
                t, v, p = int(type(obj).get_type()), int(type(obj).get_version()), bytes(obj.pack())
            elif name in synthetic_family():
                _, obj, t, v, p = synthetic_family()[name]
            else:
                obj, t, v = make_raw_class(c['type'], c['version'], p, raises=p is None)(), c['type'], c['version']
            calls.append((c.get('enc', 0), obj, t, v, p, c['source'], c.get('form', 'pos')))
        lines, pend, enc = [], [], []
        run_history(ctx, r.get('label', '?'), calls, r['starts'] if 'starts' in r else [r['start']], lines, pend, enc)
        outs = ctx.driver(lines)
        for (rp, impl), model in zip(pend, outs):
            if isinstance(impl, list):
                for c, a, m in zip([c for c in r['calls'] if c.get('enc', 0) == rp['encoder_object']], impl, model.split('|')):
                    print('encoder object %d, %s payload (type %s version %s), source %s:\n  impl  %s\n  model %s'
                          % (rp['encoder_object'], c.get('class') or 'raw', c['type'], c['version'], c['source'], a[:200], m[:200]))
                if impl != model.split('|'):
                    ctx.disagree('encode_message != model stepped over the call history', rp)
            elif impl != model:
                print('impl  %s\nmodel %s' % (impl[:200], model[:200]))
                ctx.disagree('encode_message != model', rp)
    elif kind == 'class':
        payload_objects(ctx)
    else:
        print('nothing to replay in %s' % path)
    return fv.finish(ctx, 'proof', None)
