"""C07 - the C++ framer dispatches exactly the valid messages, for any chunking and capacity.

Stage B: theorems of lean/FeVerif/Props/C07.lean (literal model of fusion_engine_framer.cc refines the scan).
Stage C: the real FusionEngineFramer (cxx/c07_harness.cc, compiled on every run from $FE_REPO/src with ASan+UBSan)
         against the literal Lean model (`cxxframer`) per OnData / Reset / SetBuffer call: callbacks, return value,
         state_, next_byte_index_, current_message_size_, buffer_ != nullptr, capacity_bytes_.
Stage D: oracle 1 = the scan specification (`cxxscan`, capacity = the framer's own capacity_bytes_) against the C++
         callbacks, per segment: the operations are cut at every Reset() and at every SetBuffer() the specification
         accepts (capacity >= 24 + alignment loss), each segment is scanned from scratch with the capacity in force; oracle 2 = the repository's Python decoder (max_payload = capacity_bytes_ - 24) against the C++
         callbacks; direct statements: header 4-byte aligned, return value = bytes dispatched by that call,
         independence of chunking (callbacks, total return value, final state), no sanitizer report.
         Requests `M ...` keep 2-3 framer objects alive in one process with interleaved operations; each is judged like a
         lone framer and against itself run alone (C07/framer-depends-on-another-instance).
         big_cases(): 16-33 MB streams around MessageHeader::MAX_MESSAGE_SIZE_BYTES handed over as files (op F...), judged
         by py_scan (the scan in Python, validated against `cxxscan` on every ordinary request) and the Python decoder.
"""
import itertools
import json
import os
import shutil
import subprocess
import tempfile
import threading
import zlib

import fv
import gen
from props import decoder_common as dc

MODULES = ['FeVerif.Props.C07']
CAPS = [24, 25, 27, 28, 64, 164, 1024]
MODES = ['0', '1', '2', '3', 'i']
BIG_PY_GIVE_UP_S = 60      # the Python decoder on one 16 MB message: about a second when it accepts it
SRC = ['point_one/fusion_engine/parsers/fusion_engine_framer.cc', 'point_one/fusion_engine/messages/crc.cc',
       'point_one/fusion_engine/common/logging.cc']


# ---- harness ----------------------------------------------------------------------------------------------
def build_harness(ctx):
    exe = os.path.join(fv.BUILD, 'c07_harness')
    src = os.path.join(fv.REPO, 'src')
    cmd = ['clang++', '-std=c++14', '-O1', '-g', '-Wall', '-fsanitize=address,undefined', '-fno-sanitize-recover=all',
           '-I' + src, os.path.join(fv.VERIF, 'cxx', 'c07_harness.cc')] + [os.path.join(src, s) for s in SRC] + ['-o', exe]
    rc, out = fv.sh(cmd, timeout=600)
    if rc != 0:
        # the code under test no longer compiles: that is a failure of the check's subject, not of the machinery
        ctx.proof_failures.append('harness does not compile against %s: %s' % (src, out[-1500:]))
        return None
    warn = [l for l in out.split('\n') if 'warning:' in l and 'fusion_engine_framer' in l]
    if warn:
        ctx.notes.append('compiler warnings in the framer: ' + '; '.join(warn[:5]))
    return exe


def run_harness(exe, lines, nproc=None):
    """Answers (one per request line) and the sanitizer text per faulting request index."""
    if not lines:
        return [], {}
    nproc = nproc or min(12, max(1, len(lines) // 150))
    chunks = [lines[i::nproc] for i in range(nproc)]
    results = [None] * nproc
    errs = [None] * nproc
    env = dict(os.environ, ASAN_OPTIONS='detect_leaks=1:abort_on_error=0:allocator_may_return_null=1',
               UBSAN_OPTIONS='print_stacktrace=1')

    def work(i):
        p = subprocess.run([exe], input='\n'.join(chunks[i]) + '\n', stdout=subprocess.PIPE, stderr=subprocess.PIPE,
                           text=True, env=env)
        results[i] = p.stdout.split('\n')[:-1] if p.stdout.endswith('\n') else p.stdout.split('\n')
        errs[i] = p.stderr
    ths = [threading.Thread(target=work, args=(i,)) for i in range(nproc)]
    for t in ths:
        t.start()
    for t in ths:
        t.join()
    out = [None] * len(lines)
    reports = {}
    for i in range(nproc):
        if len(results[i]) != len(chunks[i]):
            raise fv.InfraError('harness returned %d lines for %d requests' % (len(results[i]), len(chunks[i])))
        out[i::nproc] = results[i]
        # stderr: "@request k" markers followed by whatever the sanitizers printed
        cur = None
        buf = {}
        for l in errs[i].split('\n'):
            if l.startswith('@request '):
                cur = int(l.split()[1])
            elif cur is not None and l.strip():
                buf.setdefault(cur, []).append(l)
        for k, ls in buf.items():
            reports[i + k * nproc] = '\n'.join(ls[:14])
    return out, reports


# ---- cases ------------------------------------------------------------------------------------------------
def streams(ctx, budget):
    rng = ctx.rng
    out = []
    k = 3 if ctx.thorough else 2
    for kinds in itertools.product(gen.TOKENS, repeat=k):
        seqs = {'n': 0}
        out.append((b''.join(gen.token(rng, t, seqs) for t in kinds), ''.join(kinds)))
    for _ in range(budget):
        out.append(gen.stream(rng, rng.choice([1, 2, 3, 5, 8, 12])))
    # resync-heavy: nested false syncs and duplicated sync bytes in front of / inside candidates
    for _ in range(budget // 3):
        out.append(gen.stream(rng, rng.choice([3, 5, 8]), 'DDSFFHRCZVJ'))
    for n in (0, 1, 23, 24, 25, 100):
        out.append((bytes(rng.randrange(256) for _ in range(n)), 'rand%d' % n))
    out.append((b'\x2e\x31' * 40, 'allsync'))
    out.append((b'\x2e' * 50, 'allsync0'))
    z = gen.frame(9, b'')
    for j in range(1, 6):   # runs of duplicated sync bytes inside a rejected window, then a real message
        out.append((b'\x2e\x31\x00\x00' + bytes(4) + b'\x02\x00\x10\x27' + bytes(4) + b'\x05\x00\x00\x00' + bytes(4)
                    + b'\x2e' * j + z + z, 'dup%d' % j))
        out.append((b'\x2e\x31' + b'\x2e' * j + z[:20], 'dupshort%d' % j))
    # a rejected candidate whose bytes contain a long run of SYNC0 followed by SYNC1, then more data:
    # Resync() replays the run from inside the buffer
    for j in (1, 2, 3, 20, 21, 22, 23, 24, 25, 30, 37):
        for tail in (0, 3, 60):
            bad = gen.frame(9, b'\x2e' * j + b'\x31' + bytes(rng.randrange(256) for _ in range(8)), crc=rng.getrandbits(32))
            out.append((bad + bytes(tail) + z + gen.frame(9, b'abc', seq=7), 'duprun%d' % j))
    # a false preamble whose (impossible) size field completes inside the following real message: the rejected
    # header's bytes hold the start of a message the scan accepts
    for k in (20, 21, 22, 23, 24):
        for L in (40, 200, 5000, 0x7FFFFFFF, 0xFFFFFFE7, 0xFFFFFFE8, 0xFFFFFFF0, 0xFFFFFFFF):
            bogus = (b'\x2e\x31\x00\x00' + bytes(rng.randrange(256) for _ in range(12)) + L.to_bytes(4, 'little') + bytes(4))[:k]
            out.append((gen.frame(9, b'q', seq=1) + bogus + gen.frame(9, b'0123456789abcdef', seq=2) + z, 'straddle%d' % k))
    return out


def with_resets(rng, chunks):
    ops = []
    for c in chunks:
        if rng.random() < 0.25:
            ops.append(None)
        ops.append(c)
    if rng.random() < 0.3:
        ops.append(None)
    return ops


# An operation is: bytes = OnData(bytes); None = Reset(); a string 'Bu<k>:<c>' / 'Bi:<c>' = SetBuffer() with a caller
# buffer at an address = k mod 4 / with nullptr, capacity c (see cxx/c07_harness.cc).
BKINDS = ['i', 'u0', 'u1', 'u2', 'u3']


def bslack(kind):
    return 0 if kind == 'i' else (4 - int(kind[1])) % 4


def bop(kind, c):
    return 'B%s:%d' % (kind, max(0, c))


def bparse(op):
    kind, c = op[1:].split(':')
    return kind, int(c)


def baccepted(op):
    """The specification's verdict on a SetBuffer call: the capacity holds a header behind the alignment loss."""
    kind, c = bparse(op)
    return c >= 24 + bslack(kind)


def with_buffers(rng, chunks):
    """SetBuffer() (and a few Reset()) at random points of a division; the new capacity is taken around the number of
    bytes received since the last cut (an upper bound of what is pending), around the header size, and from CAPS."""
    ops = []
    since = 0
    n = 0
    for c in chunks + [b'']:
        r = rng.random()
        if r < 0.3 or (n == 0 and c == b'' and r < 0.9):
            kind = rng.choice(BKINDS)
            sl = bslack(kind)
            cap = rng.choice([since - 1, since, since + 1, since + sl, since // 2, 24 + sl, 23 + sl, 25 + sl, 28, 64, 164, 1024,
                              rng.randrange(0, 40), rng.randrange(24, 24 + max(1, since))])
            ops.append(bop(kind, cap))
            n += 1
            if baccepted(ops[-1]):
                since = 0
        elif r < 0.36:
            ops.append(None)
            since = 0
        if c:
            ops.append(c)
            since += len(c)
    return ops


def ops_text(ops):
    return ','.join('R' if o is None else o if isinstance(o, str) else (o.hex() or '-') for o in ops) or '='


def op_replay(o):
    return 'R' if o is None else o if isinstance(o, str) else o.hex()


def op_from_replay(o):
    return None if o == 'R' else o if o.startswith('B') else bytes.fromhex(o)


def requests_for(ctx, data, kinds):
    """(capacity, mode, ops) triples for one stream."""
    rng = ctx.rng
    res = []
    caps = CAPS + [len(data) + rng.choice([24, 100, 4000])]
    if len(data) > 600:
        caps = rng.sample(CAPS, 3) + [caps[-1]]
    chs = gen.chunkings(rng, data, ctx.thorough)
    for cap in caps:
        mode = rng.choice(MODES)
        picks = [chs[0], chs[1], rng.choice(chs[2:])] if cap not in (64, caps[-1]) else chs
        for chunks in picks:
            res.append((cap, mode, list(chunks), 'chunking'))
        if rng.random() < 0.5:
            res.append((cap, mode, with_resets(rng, rng.choice(chs[1:])), 'reset'))
        res.append((cap, mode, with_buffers(rng, list(rng.choice(chs[1:]))), 'setbuffer'))
        # another base alignment on the same input
        res.append((cap, rng.choice(MODES), list(chs[0]), 'chunking'))
    if len(data) <= (96 if ctx.thorough else 60):
        for cap in ([24, 28, 64, 1024] if ctx.thorough else [rng.choice([24, 27, 28]), 64]):
            mode = rng.choice(MODES)
            for i in range(len(data) + 1):
                res.append((cap, mode, [data[:i], data[i:]], 'split'))
    return res


# ---- judging ----------------------------------------------------------------------------------------------
def parse_answer(ans):
    """-> (hasbuf, cap, [record...]) with record = ('R', state), ('B', hasbuf, cap, state) or
    ('D', [(align, bytes)], ret, state)."""
    recs = ans.split(';')
    head = recs[0].split('|')
    if head[0] != 'init':
        raise ValueError(ans[:80])
    out = []
    for r in recs[1:]:
        p = r.split('|')
        if p[0] == 'R':
            out.append(('R', tuple(p[1:4])))
        elif p[0] == 'B':
            out.append(('B', int(p[1]), int(p[2]), tuple(p[3:6])))
        else:
            cbs = [] if p[0] == '-' else [(int(c.split(':')[0]), bytes.fromhex(c.split(':')[1])) for c in p[0].split(',')]
            out.append(('D', cbs, int(p[1]), tuple(p[2:5])))
    return int(head[1]), int(head[2]), out


def strip_model(ans):
    """The model's OnData records end with |<hi <= cap>; returns (answer without it, all flags are 1)."""
    recs = ans.split(';')
    ok = True
    out = [recs[0]]
    for r in recs[1:]:
        if r.startswith('R|') or r.startswith('B|'):
            out.append(r)
        else:
            body, flag = r.rsplit('|', 1)
            ok = ok and flag == '1'
            out.append(body)
    return ';'.join(out), ok


def segments(ops, hasbuf, cap, recs):
    """Cuts the operations where the specification says the framer forgets its history: Reset() and every SetBuffer()
    whose capacity holds a header behind the alignment loss (a refused SetBuffer cuts nothing).  The capacity in force
    after a SetBuffer is the framer's own capacity_bytes_ (from its record), as for the constructor.
    -> [{'hasbuf', 'cap', 'data', 'cbs'}]; cbs is filled by judge()."""
    segs = [{'hasbuf': hasbuf, 'cap': cap, 'data': b'', 'cbs': []}]
    for o, r in zip(ops, recs):
        if o is None:
            segs.append({'hasbuf': segs[-1]['hasbuf'], 'cap': segs[-1]['cap'], 'data': b'', 'cbs': []})
        elif isinstance(o, str):
            if baccepted(o) and r[0] == 'B':
                segs.append({'hasbuf': r[1], 'cap': r[2], 'data': b'', 'cbs': []})
        else:
            segs[-1]['data'] += o
    return segs


class Job:
    def __init__(self, data, kinds, cap, mode, ops, kind):
        self.data, self.kinds, self.cap, self.mode, self.ops, self.kind = data, kinds, cap, mode, ops, kind
        self.line = '%d %s %s' % (cap, mode, ops_text(ops))
        self.multi = None      # (jobs of all framers alive at the same time, schedule, index of this one)

    def replay(self):
        r = {'stream': self.data.hex(), 'tokens': self.kinds, 'capacity': self.cap, 'mode': self.mode,
             'ops': [op_replay(o) for o in self.ops],
             'harness_request': self.line if len(self.line) < 4000 else self.line[:4000] + '...'}
        if self.multi:
            jobs, sched, k = self.multi
            r['multi'] = {'unit': k, 'sched': sched,
                          'parts': [{'stream': j.data.hex(), 'tokens': j.kinds, 'capacity': j.cap, 'mode': j.mode,
                                     'ops': [op_replay(o) for o in j.ops]} for j in jobs]}
        return r


def multi_line(jobs, sched):
    return 'M %d %s %s' % (len(jobs), sched or '-', ' '.join(j.line for j in jobs))


def interleave(rng, counts):
    """Random schedule: digit i = the next operation of framer i; runs of 1-3 operations."""
    left = list(counts)
    out = []
    while any(left):
        i = rng.choice([k for k, c in enumerate(left) if c])
        r = min(left[i], rng.choice([1, 1, 1, 2, 3]))
        out.append(str(i) * r)
        left[i] -= r
    return ''.join(out)


def py_scan(cap, data):
    """The specification scan (Cfg.run (cfgCxx cap)) in Python: [(offset, length)] of the accepted messages.  Compared
    with the Lean `cxxscan` on every ordinary scan request of a run; used alone for streams too large for the driver."""
    out = []
    i, n = 0, len(data)
    while True:
        i = data.find(b'\x2e\x31', i)
        if i < 0 or n - i < 24:
            return out
        size = 24 + int.from_bytes(data[i + 16:i + 20], 'little')
        if size >= 1 << 32 or data[i + 2:i + 4] != b'\x00\x00' or size > cap:
            i += 1
            continue
        if n - i < size:
            return out
        if zlib.crc32(data[i + 8:i + size]) == int.from_bytes(data[i + 4:i + 8], 'little'):
            out.append((i, size))
            i += size
        else:
            i += 1


def fault_signature(job):
    slack = 0 if job.mode == 'i' else (4 - int(job.mode)) % 4
    if job.mode != 'i' and job.cap >= 24 and job.cap - slack < 24 and not any(isinstance(o, str) for o in job.ops):
        return 'C07/sanitizer-report/user-buffer-smaller-than-header-after-alignment'
    return 'C07/sanitizer-report'


def judge(ctx, job, impl, model, report, scans, pydec):
    rp = job.replay()
    if impl == 'skipped':
        ctx.count('skipped_after_timeouts')
        return None
    if impl == 'timeout':
        ctx.violation('C07/does-not-terminate', 'OnData did not return within 10 s (capacity %d, mode %s)' % (job.cap, job.mode), rp)
        ctx.disagree('implementation did not terminate, model answered %s' % model[:120], rp)
        return None
    if impl == 'fault':
        rp['sanitizer'] = report
        first = next((l for l in (report or '').split('\n') if 'ERROR' in l or 'runtime error' in l), '')[:200]
        ctx.violation(fault_signature(job), 'the framer faulted under ASan/UBSan (capacity %d, mode %s): %s'
                      % (job.cap, job.mode, first), rp)
        ctx.disagree('implementation faulted, model answered %s' % model[:120], rp)
        return None
    if report and ('ERROR' in report or 'runtime error' in report):
        rp['sanitizer'] = report
        ctx.violation('C07/sanitizer-report', 'sanitizer output without a crash: %s' % report.split('\n')[0][:200], rp)
    if '!cbmismatch' in impl:
        ctx.violation('C07/callback-kinds-differ', 'std::function and raw callbacks were not invoked equally often', rp)
        return None
    mstripped, safe = strip_model(model)
    if not safe:
        ctx.disagree('model reports a buffer index >= capacity', rp)
    if impl != mstripped:
        ctx.disagree('framer != model: impl=%s model=%s' % (impl[:300], mstripped[:300]), rp)
    try:
        hasbuf, cap_eff, recs = parse_answer(impl)
    except Exception as e:
        ctx.disagree('unparseable harness answer %r (%s)' % (impl[:100], e), rp)
        return None
    if len(recs) != len(job.ops) or any((o is None) != (r[0] == 'R') or isinstance(o, str) != (r[0] == 'B')
                                       for o, r in zip(job.ops, recs)):
        ctx.disagree('harness answer does not match the operations: %s' % impl[:200], rp)
        return None
    # direct statements on the implementation
    segs = segments(job.ops, hasbuf, cap_eff, recs)
    si = 0
    allcbs = []
    total = 0
    for o, r in zip(job.ops, recs):
        if r[0] == 'R':
            si += 1
            if r[1] != ('0', '0', '0'):
                ctx.violation('C07/reset-state', 'Reset() left state %s' % (r[1],), rp)
            continue
        if r[0] == 'B':
            if baccepted(o):
                si += 1
                if r[3] != ('0', '0', '0'):
                    # what was pending in the old buffer must not be applied to the new one
                    ctx.violation('C07/setbuffer-state', 'SetBuffer() (%s, accepted: capacity_bytes_=%d) left state_/'
                                  'next_byte_index_/current_message_size_ = %s instead of the reset state'
                                  % (o, r[2], '/'.join(r[3])), rp)
            continue
        _, cbs, ret, st = r
        for a, m in cbs:
            if a != 0:
                ctx.violation('C07/header-misaligned', 'callback header at address = %d mod 4' % a, rp)
                return None
        if ret != sum(len(m) for _, m in cbs):
            ctx.violation('C07/return-value', 'OnData returned %d, dispatched %d bytes in %d messages'
                          % (ret, sum(len(m) for _, m in cbs), len(cbs)), rp)
            return None
        total += ret
        allcbs += [m for _, m in cbs]
        segs[si]['cbs'] += [m for _, m in cbs]
    # oracle 1: the scan with the framer's own capacity, segment by segment
    for k, sg in enumerate(segs):
        seg, got = sg['data'], sg['cbs']
        if not sg['hasbuf']:
            exp = []
        else:
            msgs = scans[(sg['cap'], seg)].split('|')[0]
            exp = [seg[int(o):int(o) + int(n)] for o, n in (x.split(':') for x in msgs.split(','))] if msgs else []
        if got != exp:
            d = next((i for i, (a, b) in enumerate(zip(got, exp)) if a != b), min(len(got), len(exp)))
            where = '' if len(segs) == 1 else ' in segment %d of %d (cut at Reset() / accepted SetBuffer())' % (k + 1, len(segs))
            ctx.violation('C07/callbacks-differ-from-scan',
                          'capacity_bytes_=%d: framer dispatched %d messages %s, the scan accepts %d %s (first difference at #%d)%s'
                          % (sg['cap'], len(got), [len(m) for m in got][:12], len(exp), [len(m) for m in exp][:12], d, where), rp)
            return None
    # oracle 2: the Python decoder with the equivalent limit
    if pydec is not None and hasbuf:
        if pydec != allcbs:
            ctx.violation('C07/differs-from-python-decoder',
                          'capacity_bytes_=%d: framer dispatched %s, FusionEngineDecoder(max_payload=%d) returned %s'
                          % (cap_eff, [len(m) for m in allcbs][:12], cap_eff - 24, [len(m) for m in pydec][:12]), rp)
    final = next((r[3] for r in reversed(recs) if r[0] == 'D'), ('0', '0', '0'))
    return {'hasbuf': hasbuf, 'cap': cap_eff, 'cbs': allcbs, 'total': total, 'final': final}


class _DecoderTooSlow(Exception):
    pass


def python_decoder(data, max_payload, give_up_after=None):
    """The messages FusionEngineDecoder(max_payload_len_bytes=max_payload) returns for data (None: it raised).  With
    give_up_after (seconds): 'timeout' when it has not returned by then - a decoder that refuses a multi-megabyte candidate
    re-scans it byte by byte and needs hours; the caller then repeats the question at a small scale."""
    import signal

    def alarm(signum, frame):
        raise _DecoderTooSlow()
    old = None
    if give_up_after:
        old = signal.signal(signal.SIGALRM, alarm)
        signal.setitimer(signal.ITIMER_REAL, give_up_after)
    try:
        calls, flat, err, _ = dc.run_decoder([data], max_payload)
    except _DecoderTooSlow:
        return 'timeout'
    finally:
        if give_up_after:
            signal.setitimer(signal.ITIMER_REAL, 0)
            signal.signal(signal.SIGALRM, old)
    if err is not None:
        if '_DecoderTooSlow' in str(err):
            return 'timeout'
        return None
    return [d['raw'] for d in flat]


def cap_eff_of(cap, mode):
    """capacity_bytes_ the fixed code should end up with (used only to pre-compute scan requests)."""
    if mode == 'i':
        return cap + 3
    slack = (4 - int(mode)) % 4
    return cap - slack if cap >= 24 + slack else None


def run_jobs(ctx, exe, jobs, py_fraction=1.0, multis=()):
    """multis: [(jobs, schedule)] - framer objects alive in one process at the same time, operations interleaved.  Every
    framer of such a group is judged like a lone one (model, scan, direct statements) and must answer what it answers
    when run alone."""
    jobs = list(jobs)
    for mj, sched in multis:
        jobs += mj        # each framer also alone in its own request
    lines = [j.line for j in jobs] + [multi_line(mj, sched) for mj, sched in multis]
    impl, reports = run_harness(exe, lines)
    alone = dict(zip(lines[:len(jobs)], impl))
    n_alone = len(jobs)
    mrep = {t: reports.pop(n_alone + t) for t in range(len(multis)) if n_alone + t in reports}
    for t, (mj, sched) in enumerate(multis):
        ans = impl[n_alone + t]
        texts = ans.split('\t')
        if len(texts) != len(mj):
            texts = [ans] + ['skipped'] * (len(mj) - 1)     # fault / timeout: filed once
        for k, (j, a) in enumerate(zip(mj, texts)):
            u = Job(j.data, j.kinds, j.cap, j.mode, j.ops, 'second_framer')
            u.multi = (mj, sched, k)
            if k == 0 and t in mrep:
                reports[len(jobs)] = mrep[t]
            jobs.append(u)
            impl.append(a)
            solo = alone.get(u.line)
            if solo is not None and solo.startswith('init|') and a.startswith('init|') and solo != a:
                ctx.violation('C07/framer-depends-on-another-instance',
                              'framer %d of %d alive at the same time (`%d %s`, operations interleaved %s) answers %s, alone in the '
                              'process it answers %s' % (k, len(mj), u.cap, u.mode, sched[:40], a[:200], solo[:200]), u.replay())
    del impl[n_alone:n_alone + len(multis)]
    lines = [j.line for j in jobs]
    model = ctx.driver(['cxxframer ' + l for l in lines])
    # scan requests, deduplicated
    need = {}
    for j, a in zip(jobs, impl):
        if not a.startswith('init|'):
            continue
        try:
            hb, ce, recs = parse_answer(a)
        except Exception:
            continue
        for sg in segments(j.ops, hb, ce, recs):
            if sg['hasbuf']:
                need[(sg['cap'], sg['data'])] = None
    keys = list(need)
    outs = ctx.driver(['cxxscan %d %s' % (c, s.hex() or '-') for c, s in keys])
    scans = dict(zip(keys, outs))
    for (c, sdata), o in scans.items():     # the Python rendering of the scan agrees with the Lean specification
        msgs = o.split('|')[0]
        if [tuple(int(x) for x in m.split(':')) for m in msgs.split(',') if m] != py_scan(c, sdata):
            raise fv.InfraError('py_scan differs from cxxscan for capacity %d stream %s' % (c, sdata.hex()[:400]))
        ctx.count('py_scan_checked_against_lean')
    pycache = {}
    groups = {}
    for idx, (j, a, m) in enumerate(zip(jobs, impl, model)):
        py = None
        noreset = all(isinstance(o, bytes) for o in j.ops)
        if noreset and a.startswith('init|1|'):
            ce = int(a.split(';')[0].split('|')[2])
            key = (ce, j.data)
            if key not in pycache and (len(pycache) < 40 or ctx.rng.random() < py_fraction):
                pycache[key] = python_decoder(j.data, ce - 24)
                ctx.count('python_decoder_runs')
            py = pycache.get(key)
        res = judge(ctx, j, a, m, reports.get(idx), scans, py)
        ctx.cov['traces_validated_against_impl'] += 1
        ctx.count('kind_' + j.kind)
        ctx.count('mode_' + j.mode)
        nontrivial = bool(res and res['cbs']) or len(j.data) >= 24
        ctx.case(j.line, nontrivial=nontrivial)
        if res and noreset:
            groups.setdefault((res['cap'], j.data), []).append((j, res))
            ctx.count('messages_dispatched', len(res['cbs']))
        if res and res['cbs'] and len(j.line) < 400:
            ctx.sample({'request': j.line, 'impl_and_model': a})
    # chunking independence on the implementation (same capacity_bytes_, same stream, no Reset)
    for (ce, data), lst in groups.items():
        j0, r0 = lst[0]
        for j, r in lst[1:]:
            if (r['cbs'], r['total'], r['final']) != (r0['cbs'], r0['total'], r0['final']):
                rp = j.replay()
                rp['other_request'] = j0.line[:4000]
                ctx.violation('C07/chunking-dependent', 'capacity_bytes_=%d: callbacks / total return value / final state '
                              'differ between two divisions of the same stream: %s %s vs %s %s'
                              % (ce, r['total'], r['final'], r0['total'], r0['final']), rp)
                break


def construction_jobs():
    """Every capacity around the header size x every base alignment (and internal), with one 24-byte message."""
    z = gen.frame(9, b'', seq=3)
    return [Job(z, 'Z', cap, mode, [z], 'construct') for cap in list(range(0, 41)) + [164] for mode in MODES]


def setbuffer_sweep_jobs(ctx):
    """SetBuffer() at every point of a message.  Stream = one valid message M followed by three valid messages; the
    first `cut` bytes of M are fed (cut = 0: nothing pending; 1..23: inside the header; 24..len-1: inside the payload;
    len: right after the dispatch), then the buffer is replaced, then the rest is fed (in one call / bytewise / in
    7-byte blocks).  x first buffer: caller-supplied at every alignment, internally allocated, none (constructor refused)
    x new buffer: caller-supplied at every alignment, internally allocated x new capacity: refused (one byte short of a
    header behind the alignment loss), the smallest accepted, one below / equal to / one above the number of bytes
    pending, the old capacity, larger."""
    rng = ctx.rng
    jobs = []
    z = gen.frame(9, b'', seq=11)
    tail = z + gen.frame(9, bytes(rng.randrange(256) for _ in range(16)), seq=12) + gen.frame(9, b'\x2e\x31' * 30, seq=13)
    payloads = [0, 40, 300] if not ctx.thorough else [0, 1, 40, 104, 300, 1000]
    for n in payloads:
        msg = gen.frame(9, bytes(rng.randrange(256) for _ in range(n)), seq=10)
        data = msg + tail
        L = len(msg)
        if L <= 64 or (ctx.thorough and L <= 128):
            cuts = list(range(L + 1))
        else:
            cuts = sorted(set([0, 1, 2, 23, 24, 25, 63, 64, 65, L - 1, L] + [rng.randrange(26, L) for _ in range(14 if not ctx.thorough else 40)]))
        for cut in cuts:
            firsts = [(max(1024, n + 200), rng.choice("0123")), (max(1024, n + 200), "i")]
            if cut % 8 == 0:
                firsts.append((rng.randrange(0, 24), rng.choice(MODES)))     # no buffer until SetBuffer() supplies one
            for cap0, mode in firsts:
                for kind in (rng.choice(BKINDS[1:]), 'i') if not ctx.thorough else BKINDS:
                    sl = bslack(kind)
                    caps = {23 + sl, 24 + sl, cut - 1 + sl, cut + sl, cut + 1 + sl, cut, cap0, len(data) + 100}
                    for c in sorted(x for x in caps if x >= 0):
                        rest = data[cut:]
                        how = rng.randrange(3)
                        after = [rest] if how == 0 else [rest[i:i + 1] for i in range(len(rest))] if how == 1 else \
                            [rest[i:i + 7] for i in range(0, len(rest), 7)]
                        ops = ([data[:cut]] if cut else []) + [bop(kind, c)] + after
                        jobs.append(Job(data, 'setbuffer-sweep', cap0, mode, ops, 'setbuffer_sweep'))
    # two replacements in a row, and a replacement of the replacement in the middle of the next message
    for _ in range(40 if not ctx.thorough else 200):
        msg = gen.frame(9, bytes(rng.randrange(256) for _ in range(rng.choice([0, 8, 40, 100]))), seq=20)
        data = msg + msg + tail
        c1, c2 = sorted(rng.sample(range(len(data) + 1), 2))
        k1, k2, k3 = (rng.choice(BKINDS) for _ in range(3))
        ops = [data[:c1], bop(k1, rng.choice([24, 27, 28, c1, c1 + 3, 64, 200])), bop(k2, rng.choice([24, 27, c1, 64, 200])),
               data[c1:c2], bop(k3, rng.choice([24 + bslack(k3), c2 - c1, c2 - c1 + bslack(k3), 64, 200])), data[c2:]]
        jobs.append(Job(data, 'setbuffer-twice', rng.choice([64, 164, 1024]), rng.choice(MODES), [o for o in ops if o != b''],
                        'setbuffer_sweep'))
    return jobs


def fine_chunks(rng, data):
    how = rng.randrange(4)
    if how == 0:
        return [data[i:i + 1] for i in range(len(data))]
    if how == 1:
        k = rng.choice([2, 3, 5, 7, 11, 24])
        return [data[i:i + k] for i in range(0, len(data), k)]
    parts, i = [], 0
    while i < len(data):
        k = rng.choice([1, 2, 3, 5, 8, 13, 23, 24, 25, 60])
        parts.append(data[i:i + k])
        i += k
    return parts


def multi_groups(ctx, pool):
    """2-3 framer objects alive at the same time: different streams (taken from the streams of this run), capacities and
    buffer kinds; fine divisions, operations interleaved (strict alternation / random runs); some with Reset() and
    SetBuffer() in between."""
    rng = ctx.rng
    groups = []
    pool = [d for d in pool if 24 <= len(d[0]) <= 600] or pool
    for it in range(120 if not ctx.thorough else 500):
        n = rng.choice([2, 2, 2, 3])
        mj = []
        for _ in range(n):
            data, kinds = rng.choice(pool)
            cap = rng.choice(CAPS + [len(data) + 24])
            ch = fine_chunks(rng, data)
            r = rng.random()
            ops = with_resets(rng, ch) if r < 0.15 else with_buffers(rng, ch) if r < 0.3 else ch
            mj.append(Job(data, kinds, cap, rng.choice(MODES), ops, 'second_framer_alone'))
        counts = [len(j.ops) for j in mj]
        sched = ''.join(''.join(str(i) for i in range(n)) for _ in range(max(counts))) if it % 3 == 0 else interleave(rng, counts)
        groups.append((mj, sched))
    return groups


BIG = 1 << 24      # MessageHeader::MAX_MESSAGE_SIZE_BYTES, the size limit the library documents


def big_cases(ctx, exe):
    """A handful of streams with one very large message around the documented 2^24-byte limit (message size 2^24-1, 2^24,
    2^24+1; payload 2^24-16, 2^24-15, 2^24, 2^24+1; one well above), between two small messages, with a buffer that holds
    it (and once a buffer one byte too small), in one OnData() call and in multi-megabyte pieces.  The streams are handed
    to the harness as files; the Lean driver is not involved (hex lines of 32 MB): the callbacks are judged by py_scan
    (checked against the Lean scan on every ordinary request of this run) and by the Python decoder."""
    rng = ctx.rng
    payloads = [BIG - 25, BIG - 24, BIG - 23, BIG - 16, BIG - 15, BIG, BIG + 1, 20000003]
    if not ctx.thorough:
        payloads = [rng.choice(payloads[:3]), BIG - 16, BIG - 15, rng.choice(payloads[5:])]
    tmp = tempfile.mkdtemp(prefix='c07big')
    try:
        cases = []
        for n in payloads:
            seed = rng.getrandbits(32)
            data = big_stream(seed, n)
            path = os.path.join(tmp, 'p%d.bin' % n)
            with open(path, 'wb') as f:
                f.write(data)
            size = 24 + n
            forms = [('whole', [len(data)])]
            k = rng.choice([5000003, 8388608, 4194301])
            forms.append(('pieces', [min(k, len(data) - o) for o in range(0, len(data), k)]))
            if not ctx.thorough:
                forms = [forms[len(cases) % 2]]
            for fi, (name, lens) in enumerate(forms):
                mode = rng.choice(MODES)
                slack = 0 if mode == 'i' else (4 - int(mode)) % 4
                cap = size + slack + rng.choice([0, 0, 1, 4096, 1 << 20]) - (3 if mode == 'i' else 0) * rng.choice([0, 1])
                cases.append({'payload': n, 'seed': seed, 'capacity': cap, 'mode': mode, 'pieces': lens, 'path': path, 'data': data})
            if ctx.thorough or n == BIG - 15:
                # the buffer is one byte too small: the message is not framed, the small ones around it are
                cases.append({'payload': n, 'seed': seed, 'capacity': size - 1, 'mode': '0', 'pieces': [len(data)], 'path': path, 'data': data})
        lines = []
        for c in cases:
            ops, off = [], 0
            for l in c['pieces']:
                ops.append('F%s:%d:%d' % (c['path'], off, l))
                off += l
            lines.append('%d %s %s' % (c['capacity'], c['mode'], ','.join(ops)))
        impl, reports = run_harness(exe, lines, nproc=min(4, len(lines)))
        pycache = {}
        for idx, (c, a) in enumerate(zip(cases, impl)):
            judge_big(ctx, c, a, reports.get(idx), pycache)
    finally:
        shutil.rmtree(tmp, ignore_errors=True)


def big_stream(seed, n):
    import random
    r = random.Random(seed)
    pay = r.randbytes(n).replace(b'\x2e', b'\x2f')    # no sync byte inside: a rejected 16 MB candidate is rescanned once
    return b'\x00\x2e' + gen.frame(9, b'q', seq=1) + gen.frame(10, pay, seq=2) + gen.frame(9, b'abc', seq=3) + b'\x2e\x31\x00'


def judge_big(ctx, c, ans, report, pycache):
    data = c['data']
    rp = {'big': {k: c[k] for k in ('payload', 'seed', 'capacity', 'mode', 'pieces')},
          'stream': 'big_stream(seed, payload) of tools/props/c07.py: junk, a 25-byte message, a message with `payload` bytes, a 27-byte message, junk'}
    ctx.count('kind_big_message')
    ctx.case('big %d %s %d %s' % (c['capacity'], c['mode'], c['payload'], c['pieces']), nontrivial=True)
    if ans in ('fault', 'timeout', 'skipped') or not ans.startswith('init|'):
        if report:
            rp['sanitizer'] = report
        ctx.violation('C07/sanitizer-report' if ans == 'fault' else 'C07/does-not-terminate' if ans == 'timeout' else 'C07/big-message-harness',
                      'capacity %d mode %s, message of %d bytes: harness answered %s %s' % (c['capacity'], c['mode'], 24 + c['payload'], ans[:80], (report or '')[:300]), rp)
        return
    recs = ans.split(';')
    hasbuf, cap_eff = int(recs[0].split('|')[1]), int(recs[0].split('|')[2])
    slack = 0 if c['mode'] == 'i' else (4 - int(c['mode'])) % 4
    if not hasbuf or not (cap_eff == c['capacity'] - slack if c['mode'] != 'i' else c['capacity'] <= cap_eff <= c['capacity'] + 3):
        ctx.violation('C07/capacity-after-construction', 'capacity %d mode %s: buffer=%d capacity_bytes_=%d' % (c['capacity'], c['mode'], hasbuf, cap_eff), rp)
        return
    got = []      # (header bytes, payload length, adler32, crc32)
    total = 0
    for r in recs[1:]:
        f = r.split('|')
        ret = int(f[1])
        calls = [] if f[0] == '-' else f[0].split(',')
        here = 0
        for cb in calls:
            a, _, body = cb.partition(':')
            if a != '0':
                ctx.violation('C07/header-misaligned', 'callback header at address = %s mod 4' % a, rp)
                return
            if '#' in body:
                h, _, d = body.partition('#')
                ln, ad, cr = (int(x) for x in d.split('.'))
                got.append((bytes.fromhex(h), ln, ad, cr))
            else:
                m = bytes.fromhex(body)
                got.append((m[:24], len(m) - 24, zlib.adler32(m[24:]), zlib.crc32(m[24:])))
            here += 24 + got[-1][1]
        if ret != here:
            ctx.violation('C07/return-value', 'OnData returned %d, dispatched %d bytes in %d messages' % (ret, here, len(calls)), rp)
            return
        total += ret
    want = py_scan(cap_eff, data)
    exp = [(data[o:o + 24], n - 24, zlib.adler32(data[o + 24:o + n]), zlib.crc32(data[o + 24:o + n])) for o, n in want]
    if got != exp:
        ctx.violation('C07/callbacks-differ-from-scan',
                      'capacity_bytes_=%d: framer dispatched %d messages %s, the scan accepts %d %s (stream of %d bytes with one message of '
                      '%d bytes, handed over in %d OnData call(s))' % (cap_eff, len(got), [24 + g[1] for g in got], len(exp), [n for _, n in want],
                                                                     len(data), 24 + c['payload'], len(c['pieces'])), rp)
        return
    ctx.count('messages_dispatched', len(got))
    # the Python decoder with the equivalent limit.  Its header type refuses payloads above 2^24 whatever the limit (by
    # design, see the assumptions), and it needs minutes to skip a rejected 16 MB candidate: compared when the large
    # message is within both limits
    if c['payload'] <= BIG and 24 + c['payload'] <= cap_eff:
        key = (cap_eff, c['payload'], c['seed'])
        if key not in pycache:
            pycache[key] = python_decoder(data, cap_eff - 24, give_up_after=BIG_PY_GIVE_UP_S)
            ctx.count('python_decoder_runs')
        py = pycache[key]
        if py == 'timeout':
            # the decoder has not answered a question the model answers after one CRC pass (normally about a second): the same
            # stream shape with a 1000-byte message and the limit in the same relation to it, which any decoder answers at once
            ctx.count('python_decoder_gave_up_on_a_big_message')
            n2 = 1000
            cap2 = cap_eff - c['payload'] + n2
            data2 = big_stream(c['seed'], n2)
            py2 = python_decoder(data2, cap2 - 24, give_up_after=BIG_PY_GIVE_UP_S)
            want2 = [data2[o:o + n] for o, n in py_scan(cap2, data2)]
            if isinstance(py2, list) and py2 != want2:
                ctx.violation('C07/differs-from-python-decoder',
                              'capacity_bytes_=%d: the framer (= the scan) dispatches %s, FusionEngineDecoder(max_payload=%d) returned %s '
                              '(small-scale twin of the big-message case payload=%d capacity_bytes_=%d, on which the Python decoder did '
                              'not answer within %d s)' % (cap2, [len(m) for m in want2], cap2 - 24, [len(m) for m in py2],
                                                           c['payload'], cap_eff, BIG_PY_GIVE_UP_S),
                              {'stream': data2.hex(), 'capacity': cap2, 'mode': '0', 'ops': [op_replay(data2)],
                               'twin_of': rp['big']})
            return
        if py is not None and [(m[:24], len(m) - 24, zlib.crc32(m[24:])) for m in py] != [(g[0], g[1], g[3]) for g in got]:
            ctx.violation('C07/differs-from-python-decoder',
                          'capacity_bytes_=%d: framer dispatched %s, FusionEngineDecoder(max_payload=%d) returned %s'
                          % (cap_eff, [24 + g[1] for g in got], cap_eff - 24, [len(m) for m in py]), rp)


def run(ctx, exe, budget):
    jobs = construction_jobs() + setbuffer_sweep_jobs(ctx)
    pool = streams(ctx, budget)
    for data, kinds in pool:
        for t in kinds if kinds.isalpha() and kinds.isupper() else ['x']:
            ctx.count('token_' + t)
        for cap, mode, ops, kind in requests_for(ctx, data, kinds):
            jobs.append(Job(data, kinds, cap, mode, ops, kind))
    run_jobs(ctx, exe, jobs, py_fraction=0.15 if not ctx.thorough else 0.5, multis=multi_groups(ctx, pool))
    big_cases(ctx, exe)


def search(ctx):
    ctx.notes.append('stage E: widened search')
    exe = build_harness(ctx)
    if exe:
        run(ctx, exe, 600)


def check(ctx):
    ctx.cov['rule'] = ('streams = all token sequences of length %d over the 14-token alphabet of tools/gen.py + random longer streams + '
                       'resync-heavy streams (duplicated sync bytes, false headers) + malformed streams; x capacities %s and one larger '
                       'than the stream; x construction (user buffer at base = 0..3 mod 4 in an exact-size heap block, internal '
                       'allocation); x divisions into OnData calls (one call, bytewise, random cuts, 24- and 7-byte blocks, every '
                       '(prefix, rest) pair for short streams); x Reset() at random points; x SetBuffer() at random points (caller '
                       'buffer at base = 0..3 mod 4 in a new exact-size heap block, the old block freed; or internally allocated; '
                       'capacity around the byte count since the last cut, around the header size, refused ones included); '
                       '+ SetBuffer() sweep: at every byte position of a message (nothing pending / inside the header / inside the '
                       'payload / right after the dispatch) x from {caller, internal, no buffer} x to {caller, internal} x new '
                       'capacity {refused, smallest accepted, pending-1, pending, pending+1, old, larger}; '
                       '+ every capacity 0..40 x every alignment; '
                       '+ 2-3 framer objects alive in one process (streams of this run, different capacities and buffer kinds, fine '
                       'divisions, with Reset()/SetBuffer()), operations interleaved by strict alternation or random runs of 1-3: each '
                       'judged like a lone framer and compared with itself run alone; '
                       '+ one message around the documented 2^24-byte limit (message size 2^24-1 / 2^24 / 2^24+1, payload 2^24-16 / '
                       '2^24-15 / 2^24 / 2^24+1 / 20 MB; quick tier: four of them) between small messages, buffer that just holds it or '
                       'is larger (once one byte too small), one call or 4-8 MB pieces: judged by the Python rendering of the scan '
                       '(compared with the Lean scan on every ordinary request) and the Python decoder, not by the Lean driver. '
                       'A case is non-trivial if the stream has >= 24 bytes or a message is dispatched; distinct = distinct harness '
                       'request' % (3 if ctx.thorough else 2, CAPS))
    ctx.assumptions += [
        'CalculateCRC (crc.cc) is the CRC-32 of Model/Crc32.lean (compared on every candidate the framer checks)',
        'the literal model (Model/CxxFramer.lean) is tied to fusion_engine_framer.cc by the per-call comparison of callbacks, return '
        'value, state_, next_byte_index_, current_message_size_, capacity_bytes_ (also per Reset() and per SetBuffer())',
        'SetBuffer() on a live object: after an accepted call only the new storage is live (the harness frees the previous caller '
        'block, exact-size heap blocks under ASan), so an access through the old pointer or beyond the new capacity is a sanitizer report',
        'memory safety of the compiled code: model-level theorem (every index < capacity) + ASan/UBSan on every harness run',
        'operator new[] returns 4-byte aligned storage (internal buffers; ClearManagedBuffer deletes the aligned pointer)',
        'same_as_python is proved for capacity_bytes_ <= 24 + 2^24 (the Python header rejects payloads above 2^24, the C++ framer does not)']
    ctx.prove(MODULES)
    exe = build_harness(ctx)
    if exe:
        try:
            run(ctx, exe, 700 if ctx.thorough else 250)
        except fv.InfraError:
            if not ctx.proof_failures:
                raise
    return fv.finish(ctx, 'proof', search)


def replay(ctx, path):
    obj = json.load(open(path))
    r = obj['input']
    exe = build_harness(ctx)
    if not exe:
        return fv.finish(ctx, 'proof', None)
    if r.get('big'):
        b = r['big']
        tmp = tempfile.mkdtemp(prefix='c07big')
        try:
            data = big_stream(b['seed'], b['payload'])
            path = os.path.join(tmp, 'p.bin')
            with open(path, 'wb') as f:
                f.write(data)
            ops, off = [], 0
            for l in b['pieces']:
                ops.append('F%s:%d:%d' % (path, off, l))
                off += l
            impl, reports = run_harness(exe, ['%d %s %s' % (b['capacity'], b['mode'], ','.join(ops))])
            judge_big(ctx, dict(b, data=data, path=path), impl[0], reports.get(0), {})
        finally:
            shutil.rmtree(tmp, ignore_errors=True)
        return fv.finish(ctx, 'proof', None)
    if r.get('multi'):
        m = r['multi']
        mj = [Job(bytes.fromhex(q['stream']), q.get('tokens', ''), q['capacity'], q['mode'], [op_from_replay(o) for o in q['ops']], 'replay')
              for q in m['parts']]
        run_jobs(ctx, exe, [], multis=[(mj, m['sched'])])
        return fv.finish(ctx, 'proof', None)
    data = bytes.fromhex(r['stream'])
    ops = [op_from_replay(o) for o in r['ops']]
    run_jobs(ctx, exe, [Job(data, r.get('tokens', ''), r['capacity'], r['mode'], ops, 'replay')])
    return fv.finish(ctx, 'proof', None)
