"""C08 - the log index lists exactly the messages of a sequential scan of the file."""
import json

import fv
import gen
from props import index_common as ic

MODULES = ['FeVerif.Props.C08']
CONFIGS = [(64, 64), (32, 48), (64, 48), (256, 160)]     # (R, M): read size, overlap; messages are kept <= M


WIRE_TABLE_SILENT_ON = set()      # message types index_common.WIRE_TIME_FAMILY has no (or a stale) entry for

def parse_pairs(s):
    return [tuple(map(int, x.split(':'))) for x in s.split(',') if x]


def one_file(ctx, data, kinds, R, M, nts, lines, pending):
    path = ic.write_log(data)
    ic.rebind(R, M)
    results = {}
    for nt in nts:
        results[nt] = ic.run_indexer(path, nt)
        lines.append('index %d %d %d %s' % (R, M, nt, data.hex()))
    lines.append('scanfile %s' % data.hex())
    pending.append(({'file': data.hex(), 'tokens': kinds, 'R': R, 'M': M}, results, data, nts))
    # the same indexing with all of the package's logging (every trace depth) switched on: the index must be the same
    if ctx.rng.random() < (0.5 if len(data) < 4000 else 0.1):
        with ic.verbose_logging():
            rv = ic.run_indexer(path, nts[0])
        ctx.count('indexed_again_with_trace_logging')
        if rv != results[nts[0]]:
            ctx.violation('C08/index-depends-on-log-level', 'with trace logging enabled the index is %s, without %s (workers=%d)'
                          % (str(rv[:2])[:150], str(results[nts[0]][:2])[:150], nts[0]),
                          {'file': data.hex(), 'tokens': kinds, 'R': R, 'M': M, 'num_threads': nts[0], 'logging': 'point_one logger at level 1'})


def reindex_histories(ctx):
    """Index with the default options (an index file is saved and a later call may load it), change the file, index again:
    the second index must be that of the NEW content - whatever the file is called."""
    import os
    from fusion_engine_client.parsers import fast_indexer
    rng = ctx.rng
    ic.rebind(80 * 1024, 16 * 1024)
    for name in ('t.p1log', 'capture.bin', 'capture', 'input.raw', 'log.p1log.bak'):
        a, _ = gen.small_file(rng, rng.choice([3, 5]), 64, 'VU')
        variants = [('append', a + gen.frame(9, b'more', 50) + gen.frame(9, b'', 51)), ('replace-shorter', gen.frame(9, b'xyz', 60)),
                    ('replace-same-size', bytes(reversed(a)))]
        for what, b in variants:
            path = ic.write_log(a, 'c08_hist_' + name)
            p1i = os.path.splitext(path)[0] + '.p1i'
            for f in (p1i,):
                if os.path.exists(f):
                    os.remove(f)
            try:
                fast_indexer.fast_generate_index(path, num_threads=1)                # defaults: save_index=True
                with open(path, 'wb') as f:
                    f.write(b)
                idx = fast_indexer.fast_generate_index(path, num_threads=1)          # defaults: may load the saved index
                got = [int(x) for x in idx.offset.tolist()]
            except BaseException as e:
                ctx.violation('C08/indexing-raised', 'fast_generate_index raised %s: %s' % (type(e).__name__, e),
                              {'file_name': name, 'first_content': a.hex(), 'second_content': b.hex(), 'history': what})
                continue
            want = []
            o = 0
            while o < len(b):                                                        # sequential scan of the new content
                n = ic.valid_at(b, o)
                if n:
                    want.append(o)
                    o += n
                else:
                    o += 1
            ctx.count('reindex_after_change_cases')
            if what != 'replace-same-size' and got != want:
                ctx.violation('C08/index-of-earlier-content-returned', 'file %r: indexed, then %s, then indexed again with the default '
                              'options: offsets %s, the sequential scan of the current content accepts %s' % (name, what, got[:12], want[:12]),
                              {'file_name': name, 'first_content': a.hex(), 'second_content': b.hex(), 'history': what})
            for f in (path, p1i):
                if os.path.exists(f):
                    os.remove(f)


def time_fields_text(msg):
    fam = ic.wire_time_family(int.from_bytes(msg[10:12], 'little'))
    p = msg[24:]
    if fam in ('details', 'input') and len(p) >= 20:
        return '%s: measurement_time=%s source=%d p1_time=%s' % (fam, ic._wire_timestamp(p, 0), p[8], ic._wire_timestamp(p, 12))
    if fam == 'p1':
        return 'p1: p1_time=%s' % ic._wire_timestamp(p, 0)
    return 'class without P1 time'


def judge(ctx, replay0, results, data, nts, outs):
    scan = parse_pairs(outs[-1])
    oversized = [x for x in scan if x[1] > replay0['M']]
    stradd = None
    want_times = {}
    for nt, mo in zip(nts, outs[:-1]):
        res = results[nt]
        replay = dict(replay0, num_threads=nt)
        if res[0] == 'raise':
            ctx.violation('C08/indexing-raised', 'fast_generate_index raised %s' % res[1], replay)
            continue
        _, offs, types, times, ords = res
        model = parse_pairs(mo)
        if [m[0] for m in model] != offs or [m[2] for m in model] != types:
            ctx.disagree('indexer != model (R=%d M=%d nt=%d): impl offsets %s model %s' %
                         (replay0['R'], replay0['M'], nt, offs[:20], [m[0] for m in model][:20]), replay)
        # oracle
        if oversized:
            ctx.count('files_with_message_larger_than_overlap')
            continue          # outside the property's quantifier (messages above the indexer's size limit)
        if offs != [x[0] for x in scan]:
            if stradd is None:
                stradd = ic.straddling_candidates(data, scan)
            missing = [x for x in scan if x[0] not in offs]
            extra = [o for o in offs if o not in [x[0] for x in scan]]
            if stradd and not extra and all(any(s <= o < s + k for s, k in stradd) for o, _ in missing):
                ctx.violation('C08/straddling-nested-candidate',
                              'entries %s of the sequential scan are missing with %d workers: they lie inside a CRC-valid candidate %s '
                              'that starts inside an accepted message and ends beyond it' % (missing, nt, stradd), replay)
            else:
                ctx.violation('C08/index-differs-from-scan',
                              'index offsets %s, sequential scan accepts %s (R=%d M=%d workers=%d)' %
                              (offs, [x[0] for x in scan], replay0['R'], replay0['M'], nt), replay)
            continue
        if ords != list(range(len(offs))):
            ctx.violation('C08/ordinals-wrong', 'message_index is %s' % ords[:20], replay)
        for (o, n), t, tm in zip(scan, types, times):
            msg = data[o:o + n]
            if not ic.crc_ok(data, o, n):
                ctx.violation('C08/entry-not-crc-valid', 'entry at %d is not a CRC-valid message' % o, replay)
            if t != int.from_bytes(msg[10:12], 'little'):
                ctx.violation('C08/type-wrong', 'entry at %d has type %d' % (o, t), replay)
            if o not in want_times:             # the same for every worker count: computed once per message
                want_times[o] = (ic.expected_time(msg), ic.wire_expected_time(msg))
            et, wt = want_times[o]
            if tm != et:
                ctx.violation('C08/time-wrong', 'entry at %d has time %s, message says %s' % (o, tm, et), replay)
            # the same column against the time read from the message's wire bytes by the rule of its class family (P1 time
            # first / MeasurementDetails block kept / MeasurementDetails block of an input / no time): independent of
            # get_p1_time(), which the indexer itself calls
            ctx.count('time_entries_%s' % (ic.wire_time_family(t) or 'untimed'))
            if t in WIRE_TABLE_SILENT_ON:       # a class the hand-written table does not know (yet): judged by get_p1_time() only
                ctx.count('time_entries_of_classes_unknown_to_the_wire_table')
                continue
            if tm != wt:
                ctx.violation('C08/time-wrong', 'entry at %d (type %d, %s) has time %s, the message\'s bytes say %s' %
                              (o, t, time_fields_text(msg), tm, wt), replay)
    ctx.count('entries', len(scan))


def run(ctx, budget, findings_tokens=True):
    rng = ctx.rng
    lines, pending = [], []
    files = []
    for R, M in (CONFIGS if ctx.thorough else CONFIGS[:3]):
        for _ in range(budget):
            data, kinds = gen.small_file(rng, rng.choice([1, 2, 4, 7, 12]), M, pad=rng.choice([0, 5, R + 3]))
            files.append((data, kinds, R, M))
        # truncated tail with a CRC matching the truncated bytes, straddling crafted candidate
        for _ in range(max(2, budget // 8)):
            data, kinds = gen.small_file(rng, rng.choice([1, 3, 6]), M, pad=rng.choice([0, 9]))
            files.append((data + gen.file_token(rng, 'Q', {'n': 0}, M), kinds + 'Q', R, M))
        if findings_tokens:
            for _ in range(max(2, budget // 8)):
                pre, kinds = gen.small_file(rng, rng.choice([0, 1, 3]), 48, 'VUJ', pad=rng.choice([0, 9, 40]))
                post, k2 = gen.small_file(rng, rng.choice([4, 8]), 48, 'VUJ', pad=40)
                files.append((pre + gen.file_token(rng, 'X', {'n': 0}, 128) + post + bytes(rng.randrange(1, 256) for _ in range(130)),
                              kinds + 'X' + k2, 64, 128))
        # tiny files
        for n in (0, 1, 2, 3, 23, 24, 25):
            files.append((bytes(rng.choice([0x2e, 0x31, 0]) for _ in range(n)), 'tiny%d' % n, R, M))
    # P1-timed messages (real Pose / GNSSInfo payloads with times), preceded by CRC-valid messages of the same types whose
    # payload is too short to decode: the time column must still be right for every later message
    from props import reader_common as rc
    for _ in range(max(2, budget // 6)):
        seqs = {'n': 0}
        bad = b''.join(gen.frame(t, bytes(rng.randrange(256) for _ in range(n)), 7, 0, 0) for t, n in ((10000, 20), (10001, 9)))
        log = rc.make_log(rng, rng.choice([4, 9]), junk=True) + bad + rc.make_log(rng, rng.choice([3, 8]), junk=False, t_start=300.5)
        files.append((log, 'timedN', 128, 256))
    # P1 timestamps at the edges of the wire format (non-canonical nanoseconds, second counts that do not fit the index)
    bt = ic.boundary_time_messages(rng)
    files.append((b''.join(bt), 'boundary-times', 80 * 1024, 16 * 1024))
    for m in bt:
        files.append((b'\x01\x02' + m + gen.frame(9, b'z', 77), 'boundary-time', 80 * 1024, 16 * 1024))
    # every way a class defines its P1 time: messages of EVERY registered class with the time fields written into the payload
    # bytes - MeasurementDetails classes (kept / disregarded p1_time) x every measurement_time_source x measurement_time
    # unset/set x p1_time unset / same second / another second; classes with a leading p1_time; classes without a time
    stale = ic.registered_types_missing_from_wire_table()
    WIRE_TABLE_SILENT_ON.clear()
    WIRE_TABLE_SILENT_ON.update(k for k, _ in stale)
    if stale:       # e.g. a message class added to the library after the table was written: no alarm, the wire-byte judgement is
        # withheld for exactly those classes (the comparison with the class's own get_p1_time() still applies) and this is reported
        ctx.count('classes_unknown_to_the_wire_time_table:' + ','.join('%d=%s' % x for x in stale)[:200])
    fam = ic.time_family_messages(rng, per_class=None)
    ctx.count('time_family_messages', len(fam))
    rng.shuffle(fam)
    step = 60
    for k in range(0, len(fam), step):
        files.append((b''.join(m for _, m in fam[k:k + step]), 'time-families', 80 * 1024, 16 * 1024))
    for _ in range(max(2, budget // 6)):          # a few of them across small blocks, with junk in between
        pick = rng.sample(fam, 5)
        files.append((b''.join(m + bytes(rng.randrange(256) for _ in range(rng.choice([0, 1, 6]))) for _, m in pick),
                      'time-families-small', 128, 256))
    # every shift of one message pair across a block boundary (odd and even offsets)
    R, M = 64, 64
    base, _ = gen.small_file(rng, 3, M, 'VUW')
    for shift in range(0, R + 2, 1 if ctx.thorough else 3):
        files.append((bytes(shift) + base, 'shift%d' % shift, R, M))
    reindex_histories(ctx)
    for r in fv.corpus('C08'):      # regression corpus first
        if 'file' in r:
            one_file(ctx, bytes.fromhex(r['file']), 'corpus', r.get('R', 64), r.get('M', 64), sorted(set([1, r.get('num_threads', 2), 16])), lines, pending)
            ctx.count('corpus_cases')
    for data, kinds, R, M in files:
        nblocks = max(1, (len(data) + R - 1) // R)
        nts = sorted(set([1, 2, min(16, nblocks), rng.randrange(1, 17)]))
        if ctx.thorough:
            nts = sorted(set(nts + [3, 5, 16]))
        for t in kinds if kinds.isalpha() and kinds.isupper() else ['x']:
            ctx.count('token_' + t)
        one_file(ctx, data, kinds, R, M, nts, lines, pending)
    # the real constants on a few larger files
    if budget >= 20:
        for _ in range(3 if ctx.thorough else 1):
            data, kinds = gen.stream(rng, rng.choice([300, 700]), 'VVVVUWCJ')
            one_file(ctx, data, 'big', 80 * 1024, 16 * 1024, [1, 3, 16], lines, pending)
    outs = ctx.driver(lines)
    k = 0
    for replay0, results, data, nts in pending:
        n = len(nts) + 1
        judge(ctx, replay0, results, data, nts, outs[k:k + n])
        for j in range(n - 1):
            ctx.case(lines[k + j], nontrivial=len(data) >= 24)
            ctx.cov['traces_validated_against_impl'] += 1
        if len(data) < 150 and outs[k + n - 1]:
            ctx.sample({'request': lines[k][:400], 'index': outs[k], 'scan': outs[k + n - 1]}, 3)
        k += n


def search(ctx):
    run(ctx, 120)


def check(ctx):
    ctx.cov['rule'] = ('mixed-content files from tokens (valid messages, unknown types, wrappers with nested messages, corrupted, '
                       'truncated, sync fragments, false headers incl. huge lengths, junk, truncated tail whose CRC matches the truncated '
                       'bytes, crafted straddling nested candidate) with random padding so that messages and sync words fall on every '
                       'side of block boundaries, with _READ_SIZE_BYTES/_MAX_FE_MSG_SIZE_BYTES rebound to %s (and the real 80 KiB/16 KiB on '
                       'larger files), x worker counts from 1..16; messages of every registered class with the time fields written into the '
                       'payload bytes (MeasurementDetails kept/disregarded x every measurement_time_source x measurement_time unset/set x '
                       'p1_time unset/same second/another second; leading p1_time; no time), the time column judged against the '
                       'wire bytes by the class family\'s rule; non-trivial = file >= 24 bytes; distinct = distinct (R, M, workers, file)'
                       % CONFIGS)
    ctx.assumptions += ['multiprocessing.Pool.starmap returns results in argument order (modelled as List.map)',
                        'file reads (seek/read) return the bytes of the file; np.frombuffer/np.where find exactly the 2-byte sync words',
                        'P1 time / type of an entry are checked against the class\'s own unpack of the message bytes and against the time '
                        'fields read from the wire bytes by the per-type table index_common.WIRE_TIME_FAMILY (not modelled in Lean); '
                        'whether a payload is decodable at all is the class\'s unpack()']
    ctx.prove(MODULES)
    try:
        run(ctx, 60 if ctx.thorough else 14)
    except fv.InfraError:
        if not ctx.proof_failures:
            raise
    return fv.finish(ctx, 'proof', search)


def replay(ctx, path):
    obj = json.load(open(path))
    r = obj['input']
    lines, pending = [], []
    data = bytes.fromhex(r['file'])
    one_file(ctx, data, r.get('tokens', ''), r['R'], r['M'], [r.get('num_threads', 1)], lines, pending)
    outs = ctx.driver(lines)
    judge(ctx, *pending[0], outs)
    return fv.finish(ctx, 'proof', None)
