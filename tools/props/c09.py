"""C09 - a saved index is either equivalent to a fresh one or is rejected."""
import json
import os

import fv
import gen
from props import index_common as ic

MODULES = ['FeVerif.Props.C09']


def open_log(path, max_bytes=None, **kw):
    """Open through MixedLogReader (default save_index=True): ('ok', [offsets]) or ('raise', kind)."""
    from fusion_engine_client.parsers import MixedLogReader
    try:
        r = MixedLogReader(path, num_threads=1, return_header=False, return_payload=False, return_offset=True,
                           return_message_index=True, max_bytes=max_bytes, **kw)
        seq = [(int(x[0]), int(x[1])) for x in r]
        r.input_file.close()
        return ('ok', seq)
    except BaseException as e:
        return ('raise', '%s: %s' % (type(e).__name__, str(e)[:80]))


def load_index(p1i, path, delete_on_error=True):
    from fusion_engine_client.parsers.file_index import FileIndex
    try:
        idx = FileIndex(p1i, path, delete_on_error=delete_on_error)
    except ValueError:
        return 'ValueError %d' % (0 if os.path.exists(p1i) else 1)
    except BaseException as e:
        return 'Other:%s' % type(e).__name__
    offs, types, times, ords = ic.index_arrays(idx)
    return 'ok ' + ','.join('%s:%d:%d' % ('n' if t is None else t, ty, o) for o, ty, t in zip(offs, types, times))


def scan_oracle(ctx, datas):
    outs = ctx.driver(['scanfile %s' % d.hex() for d in datas])
    return [[int(x.split(':')[0]) for x in o.split(',') if x] for o in outs]


def variants(rng, d, thorough):
    """Data files the index may meet later: unchanged, grown, shrunk (appends/truncations of the indexed file)."""
    seqs = {'n': 50}
    v = [('same', d), ('append-msg', d + gen.file_token(rng, 'U', seqs, 64)), ('append-junk', d + bytes([1, 2, 0x2e, 0x31, 5])),
         ('empty', b'')]
    cuts = sorted(set([max(0, len(d) - 1), len(d) // 2] + [rng.randrange(len(d) + 1) for _ in range(2 if thorough else 1)]))
    for c in cuts:
        v.append(('truncate@%d' % c, d[:c]))
    return v


def one_log(ctx, d, kinds, lines, pending, msg_boundaries=True, name='t.p1log'):
    path = ic.write_log(d, name)
    p1i = os.path.splitext(path)[0] + '.p1i'
    res = ic.run_indexer(path, 1, save_index=True)
    if res[0] == 'raise':
        ctx.violation('C09/indexing-raised', res[1], {'file': d.hex()})
        return
    B = open(p1i, 'rb').read() if os.path.exists(p1i) else None
    offs = res[1]
    # save correspondence
    recs = ','.join('%s:%d:%d' % ('n' if t is None else t, ty, o) for o, ty, t in zip(res[1], res[2], res[3])) or '-'
    lines.append('p1isave %d %s' % (len(d), recs))
    pending.append(('save', {'file': d.hex(), 'tokens': kinds}, 'nothing' if B is None else B.hex()))
    if B is None:
        B = b''
    vs = variants(ctx.rng, d, ctx.thorough)
    if msg_boundaries and offs:
        # truncations of the data exactly at message boundaries (the dangerous ones for a marker-less index)
        ends = scan_ends(d, offs)
        for e in ends[-3:]:
            vs.append(('truncate@end%d' % e, d[:e]))
    ks = range(len(B) + 1)
    for vname, d2 in vs:
        name = vname
        for k in (ks if name in ('same',) or name.startswith('truncate@end') or ctx.thorough else [k for k in ks if k % 14 in (0, 1, 13)]):
            with open(path, 'wb') as f:
                f.write(d2)
            with open(p1i, 'wb') as f:
                f.write(B[:k])
            replay = {'file': d.hex(), 'tokens': kinds, 'p1i': B.hex(), 'truncate_p1i_to': k, 'data_variant': name, 'data': d2.hex(),
                      'file_name': os.path.basename(path)}
            # 1. correspondence of load()
            got = load_index(p1i, path)
            lines.append('p1iload %s %s' % (B[:k].hex() or '-', d2.hex() or '-'))
            pending.append(('load', replay, got))
            if name == 'same' and k == len(B) and B:
                # the property, on the entries themselves: the complete saved index of the unchanged file loads as the fresh index
                want = 'ok ' + (recs if recs != '-' else '')
                if got != want:
                    ctx.violation('C09/loaded-index-differs-from-fresh',
                                  'the saved index loads as (time:type:offset) %s, the fresh index of the same file is %s'
                                  % (got[:160], want[:160]), replay)
                ctx.count('complete_index_reloaded')
            if k % 3 == 0:
                # the rarely used call form delete_on_error=False: same verdict, but the index file is left alone
                with open(p1i, 'wb') as f:
                    f.write(B[:k])
                got2 = load_index(p1i, path, delete_on_error=False)
                if not os.path.exists(p1i):
                    ctx.violation('C09/index-deleted-despite-delete_on_error-false', 'FileIndex(..., delete_on_error=False) removed the index', replay)
                if got2.split(' ')[0] != got.split(' ')[0] or (got.startswith('ok') and got2 != got):
                    ctx.violation('C09/verdict-depends-on-delete_on_error',
                                  'FileIndex(index, data) gives %s, with delete_on_error=False %s' % (got[:60], got2[:60]), replay)
                ctx.count('load_delete_on_error_false')
            # 2. the property: open and compare with a fresh scan of the current data
            with open(p1i, 'wb') as f:
                f.write(B[:k])
            r = open_log(path)
            pending.append(('open', replay, r, d2))
            ctx.count('variant_' + name.split('@')[0])
    for f in (path, p1i):
        if os.path.exists(f):
            os.remove(f)


def scan_ends(d, offs):
    import struct
    return [o + 24 + struct.unpack_from('<I', d, o + 16)[0] for o in offs]


def histories(ctx, n, lines, pending):
    """Histories of {open (index), append message/junk, truncate data, truncate index}: every open must give the fresh scan."""
    rng = ctx.rng
    for hi in range(n):
        d, kinds = gen.small_file(rng, rng.choice([2, 4, 6, 9]), 64, 'VVUWCJ', pad=rng.choice([0, 5]))
        # small block constants so that a byte-limited open really indexes only part of the file
        ic.rebind(*((64, 64) if hi % 2 == 0 else (80 * 1024, 16 * 1024)))
        path = ic.write_log(d, rng.choice(['t.p1log', 'capture.raw', 'input.bin']))
        p1i = os.path.splitext(path)[0] + '.p1i'
        hist = []
        last_indexed = None
        indexed_size = None         # size of the data file when an index was last saved for it
        held = b''                  # bytes cut off the end of the file by 'cut-tail', still to arrive ('uncut')
        for step in range(rng.choice([3, 4, 5, 6])):
            op = rng.choice(['open', 'open', 'open', 'open-max-bytes', 'append-msg', 'append-junk', 'truncate-data',
                             'truncate-data-at-message', 'truncate-index', 'replace-data', 'empty-data', 'cut-tail', 'uncut'])
            # a log that is still being written: indexed while its last message lacks its final k bytes (k = 1, 2, 3, ...),
            # opened again once those bytes (or some of them) have arrived - the growth is smaller than any message
            if hi % 4 == 1 and step < 4:
                op = ['cut-tail', 'open', 'uncut', 'open'][step]
            elif step == 0 and hi % 3 == 0:
                op = 'open-max-bytes'       # a byte-limited open of a log that has no index yet ...
            elif step == 1 and hi % 3 == 0:
                op = 'open'                 # ... followed by a normal open
            cur = open(path, 'rb').read()
            if op == 'append-msg':
                cur = cur + gen.file_token(rng, 'U', {'n': 9}, 64)
            elif op == 'append-junk':
                cur = cur + bytes(rng.randrange(256) for _ in range(rng.choice([1, 5, 30])))
            elif op == 'truncate-data':
                cur = cur[:rng.randrange(len(cur) + 1)]
            elif op == 'truncate-data-at-message':
                offs = [o for o in range(len(cur)) if ic.valid_at(cur, o)]
                if offs:
                    o = rng.choice(offs)
                    cur = cur[:o + ic.valid_at(cur, o)]
            elif op == 'cut-tail':
                ends = [o + ic.valid_at(cur, o) for o in range(len(cur)) if ic.valid_at(cur, o)]
                if ends:
                    e = max(ends)
                    k = rng.choice([1, 1, 2, 2, 3, 3, 4, 5, 23, 24, 25])
                    k = min(k, e)
                    held = cur[e - k:e]
                    cur = cur[:e - k]
                    op = 'cut-tail=%d' % k
            elif op == 'uncut':
                j = len(held) if rng.random() < 0.7 else rng.randrange(len(held) + 1)
                cur = cur + held[:j]
                held = held[j:]
                op = 'uncut=%d' % j
            elif op == 'empty-data':
                cur = b''
            elif op == 'replace-data':
                # another log altogether; the property covers replacement by a file of a DIFFERENT size than the indexed one
                cur, _ = gen.small_file(rng, rng.choice([2, 4, 6]), 64, 'VVUWCJ', pad=rng.choice([0, 5]))
                if indexed_size is not None and len(cur) == indexed_size:
                    cur += b'\x00'
            elif op == 'truncate-index' and os.path.exists(p1i):
                b = open(p1i, 'rb').read()
                k = rng.choice([0, 13, 14, max(0, len(b) - 14), max(0, len(b) - 1), rng.randrange(len(b) + 1)])
                open(p1i, 'wb').write(b[:k])
            if indexed_size is not None and len(cur) == indexed_size and cur != last_indexed:
                cur += b'\x01'          # same size as when indexed but different content: outside the property
            with open(path, 'wb') as f:
                f.write(cur)
            hist.append(op)
            if op == 'open-max-bytes':
                ends = [o + ic.valid_at(cur, o) for o in range(len(cur)) if ic.valid_at(cur, o)]
                mb = rng.choice([1, 30, len(cur) // 3, len(cur) // 2, max(1, len(cur) - 1), len(cur), len(cur) + 5] +
                                (ends + [e - 1 for e in ends] + [e + 1 for e in ends]) * 2) if cur else 1
                mb = max(1, mb)
                hist[-1] = 'open-max-bytes=%d' % mb
                r = open_log(path, max_bytes=mb)     # what it returns for the limit is C10's business; here: it must not poison
                # the saved index, and it must return what the same byte-limited read returns with the index ignored
                if r[0] == 'raise':
                    pending.append(('open', {'initial_file': d.hex(), 'history': list(hist), 'data': cur.hex()}, r, cur))
                else:
                    keep = open(p1i, 'rb').read() if os.path.exists(p1i) else None
                    r2 = open_log(path, max_bytes=mb, ignore_index=True, save_index=False)
                    if keep is None and os.path.exists(p1i):
                        os.remove(p1i)
                    elif keep is not None:
                        with open(p1i, 'wb') as f:
                            f.write(keep)
                    ctx.count('byte_limited_open_vs_index_ignored')
                    if r2[0] == 'ok' and [o for o, _ in r[1]] != [o for o, _ in r2[1]]:
                        ctx.violation('C09/byte-limited-read-differs-with-index-ignored',
                                      'max_bytes=%d: the read returned offsets %s, the same read with ignore_index=True returns %s'
                                      % (mb, [o for o, _ in r[1]][:12], [o for o, _ in r2[1]][:12]),
                                      {'initial_file': d.hex(), 'history': list(hist), 'data': cur.hex()})
            if op == 'open':
                r = open_log(path)
                indexed_size = len(cur)
                last_indexed = cur
                pending.append(('open', {'initial_file': d.hex(), 'history': list(hist), 'data': cur.hex()}, r, cur))
                ctx.count('history_open')
        for f in (path, p1i):
            if os.path.exists(f):
                os.remove(f)
    ic.rebind(80 * 1024, 16 * 1024)


def scripted_histories(ctx, pending):
    """Index A; empty the data file and open it (the index of A must go); write different content of A's size; open."""
    rng = ctx.rng
    for i in range(8):
        a, _ = gen.small_file(rng, rng.choice([3, 5]), 64, 'VU')
        msgs = []
        o = 0
        while o < len(a):
            n = ic.valid_at(a, o)
            if not n:
                break
            msgs.append(a[o:o + n])
            o += n
        if len(msgs) < 2 or o != len(a):
            continue
        b = b''.join(msgs[1:] + msgs[:1])          # same messages in another order: same size, other offsets
        if b == a:
            continue
        path = ic.write_log(a, ['t.p1log', 'capture.raw'][i % 2])
        p1i = os.path.splitext(path)[0] + '.p1i'
        hist = []
        shrink = [('empty-data+open', b''), ('shrink-to-junk+open', b'\x01\x02\x03'), ('shrink-to-half-a-header+open', a[:11]),
                  ('shrink-to-a-false-sync+open', b'\x2e\x31' + bytes(30))][i % 4]
        for step, content in (('open', a), shrink, ('rewrite-same-size+open', b)):
            with open(path, 'wb') as f:
                f.write(content)
            hist.append(step)
            r = open_log(path)
            pending.append(('open', {'initial_file': a.hex(), 'history': list(hist), 'data': content.hex()}, r, content))
            ctx.count('scripted_history_open')
        for f in (path, p1i):
            if os.path.exists(f):
                os.remove(f)
    # Index A; cut k trailing messages off and open (a shorter index is saved over the longer one); append other messages
    # that bring the file back to exactly A's size; open. After every open, the index file left on disk must also load as the
    # fresh index of the data it was just built from (or be refused).
    for i in range(8):
        seqs = {'n': 0}
        ms = [gen.frame(9, bytes(rng.randrange(256) for _ in range(n)), k) for k, n in
              enumerate(rng.sample([0, 1, 2, 3, 5, 8, 13, 21, 34], rng.choice([4, 5, 6])))]
        k = rng.choice([1, 2, 2, 3])
        head, tail = ms[:-k], ms[-k:]
        a = b''.join(ms)
        if k == 1:
            n = len(tail[0]) - 24
            tail2 = [gen.frame(2999, bytes(rng.randrange(256) for _ in range(n)), 90)]       # same length, other content
            if n >= 24:
                tail2 = [gen.frame(9, b'', 91), gen.frame(9, bytes(n - 24), 92)]              # same total, two messages
        else:
            tail2 = [gen.frame(9, bytes(len(m) - 24), 90 + j) for j, m in enumerate(reversed(tail))]   # lengths in another order
        b = b''.join(head + tail2)
        assert len(b) == len(a)
        path = ic.write_log(a, ['t.p1log', 'capture.raw'][i % 2])
        p1i = os.path.splitext(path)[0] + '.p1i'
        hist = []
        for step, content in (('open', a), ('cut-%d-messages+open' % k, b''.join(head)), ('append-to-the-old-size+open', b), ('open', b)):
            with open(path, 'wb') as f:
                f.write(content)
            hist.append(step)
            r = open_log(path)
            replay = {'initial_file': a.hex(), 'history': list(hist), 'data': content.hex()}
            pending.append(('open', replay, r, content))
            if os.path.exists(p1i):
                got = load_index(p1i, path, delete_on_error=False)
                pending.append(('ondisk', dict(replay, note='index file left on disk by the last open'), got, content))
            ctx.count('scripted_shrink_regrow_open')
        for f in (path, p1i):
            if os.path.exists(f):
                os.remove(f)


# ---------------------------------------------------------------------------------------------------------------------
# Every way the library itself writes an index file, followed by the property's comparison
# ---------------------------------------------------------------------------------------------------------------------

_FRACTIONS = [0.0, 0.1, 0.2, 0.3, 0.4, 0.5, 0.6, 0.7, 0.8, 0.9, 0.25, 0.75, 0.05, 0.95, 0.499, 0.501, 0.999]


def _junk(rng):
    k = rng.randrange(4)
    if k == 0:
        return b'$GPGGA,%06d.00,3723.2475,N,12158.3416,W,1,07,1.0,9.0,M,,,,0000*18\r\n' % rng.randrange(240000)
    if k == 1:
        return bytes(rng.randrange(256) for _ in range(rng.choice([1, 5, 30])))
    if k == 2:
        return b'\xd3\x00\x13' + bytes(rng.randrange(256) for _ in range(22))        # RTCM-like frame
    return b'boot: receiver v1.2\r\n'


def timed_mixed_log(rng, i, n):
    """A capture of n FusionEngine messages with non-FusionEngine bytes in front of, between and after them.
    Timed messages step through P1 times whose fractional seconds cover [0, 1) on both sides of one half; untimed messages, timed
    classes with an invalid time and unknown types are interleaved. i selects the junk layout: 0 - junk before every message,
    1 - random, 2 - leading banner only, 3 - none (a clean .p1log), then random."""
    from props import reader_common as rc
    timed, untimed = rc.timed_payloads()
    base = float(rng.choice([0, 1, 99, 100, 4000]))
    if i % 2 == 0:
        fr = list(_FRACTIONS[:10])                      # .0 .1 ... .9 in order, the second advancing now and then
        start = rng.randrange(10)
        fr = fr[start:] + fr[:start]
    else:
        fr = [rng.choice(_FRACTIONS) for _ in range(n)]
    parts, times = [], []
    sec = base
    prev_f = -1.0
    seq = 0
    layout = i % 4 if i < 4 else 1
    if layout in (0, 1, 2):
        parts.append(_junk(rng))
    k = 0
    while seq < n:
        u = rng.random()
        if u < 0.62:
            f = fr[k % len(fr)]
            k += 1
            if f <= prev_f and rng.random() < 0.8 or f < prev_f:
                sec += rng.choice([1, 1, 1, 2])
            prev_f = f
            t = sec + f
            ty, p, v = rng.choice(timed)(t)
            times.append(t)
        elif u < 0.68:
            ty, p, v = rng.choice(timed)(float('nan'))
        elif u < 0.9:
            ty, p, v = rng.choice(untimed)(None)
        else:
            ty, p, v = rng.choice([9, 2999]), bytes(rng.randrange(256) for _ in range(rng.choice([0, 3]))), 0
        if seq > 0 and (layout == 0 or layout == 1 and rng.random() < 0.4):
            parts.append(_junk(rng))
        parts.append(gen.frame(ty, p, seq, 0, v))
        seq += 1
    if layout in (0, 1) and rng.random() < 0.6:
        parts.append(_junk(rng))
    return b''.join(parts), times


def _make_range(q):
    from fusion_engine_client.utils.time_range import TimeRange
    from fusion_engine_client.messages import Timestamp
    if q.get('range') is None:
        return None
    kind, a, b = q['range']
    if kind == 'abs':
        return TimeRange(start=None if a is None else Timestamp(a), end=None if b is None else Timestamp(b), absolute=True)
    return TimeRange(start=a, end=b, absolute=False)


def _read(path, q, **kw):
    from fusion_engine_client.messages import MessageType
    mt = None if q.get('types') is None else [MessageType(t) for t in q['types']]
    return open_log(path, time_range=_make_range(q), message_types=mt, **kw)


def queries(rng, times, types, thorough):
    """Unfiltered, each type (and a pair), and time ranges with one or both bounds AT message times, BETWEEN them (fractional
    seconds on both sides of .5), at the whole seconds around them, absolute and relative to the first time of the log."""
    qs = [{}]
    known = sorted(t for t in types if t in (10000, 10001, 13003, 13004))
    qs += [{'types': [t]} for t in known]
    if len(known) > 1:
        qs.append({'types': known[:2]})
    ts = sorted(set(times))
    bounds = set()
    for j, t in enumerate(ts):
        fl = float(int(t))
        bounds.update([t, fl, fl + 1.0, fl + 0.5, round(t + 0.05, 6), round(t + 0.3, 6)])
        if t - 0.05 >= 0:
            bounds.add(round(t - 0.05, 6))
        if j + 1 < len(ts):
            bounds.add(round((t + ts[j + 1]) / 2, 6))
    bounds = sorted(bounds)
    if not thorough and len(bounds) > 24:
        keep = set(rng.sample(bounds, 24))
        bounds = [b for b in bounds if b in keep]
    for b in bounds:
        qs.append({'range': ('abs', None, b)})
        qs.append({'range': ('abs', b, None)})
    for _ in range(12 if thorough else 4):
        if len(bounds) >= 2:
            a, b = sorted(rng.sample(bounds, 2))
            qs.append({'range': ('abs', a, b)})
            if known:
                qs.append({'range': ('abs', a, b), 'types': [rng.choice(known)]})
    if ts:
        t0 = ts[0]
        rel = sorted(set(round(b - t0, 6) for b in bounds if b >= t0))
        for b in (rel if thorough else rng.sample(rel, min(len(rel), 6))):
            qs.append({'range': ('rel', None, b)})
            qs.append({'range': ('rel', b, None)})
    return qs


def _qkey(q):
    return json.dumps(q, sort_keys=True)


def producers(d):
    """(label, function(dir) -> path of the data file whose .p1i the library has just written). Every one is an unmodified
    library entry point that leaves an index file next to a data file."""
    from fusion_engine_client.parsers import MixedLogReader
    from fusion_engine_client.parsers.file_index import FileIndex, FileIndexBuilder
    from fusion_engine_client.utils import log as felog

    def put(dirp, name):
        p = os.path.join(dirp, name)
        with open(p, 'wb') as f:
            f.write(d)
        return p

    def reader_open(dirp, name='capture.raw'):
        p = put(dirp, name)
        open_log(p)
        return p

    def generate_index_file(dirp):
        p = put(dirp, 'input.p1log')
        MixedLogReader.generate_index_file(p)
        return p

    def fast_indexer_2_threads(dirp):
        from fusion_engine_client.parsers import fast_indexer
        p = put(dirp, 'input.raw')
        fast_indexer.fast_generate_index(p, num_threads=2)
        return p

    def builder_append(dirp):
        p = put(dirp, 'mixed.bin')
        b = FileIndexBuilder()
        r = MixedLogReader(p, ignore_index=True, save_index=False, return_offset=True, num_threads=1)
        for header, payload, off in r:
            b.append(message_type=header.message_type, offset_bytes=off, p1_time=payload.get_p1_time() if payload is not None else None)
        r.input_file.close()
        b.save(FileIndex.get_path(p), p)
        return p

    def builder_from_file(dirp):
        p = put(dirp, 'mixed.p1log')
        b = FileIndexBuilder()
        b.from_file(p)
        b.save(FileIndex.get_path(p), p)
        return p

    def extract_to(dirp):
        p = put(dirp, 'capture.bin')
        out = os.path.join(dirp, 'extracted.p1log')
        felog.extract_fusion_engine_log(p, out)
        return out

    def extract_default_name(dirp):
        p = put(dirp, 'capture.raw')
        felog.extract_fusion_engine_log(p)
        return os.path.join(dirp, 'capture.p1log')

    def extract_in_place(dirp):
        p = put(dirp, 'mixed.p1log')
        felog.extract_fusion_engine_log(p)
        return p

    def extract_over_older_output(dirp):
        # an older, longer output and its index are already there
        out = os.path.join(dirp, 'extracted.p1log')
        with open(out, 'wb') as f:
            f.write(gen.frame(9, bytes(5), 0) * 40)
        open_log(out)
        p = put(dirp, 'capture.bin')
        felog.extract_fusion_engine_log(p, out)
        return out

    def locate_and_extract(dirp):
        p = put(dirp, 'capture.raw')
        got = felog.locate_log(p, extract_fusion_engine_data=True)
        return got if got is not None else os.path.join(dirp, 'capture.p1log')

    def resave_loaded(dirp):
        p = reader_open(dirp, 'input.p1log')
        p1i = FileIndex.get_path(p)
        if os.path.exists(p1i):
            FileIndex(p1i, p).save(p1i, p)
        return p

    def save_full_slice(dirp):
        p = reader_open(dirp, 'input.p1log')
        p1i = FileIndex.get_path(p)
        if os.path.exists(p1i):
            FileIndex(p1i, p)[:].save(p1i, p)
        return p

    return [('MixedLogReader(path)', reader_open), ('MixedLogReader.generate_index_file', generate_index_file),
            ('fast_generate_index(num_threads=2)', fast_indexer_2_threads),
            ('FileIndexBuilder.append-loop+save', builder_append), ('FileIndexBuilder.from_file+save', builder_from_file),
            ('extract_fusion_engine_log(in,out)', extract_to), ('extract_fusion_engine_log(in)', extract_default_name),
            ('extract_fusion_engine_log(in-place)', extract_in_place),
            ('extract_fusion_engine_log(over-older-output)', extract_over_older_output),
            ('locate_log(extract_fusion_engine_data=True)', locate_and_extract),
            ('FileIndex(load).save', resave_loaded), ('FileIndex[:].save', save_full_slice)]
    # (a PARTIAL slice saved under the log's index name is the caller mislabelling a sub-index - the size marker is all the format
    # has to tell indexes of one file apart - and is not one of the library's own ways of writing an index)


def written_indexes(ctx, n_inputs, lines, pending):
    """For every producer of an index file: the index it left must load as the fresh index of the data file (entry for entry) or be
    refused, its bytes must be the ones the Lean model of save() gives for the fresh index, and every read through it - unfiltered,
    by type, by time range - must return what the same read returns with the index ignored (and, unfiltered, the Lean scan)."""
    import shutil
    import tempfile
    rng = ctx.rng
    for i in range(n_inputs):
        if i == n_inputs - 1 and n_inputs > 2:
            d, times = b''.join(x + _junk(rng) for x in ic.boundary_time_messages(rng)), []
        else:
            d, times = timed_mixed_log(rng, i, rng.choice([6, 9, 12]))
        ign_cache = {}
        fresh_cache = {}
        qcache = {}
        seen_pairs = set()
        # the entry points that take no thread count start one indexer process per CPU: all but the first input are processed as
        # on a two-CPU machine (the result may not depend on it; C08 varies the thread count)
        from fusion_engine_client.parsers import fast_indexer
        real_cpu_count = fast_indexer.cpu_count
        for label, fn in producers(d):
            if i > 0:
                fast_indexer.cpu_count = lambda: 2
            dirp = tempfile.mkdtemp(prefix='w_', dir=ic.tmpdir())
            replay = {'producer': label, 'input': d.hex(), 'input_p1_times': times}
            try:
                try:
                    path = fn(dirp)
                except BaseException as e:
                    # what the producers do besides writing an index is the business of other properties; a producer that fails
                    # outright has produced no index to judge - but it is counted, and must not be the normal case
                    ctx.count('producer_raised')
                    ctx.count('producer_raised:%s:%s' % (label, type(e).__name__))
                    continue
                p1i = os.path.splitext(path)[0] + '.p1i'
                if not os.path.exists(path) or not os.path.exists(p1i):
                    ctx.count('producer_left_no_index')
                    continue
                data = open(path, 'rb').read()
                B = open(p1i, 'rb').read()
                replay = dict(replay, data=data.hex(), p1i=B.hex(), truncate_p1i_to=len(B), file_name=os.path.basename(path))
                ctx.count('index_files_written')
                ctx.count('written_by:' + label)

                def restore():
                    if not os.path.exists(p1i) or open(p1i, 'rb').read() != B:
                        with open(p1i, 'wb') as f:
                            f.write(B)

                # the fresh index of the data file as it is now
                if data not in fresh_cache:
                    fresh_cache[data] = ic.run_indexer(path, 1, save_index=False)
                    restore()
                res = fresh_cache[data]
                if res[0] == 'raise':
                    ctx.violation('C09/indexing-raised', res[1], replay)
                    continue
                recs = ','.join('%s:%d:%d' % ('n' if t is None else t, ty, o) for o, ty, t in zip(res[1], res[2], res[3]))
                got = load_index(p1i, path, delete_on_error=False)
                accepted = got.startswith('ok')
                ctx.case('written' + json.dumps([label, d.hex()]), nontrivial=True)
                if accepted:
                    ctx.count('written_index_accepted')
                    if got != 'ok ' + recs:
                        ctx.violation('C09/saved-index-differs-from-fresh',
                                      'the index written by %s loads as (time:type:offset) %s; a fresh index of the same data file is %s'
                                      % (label, got[3:200], recs[:200]), replay)
                    else:
                        # byte for byte what the model's save() writes for the fresh index
                        lines.append('p1isave %d %s' % (len(data), recs or '-'))
                        pending.append(('save', replay, B.hex()))
                elif got.startswith('ValueError'):
                    ctx.count('written_index_refused')
                    ctx.count('written_index_refused:' + label)
                else:
                    ctx.violation('C09/index-left-on-disk-load-raised', '%s: %s' % (label, got), replay)
                    continue
                # reads through the written index vs the same reads with the index ignored
                if data not in qcache:
                    qcache[data] = queries(rng, times, set(res[2]), ctx.thorough)
                qs = qcache[data]
                if not ctx.thorough:
                    # quick tier: the full set of reads for every distinct (data file, index file) content; for a producer that
                    # wrote the very bytes another one already wrote for the same data, the unfiltered read and a sample
                    if (data, B) in seen_pairs:
                        qs = qs[:1] + rng.sample(qs[1:], min(6, len(qs) - 1))
                    seen_pairs.add((data, B))
                for q in qs:
                    key = (data, _qkey(q))
                    restore()
                    via = _read(path, q, save_index=False)
                    if accepted and (not os.path.exists(p1i) or open(p1i, 'rb').read() != B):
                        ctx.count('written_index_replaced_during_read')
                    if key not in ign_cache:
                        ign_cache[key] = _read(path, q, ignore_index=True, save_index=False)
                    ign = ign_cache[key]
                    restore()
                    rq = dict(replay, query=q)
                    ctx.case('via' + json.dumps([label, d.hex(), q], sort_keys=True), nontrivial=True)
                    ctx.count('reads_through_written_index')
                    if 'range' in q:
                        ctx.count('time_range_reads_through_written_index')
                    if not q:
                        pending.append(('open', rq, via, data))          # unfiltered: also against the Lean scan of the data
                    if via[0] == 'raise':
                        if ign[0] != 'raise':
                            ctx.violation('C09/read-through-saved-index-raised', '%s, query %s: %s (index ignored: %d messages)'
                                          % (label, _qkey(q), via[1], len(ign[1])), rq)
                    elif ign[0] == 'raise':
                        ctx.count('index_ignored_read_raised')
                    elif via[1] != ign[1]:
                        ctx.violation('C09/read-through-saved-index-differs',
                                      'index written by %s, read %s: through the saved index -> (offset, ordinal) %s; with the index '
                                      'ignored -> %s' % (label, _qkey(q), via[1][:12], ign[1][:12]), rq)
            finally:
                fast_indexer.cpu_count = real_cpu_count
                shutil.rmtree(dirp, ignore_errors=True)


def run(ctx, budget):
    rng = ctx.rng
    lines, pending = [], []
    scripted_histories(ctx, pending)
    for _ in range(budget):
        d, kinds = gen.small_file(rng, rng.choice([1, 2, 3, 5]), 64, 'VVUUWCTSJ', pad=rng.choice([0, 5]))
        one_log(ctx, d, kinds, lines, pending)
    # message-only logs (no junk after the last message: the marker-less fallback can accept)
    for i in range(budget):
        d, kinds = gen.small_file(rng, rng.choice([1, 2, 4]), 64, 'VU')
        one_log(ctx, d, kinds, lines, pending, name=['t.p1log', 'capture.raw', 'mixed.bin'][i % 3])
    # logs of real timed / untimed messages, including P1 times in the first second after start-up and NaN times
    from props import reader_common as rc
    for i in range(max(3, budget // 2)):
        d = rc.make_log(rng, rng.choice([2, 4, 7]), junk=(i % 2 == 0), t_start=[0.0, 0.25, 0.75, 1.0, 100.25][i % 5],
                        step_choices=(0, 0.25, 0.25, 0.5, 1, 2))
        ic.rebind(80 * 1024, 16 * 1024)
        one_log(ctx, d, 'timed', lines, pending)
        ctx.count('timed_logs')
    one_log(ctx, b''.join(ic.boundary_time_messages(rng)), 'boundary-times', lines, pending)
    one_log(ctx, b'', 'empty', lines, pending)
    one_log(ctx, b'\x01\x02\x03', 'junk', lines, pending)
    histories(ctx, budget * 20, lines, pending)
    written_indexes(ctx, 8 if budget >= 10 else 3, lines, pending)
    outs = ctx.driver(lines)
    opens = [p for p in pending if p[0] == 'open']
    fresh = scan_oracle(ctx, [p[3] for p in opens])
    li = 0
    for p in pending:
        if p[0] in ('save', 'load'):
            mo = outs[li]
            li += 1
            if p[2] != mo:
                ctx.disagree('%s: implementation %s, model %s' % (p[0], p[2][:150], mo[:150]), p[1])
            ctx.case(lines[li - 1])
            ctx.cov['traces_validated_against_impl'] += 1
    ondisk = [p for p in pending if p[0] == 'ondisk']
    for p, fr in zip(ondisk, scan_oracle(ctx, [p[3] for p in ondisk])):
        _, replay, got, d2 = p
        ctx.case('ondisk' + json.dumps(replay, sort_keys=True), nontrivial=True)
        if got.startswith('ok'):
            offs = [int(x.split(':')[2]) for x in got[3:].split(',') if x]
            if offs != fr:
                ctx.violation('C09/index-left-on-disk-differs-from-fresh', 'the index file the last open left on disk loads with offsets %s, '
                              'a fresh scan of the data gives %s' % (offs[:12], fr[:12]), replay)
        elif not got.startswith('ValueError'):
            ctx.violation('C09/index-left-on-disk-load-raised', got, replay)
    for p, fr in zip(opens, fresh):
        _, replay, r, d2 = p
        ctx.case('open' + json.dumps(replay, sort_keys=True), nontrivial=True)
        if r[0] == 'raise':
            ctx.violation('C09/open-raised:' + r[1].split(':')[0], 'opening the log raised %s' % r[1], replay)
        else:
            got = [o for o, _ in r[1]]
            if got != fr:
                ctx.violation('C09/stale-index-used', 'reader returned offsets %s, a fresh scan of the data gives %s' % (got[:12], fr[:12]), replay)
            elif [i for _, i in r[1]] != list(range(len(got))):
                ctx.violation('C09/ordinals-wrong', 'message indices %s' % [i for _, i in r[1]][:12], replay)
    for p in pending[:400:97]:
        if p[0] == 'load':
            ctx.sample({'p1i_bytes_kept': p[1]['truncate_p1i_to'], 'of': len(p[1]['p1i']) // 2, 'data_variant': p[1]['data_variant'], 'load': p[2][:80]})


def search(ctx):
    run(ctx, 12)


def check(ctx):
    ctx.cov['rule'] = ('generated logs (mixed content and message-only) indexed and saved by the real code; then for EVERY truncation '
                       'length 0..len of the .p1i (all lengths for the unchanged data file and for data truncated at message ends; lengths '
                       '= 0,1,13 mod 14 for other variants in the quick tier) x data variants {same, message appended, junk appended, '
                       'empty, truncated at random points and at message ends}: FileIndex(load) vs the Lean model, and MixedLogReader '
                       'vs a fresh scan; plus random histories of open/append/truncate-data/truncate-index; plus every library entry point that '
                       'writes an index file (MixedLogReader open, generate_index_file, fast_generate_index, FileIndexBuilder append-loop '
                       'and from_file, extract_fusion_engine_log to a new / default / in-place / already existing output, locate_log with '
                       'extraction, FileIndex load+save and [:]+save) run on captures with junk before/between/after the messages and '
                       'P1 times whose fractional seconds cover [0,1): the written index must load as the fresh index of its data '
                       'file (and be the bytes the model saves for it) or be refused, and unfiltered / per-type / time-range reads '
                       '(bounds at, between and at the whole seconds around message times, absolute and relative) through it must '
                       'equal the same reads with the index ignored; distinct = distinct request')
    ctx.assumptions += ['file system: np.fromfile reads floor(len/14) whole records; save() removes the old file then writes with one '
                        'tofile(); a crash during save is modelled as any prefix of the bytes',
                        'data-file changes considered: append and truncate (the property\'s history alphabet), not arbitrary replacement']
    ctx.prove(MODULES)
    try:
        run(ctx, 10 if ctx.thorough else 3)
    except fv.InfraError:
        if not ctx.proof_failures:
            raise
    return fv.finish(ctx, 'proof', search)


def replay(ctx, path):
    obj = json.load(open(path))
    r = obj['input']
    d2 = bytes.fromhex(r['data'])
    p = ic.write_log(d2)
    p1i = os.path.splitext(p)[0] + '.p1i'
    if 'p1i' in r:
        open(p1i, 'wb').write(bytes.fromhex(r['p1i'])[:r['truncate_p1i_to']])
    if r.get('query'):
        B = bytes.fromhex(r['p1i'])
        via = _read(p, r['query'], save_index=False)
        open(p1i, 'wb').write(B)
        ign = _read(p, r['query'], ignore_index=True, save_index=False)
        print('query', r['query'], 'through the saved index:', via, 'index ignored:', ign)
        if via != ign:
            ctx.violation('C09/replay', 'replayed', r)
        return fv.finish(ctx, 'proof', None)
    res = open_log(p)
    fresh = scan_oracle(ctx, [d2])[0]
    print('open:', res, 'fresh scan:', fresh)
    if res[0] == 'raise' or [o for o, _ in res[1]] != fresh:
        ctx.violation('C09/replay', 'replayed', r)
    return fv.finish(ctx, 'proof', None)
