"""C10 - filtered log reads return exactly the matching messages, in file order."""
import itertools
import json
import os
import struct

import canon
import fv
import gen
from props import index_common as ic
from props import reader_common as rc

MODULES = ['FeVerif.Props.C10']

# Largest P1 time a message can carry (seconds field 0xFFFFFFFE; all-ones means "no time").
T_MAX = float(0xFFFFFFFE) + 0.75
# Base P1 time of a generated log, by magnitude: a freshly booted device (the values every repository test uses), then the places
# where an intermediate representation narrower than a double / a 32-bit unsigned second count would lose whole seconds:
# float32 mantissa (2^24, 2^25, 2^26), signed 32-bit (2^31), typical GPS-time-of-epoch values (1.2e9 .. 1.5e9), the top of the
# 32-bit seconds field. All multiples of 0.25 s below 2^32, hence exact doubles.
T0_POOL = {
    'boot': [0.0, 1.0, 2.5, 10.0, 100.25],
    'days': [86400.0 * 3 + 0.5, 1e6, 1e7 + 0.25],
    '2^24': [2.0 ** 24 + d for d in (-40, -3, -1, 0, 1, 2.25, 1000)] + [2.0 ** 25 - 2, 2.0 ** 25 + 1, 2.0 ** 26 + 3, 1e8 + 1],
    'gps': [1.2e9 + 7, 1261872018.0, 1.4e9 + 0.5, 1443657600.0 + 17, 1.5e9 + 3.75],
    '2^31': [2.0 ** 31 + d for d in (-50, -2, -1, 0, 1.5, 1001)] + [3e9 + 1],
    'top': [float(0xFFFFFFFE) - d for d in (0, 1, 3, 40, 200, 5000.5)],
}


def read_filtered(path, types, tr, sources, max_bytes, flags, require_p1=False, style=0, via='ctor'):
    """style: how the caller spells the same request (enum list / payload classes / single value; read_next loop / iteration)."""
    from fusion_engine_client.parsers import MixedLogReader
    from fusion_engine_client.messages import MessageType, message_type_to_class
    kw = dict(zip(['return_header', 'return_payload', 'return_bytes', 'return_offset', 'return_message_index'], flags))
    try:
        mt = None
        if types is not None:
            enums = [MessageType(t, raise_on_unrecognized=False) for t in types]
            classes = [message_type_to_class.get(e) for e in enums]
            if style % 3 == 1 and all(c is not None for c in classes):
                mt = classes if len(classes) != 1 else classes[0]
            elif style % 3 == 2:
                mt = tuple(enums) if len(enums) != 1 else enums[0]
            else:
                mt = set(enums)
        if isinstance(sources, list) and len(sources) == 1 and style % 2 == 1:
            sources = sources[0]
        fobj = None
        if style // 6 % 3 == 2:
            # the reader is given an open file object, and a second reader shares it and is read alternately
            fobj = open(path, 'rb')
            r = MixedLogReader(fobj, num_threads=1, time_range=tr, source_ids=sources, max_bytes=max_bytes, message_types=mt, **kw)
            other = MixedLogReader(fobj, num_threads=1, return_header=True, return_payload=False)
        elif via == 'filter_in_place' and tr is not None:
            # the same criterion stated on a reader before its first read (the caller's TimeRange object is handed over as it is)
            r = MixedLogReader(path, num_threads=1, source_ids=sources, max_bytes=max_bytes, message_types=mt, **kw)
            r.filter_in_place(tr)
            other = None
        else:
            r = MixedLogReader(path, num_threads=1, time_range=tr, source_ids=sources, max_bytes=max_bytes, message_types=mt, **kw)
            other = None
        out = []
        if style // 6 % 3 != 0:
            # something else uses the reader's file between two reads: parse_entry_at_index() (as the analysis tool does), or
            # the second reader on the same file object
            entries = [e for e in r.get_index()] if style // 6 % 3 == 1 else []
            k = 0
            while True:
                try:
                    out.append(r.read_next(require_p1_time=require_p1))
                except StopIteration:
                    break
                if other is not None:
                    try:
                        other.read_next()
                    except StopIteration:
                        other.rewind()
                elif entries:
                    r.parse_entry_at_index(entries[(7 * k + 3) % len(entries)])
                    k += 1
            (fobj or r.input_file).close()
            return ('ok', out)
        if style % 2 == 1 and not require_p1:
            out = [x for x in r]          # the iterator protocol
        while not (style % 2 == 1 and not require_p1):
            try:
                out.append(r.read_next(require_p1_time=require_p1))
            except StopIteration:
                break
        r.input_file.close()
        return ('ok', out)
    except BaseException as e:
        return ('raise', type(e).__name__ + ': ' + str(e)[:100])


def make_range(rng, msgs):
    from fusion_engine_client.utils.time_range import TimeRange
    from fusion_engine_client.messages import Timestamp
    ts = [m['timeNs'] for m in msgs if m['timeNs'] is not None]
    lo = (min(ts) / rc.NS) if ts else 1.0       # multiples of 0.25 s below 2^32: exact
    hi = (max(ts) / rc.NS) if ts else 5.0
    kind = rng.choice(['abs', 'abs', 'rel', 'rel', 'rel-t0'])
    grid = [None, 0.0, 0.25, 1.0, 1.5, 2.0, 3.0, 7.75, hi - lo, hi - lo + 0.25, hi - lo + 5, 1000.0]
    if kind == 'abs':
        grid = [None, lo - 1 if lo >= 1 else 0.0, lo, lo + 0.25, lo + 1, lo + 1.5, (lo + hi) / 2 // 0.25 * 0.25, hi, hi + 0.25, hi + 3, hi + 1000]
    # whole-second bounds at, just before and just after the (floored) time of some message of the log - wherever it lies in the
    # log and whatever the magnitude of its time: the place where "exact for whole seconds" is decided
    origin = 0 if kind == 'abs' else int(lo)
    near = [float(max(0, t // rc.NS + d - origin)) for t in rng.sample(ts, min(len(ts), 2)) for d in (-1, 0, 1, 2)]
    if near and rng.random() < 0.3:
        grid = near + [None]
    else:
        grid = grid + near
    s = rng.choice(grid)
    e = rng.choice(grid + [float('inf')])
    if s is not None and e is not None and e < s:
        s, e = e, s
    if kind == 'abs':
        trd = {'kind': kind, 'start': s, 'end': e, 'spelling': rng.randrange(4)}
        return range_from_dict(trd), trd
    if kind == 'rel':
        return TimeRange(start=s, end=e, absolute=False), {'kind': kind, 'start': s, 'end': e}
    t0 = rng.choice([lo, lo + 0.5, float(int(lo))])
    return TimeRange(start=s, end=e, absolute=False, p1_t0=Timestamp(t0)), {'kind': kind, 'start': s, 'end': e, 't0': t0}


def range_from_dict(trd):
    from fusion_engine_client.utils.time_range import TimeRange
    from fusion_engine_client.messages import Timestamp
    if trd is None:
        return None
    if trd['kind'] == 'abs':
        s, e, sp = trd['start'], trd['end'], trd.get('spelling', 0)
        ts = lambda x: None if x is None else Timestamp(x)
        # the same absolute range spelled differently: `absolute` omitted and inferred from a Timestamp bound
        if sp == 1 and (s is not None or e is not None):
            return TimeRange(start=ts(s), end=ts(e))
        if sp == 2 and e is not None and e != float('inf'):
            return TimeRange(start=s, end=ts(e))
        if sp == 3 and s is not None:
            return TimeRange(start=ts(s), end=e)
        return TimeRange(start=s, end=e, absolute=True)
    if trd['kind'] == 'rel':
        return TimeRange(start=trd['start'], end=trd['end'], absolute=False)
    return TimeRange(start=trd['start'], end=trd['end'], absolute=False, p1_t0=Timestamp(trd['t0']))


def intent_text(trd):
    """The requested range as the documentation defines it, independent of the TimeRange object: absolute ranges are
    absolute however they are spelled; an absolute start of 0 and an infinite end are open bounds."""
    if trd is None:
        return '-'

    def f(x):
        return 'n' if x is None else str(rc.to_ns(x, exact=True))
    s, e = trd['start'], trd['end']
    if e is not None and e == float('inf'):
        e = None
    if trd['kind'] == 'abs':
        if s is not None and s == 0.0:
            s = None
        return ','.join(['a', f(s), f(e), 'n'])
    return ','.join(['r', f(s), f(e), f(trd.get('t0'))])


def one_case(ctx, data, path, msgs, lines, pending, flags=None, fixed=None, shared=None):
    rng = ctx.rng
    alltypes = sorted(set(m['type'] for m in msgs)) or [10000]
    via = 'ctor'
    rt_before = None
    if shared is not None:      # criteria OBJECTS the caller built once and uses for several logs
        types, (tr, trd), sources, max_bytes, via = shared['types'], shared['range'], shared['sources'], None, shared['via']
        rt_before = rc.range_text(tr, exact=True)
    elif fixed is not None:       # a recorded case (corpus / replay)
        types, trd, sources, max_bytes = fixed['types'], fixed['time_range'], fixed['sources'], fixed['max_bytes']
        tr = range_from_dict(trd)
        flags = tuple(fixed.get('flags', [True, False, False, True, True]))
    else:
        types = rng.choice([None, None, [rng.choice(alltypes)], rng.sample(alltypes, min(len(alltypes), 2)), [13004], [424]])
        if rng.random() < 0.65:
            tr, trd = make_range(rng, msgs)
        else:
            tr, trd = None, None
        srcs = sorted(set(m['src'] for m in msgs)) or [0]
        sources = rng.choice([None, None, [rng.choice(srcs)], srcs[:2], [77]])
        max_bytes = rng.choice([None, None, None, 0, 23, 24, len(data) // 2, max(0, len(data) - 1), len(data), len(data) + 10] +
                               ([msgs[len(msgs) // 2]['offset'] + msgs[len(msgs) // 2]['size']] if msgs else []))
    if flags is None:
        flags = tuple(rng.random() < 0.6 for _ in range(5))
    require_p1 = False      # read_next(require_p1_time=...) is not one of the property's criteria (a NaN P1 time counts as present there)
    style = (fixed or {}).get('style', rng.randrange(6) + 6 * rng.choice([0, 0, 0, 1, 2]))
    if fixed is not None and fixed.get('via'):
        via = fixed['via']
    res = read_filtered(path, types, tr, sources, max_bytes, flags, require_p1, style, via)
    rt = rt_before or rc.range_text(tr, exact=True)     # what the constructed TimeRange object says (input of the literal model)
    it = intent_text(trd)                  # what was asked for (input of the specification)
    fmt = '%s %s %%s %s %s' % (rc.log_text(msgs), '-' if types is None else ','.join(map(str, types)),
                               '-' if sources is None else ','.join(map(str, sources)), 'n' if max_bytes is None else max_bytes)
    # the literal model of the route taken: the constructor's chain, or the constructor without the range followed by
    # filter_in_place(range) (which slices the type-filtered index)
    routed = via == 'filter_in_place' and tr is not None and style // 6 % 3 != 2
    lines.append(('rdreadfip ' if routed else 'rdread ') + (fmt % rt) + (' 1' if require_p1 else ' 0'))
    lines.append('rdspec ' + (fmt % it))
    replay = {'file': data.hex(), 'types': types, 'time_range': trd, 'sources': sources, 'max_bytes': max_bytes, 'flags': list(flags),
              'require_p1': require_p1, 'style': style}
    if via != 'ctor':
        replay['via'] = via
    if shared is not None:
        replay['criteria_objects_used_before_on'] = list(shared['used_on'])
        shared['used_on'].append(data.hex())
    pending.append((replay, res, flags, msgs, data))


def judge(ctx, replay, res, flags, msgs, data, model_out, spec_out):
    if replay.get('require_p1') and spec_out not in ('IndexError', 'bad-args'):
        # read_next(require_p1_time=True): additionally only messages carrying a valid P1 time
        spec_out = ','.join(x for x in spec_out.split(',') if x and msgs[int(x)]['timeNs'] is not None)
    # Finding C10/filter-in-place-time-range-on-type-filtered-reader: filter_in_place(time range) on a reader constructed with
    # a type filter slices the type-filtered index. A result that differs from the specification is attributed to it only
    # on that call form and only if it is exactly what that mechanism computes (the Lean route model); anything else is
    # reported under the general signatures.
    fip = replay.get('via') == 'filter_in_place' and replay.get('types') is not None and replay.get('time_range') is not None \
        and replay.get('style', 0) // 6 % 3 != 2
    FIP_SIG = 'C10/filter-in-place-time-range-on-type-filtered-reader'
    if res[0] == 'raise':
        kind = res[1].split(':')[0]
        if model_out != kind:
            ctx.disagree('reader raised %s, model says %s' % (res[1], model_out[:60]), replay)
        if spec_out != kind:
            ctx.violation('C10/read-raised:' + kind, 'filtered read raised %s' % res[1], replay)
        else:
            ctx.count('raise_expected_' + kind)
        return
    out = res[1]
    # identify returned messages: by message index / offset / bytes / header when available
    names = [n for n, f in zip(['header', 'payload', 'bytes', 'offset', 'index'], flags) if f]
    by_off = {m['offset']: m for m in msgs}
    got = []
    search_from = 0
    import numbers
    from fusion_engine_client.messages import MessageHeader, MessagePayload

    def piece_ok(name, v):
        if name == 'header':
            return isinstance(v, MessageHeader)
        if name == 'payload':
            return v is None or isinstance(v, MessagePayload)
        if name == 'bytes':
            return isinstance(v, (bytes, bytearray, memoryview))
        return isinstance(v, numbers.Integral) or hasattr(v, '__index__')
    for tup in out:
        if len(tup) != len(names) or not all(piece_ok(n, v) for n, v in zip(names, tup)):
            ctx.violation('C10/result-shape-wrong',
                          'with return flags (header, payload, bytes, offset, index) = %s the reader returned %s' %
                          (list(flags), [type(v).__name__ for v in tup]), replay)
            return
        d = dict(zip(names, tup))
        o = None
        if 'index' in d:
            o = int(d['index'])
        elif 'offset' in d:
            o = by_off.get(int(d['offset']), {'ordinal': -1})['ordinal']
        elif 'bytes' in d:
            # messages come in file order; identical byte strings may occur more than once in a log
            i = data.find(bytes(d['bytes']), search_from)
            while i != -1 and i not in by_off:
                i = data.find(bytes(d['bytes']), i + 1)
            o = by_off.get(i, {'ordinal': -1})['ordinal']
            if i != -1:
                search_from = i + 1
        got.append((o, d))
    if 'index' not in names and 'offset' not in names and 'bytes' in names and spec_out != 'IndexError':
        # identical byte strings can occur more than once in a log: compare the byte sequences themselves
        spec_ords = [int(x) for x in spec_out.split(',') if x]
        spec_bytes = [data[msgs[o]['offset']:msgs[o]['offset'] + msgs[o]['size']] for o in spec_ords]
        if [bytes(d['bytes']) for _, d in got] == spec_bytes:
            got = [(o, d) for o, (_, d) in zip(spec_ords, got)]
    ords = [o for o, _ in got]
    identifiable = any(f for f in flags[2:])
    if identifiable:
        if ','.join(map(str, ords)) != model_out:
            ctx.disagree('reader returned ordinals %s, model %s' % (ords[:20], model_out[:80]), replay)
        if ','.join(map(str, ords)) != spec_out:
            if fip and ','.join(map(str, ords)) == model_out:
                ctx.violation(FIP_SIG, 'MixedLogReader(message_types=%s).filter_in_place(time range) returned messages %s, the '
                              'matching messages of the unfiltered read are [%s]' % (replay['types'], ords[:30], spec_out[:120]), replay)
                ctx.count('finding_filter_in_place_after_types_reproduced')
                return
            ctx.violation('C10/filtered-read-differs-from-spec',
                          'reader returned messages %s, the matching messages of the unfiltered read are [%s]' % (ords[:30], spec_out[:120]), replay)
            return
    else:
        n_spec = len([x for x in spec_out.split(',') if x]) if spec_out != 'IndexError' else -1
        if len(out) != n_spec:
            if fip and model_out not in ('IndexError', 'bad-args') and len(out) == len([x for x in model_out.split(',') if x]):
                ctx.violation(FIP_SIG, 'MixedLogReader(message_types=%s).filter_in_place(time range) returned %d messages, '
                              'spec has %d' % (replay['types'], len(out), n_spec), replay)
                ctx.count('finding_filter_in_place_after_types_reproduced')
                return
            ctx.violation('C10/filtered-read-differs-from-spec', 'reader returned %d messages, spec has %d' % (len(out), n_spec), replay)
            return
        got = [(int(o), d) for o, (_, d) in zip([x for x in spec_out.split(',') if x], got)]
    # consistency of the pieces
    for o, d in got:
        m = msgs[o] if 0 <= o < len(msgs) else None
        if m is None:
            ctx.violation('C10/unknown-message-returned', 'returned message is not one of the unfiltered read', replay)
            return
        raw = data[m['offset']:m['offset'] + m['size']]
        if 'offset' in d and int(d['offset']) != m['offset']:
            ctx.violation('C10/pieces-inconsistent:offset', 'offset %s for message %d at %d' % (d['offset'], o, m['offset']), replay)
        if 'index' in d and int(d['index']) != m['ordinal']:
            ctx.violation('C10/pieces-inconsistent:index', 'message index %s, ordinal %d' % (d['index'], m['ordinal']), replay)
        if 'bytes' in d and bytes(d['bytes']) != raw:
            ctx.violation('C10/pieces-inconsistent:bytes', 'bytes differ from the file at the message offset (message %d)' % o, replay)
        if 'header' in d:
            h = d['header']
            f = struct.unpack_from('<BBHIBBHIII', raw, 0)
            if (int(h.crc), int(h.message_type), int(h.sequence_number), int(h.payload_size_bytes), int(h.source_identifier)) != \
                    (f[3], f[6], f[7], f[8], f[9]):
                ctx.violation('C10/pieces-inconsistent:header', 'header differs from the bytes of message %d' % o, replay)
        if 'payload' in d:
            from props import decoder_common as dc
            exp = dc.expected_contents(raw)
            gotp = canon.canon(d['payload']) if d['payload'] is not None else None
            if gotp is None:
                if not (isinstance(exp, tuple) and exp and exp[0] == 'b'):
                    ctx.violation('C10/pieces-inconsistent:payload', 'payload None although message %d decodes' % o, replay)
            elif repr(gotp) != repr(exp):
                ctx.violation('C10/pieces-inconsistent:payload', 'payload differs from decoding the bytes of message %d' % o, replay)
    ctx.count('messages_returned', len(out))


def run(ctx, budget):
    rng = ctx.rng
    lines, pending = [], []
    for k, r in enumerate(fv.corpus('C10')):      # regression corpus first
        if 'file' in r and 'types' in r:
            data = bytes.fromhex(r['file'])
            path = ic.write_log(data, 'c10_corpus_%d.p1log' % k)
            one_case(ctx, data, path, rc.unfiltered(path, exact=True), lines, pending, fixed=r)
            ctx.count('corpus_cases')
    for _ in range(budget):
        srcs = rng.choice([(0,), (0, 1), (0, 1, 5)])
        mag = rng.choice(['boot', 'boot', 'boot', 'days', '2^24', '2^24', 'gps', 'gps', '2^31', 'top'])
        base = rng.choice(T0_POOL[mag])
        ctx.count('logs_with_base_time_' + mag)
        data = rc.make_log(rng, rng.choice([0, 1, 3, 6, 10, 16, 30]), sources=srcs, untimed_first=rng.choice([None, None, 2]),
                           t_start=base, t_max=T_MAX)
        if rng.random() < 0.15:    # a source id that first appears after the 10th message of its type
            later_t = 200.0 if mag == 'boot' else base + 200.0
            data += rc.make_log(rng, 25, sources=(0,), t_start=min(later_t, T_MAX), t_max=T_MAX) + \
                rc.make_log(rng, 5, sources=(9,), t_start=min(later_t + 100.0, T_MAX), t_max=T_MAX)
        path = ic.write_log(data)
        try:
            msgs = rc.unfiltered(path, exact=True)
        except BaseException as e:
            ctx.violation('C10/unfiltered-read-raised', '%s: %s' % (type(e).__name__, e), {'file': data.hex()})
            continue
        if [m['ordinal'] for m in msgs] != list(range(len(msgs))):
            ctx.violation('C10/message-index-not-the-ordinal', 'the unfiltered read of a freshly indexed log reports message indices %s; '
                          'the index of a message is its ordinal among all messages in the file, 0..%d'
                          % ([m['ordinal'] for m in msgs][:16], len(msgs) - 1), {'file': data.hex()})
        for _ in range(6 if not ctx.thorough else 12):
            one_case(ctx, data, path, msgs, lines, pending)
        # all 32 flag combinations on one criteria choice
        if rng.random() < (0.5 if ctx.thorough else 0.12):
            for flags in itertools.product([False, True], repeat=5):
                one_case(ctx, data, path, msgs, lines, pending, flags=flags)
    # criteria objects built once and used for several logs (a script that loops over a directory of logs with one TimeRange,
    # one list of types, one list of source ids): what the second log returns must not depend on the first. The logs start at
    # different P1 times; the range is handed to the constructor or to filter_in_place() of a fresh reader.
    for k in range(max(4, budget // 6)):
        logs = []
        for base in rng.sample(T0_POOL['boot'] + T0_POOL['days'] + T0_POOL['gps'], 3 if k % 3 == 0 else 2):
            d = rc.make_log(rng, rng.choice([6, 10, 16]), sources=(0, 1), t_start=base, t_max=T_MAX)
            pth = ic.write_log(d, 'c10_shared_%d_%d.p1log' % (k, len(logs)))
            try:
                logs.append((d, pth, rc.unfiltered(pth, exact=True)))
            except BaseException:
                pass
        if len(logs) < 2:
            continue
        for _try in range(8):
            rg = make_range(rng, logs[0][2])
            if rg[1]['kind'] == ('rel' if k % 4 != 3 else rg[1]['kind']):
                break
        shared = {'types': rng.choice([None, None, [10000], [10000, 10001]]), 'range': rg, 'sources': rng.choice([None, None, [0], [0, 1]]),
                  'via': 'filter_in_place' if k % 2 == 0 else 'ctor', 'used_on': []}
        for d, pth, ms in logs + logs[:1]:
            one_case(ctx, d, pth, ms, lines, pending, shared=shared)
            ctx.count('reads_with_criteria_objects_shared_between_logs')
    # a byte-limited read as the FIRST reader of a fresh log (no index file yet; small block constants so that the limited
    # index really is partial) must not influence what later readers of the same file return
    later = []
    for k in range(max(3, budget // 8)):
        data = rc.make_log(rng, rng.choice([6, 10, 16]), sources=(0, 1), junk=(k % 2 == 0))
        ic.rebind(512, 512)
        path = ic.write_log(data, 'c10_limited_first_%d.p1log' % k)
        for f in (os.path.splitext(path)[0] + '.p1i',):
            if os.path.exists(f):
                os.remove(f)
        mb = rng.choice([200, 400, 600, max(1, len(data) // 2)])
        first = read_filtered(path, None, None, None, mb, (False, False, False, True, False))
        after = read_filtered(path, None, None, None, None, (False, False, False, True, False))
        ic.rebind(80 * 1024, 16 * 1024)
        later.append(({'file': data.hex(), 'first_reader_max_bytes': mb, 'block_constants': [512, 512]}, first, after, data))
        ctx.count('byte_limited_first_reader_cases')
    scans = ctx.driver(['scanfile %s' % d.hex() for _, _, _, d in later]) if later else []
    for (replay, first, after, d), sc in zip(later, scans):
        want = [int(x.split(':')[0]) for x in sc.split(',') if x]
        if after[0] != 'ok':
            ctx.violation('C10/read-after-byte-limited-read-raised', after[1], replay)
        elif [int(x[0]) for x in after[1]] != want:
            ctx.violation('C10/byte-limited-read-leaks-into-later-reads', 'after a first reader with max_bytes=%d, an unfiltered reader of the '
                          'same file returns offsets %s; the file holds messages at %s' % (replay['first_reader_max_bytes'],
                                                                                          [int(x[0]) for x in after[1]][:12], want[:12]), replay)
    outs = ctx.driver(lines)
    for i, p in enumerate(pending):
        judge(ctx, *p, outs[2 * i], outs[2 * i + 1])
        ctx.case(lines[2 * i], nontrivial=len(p[3]) > 0)
        ctx.cov['traces_validated_against_impl'] += 1
    for i in range(0, min(len(pending), 400), 131):
        ctx.sample({'criteria': {k: pending[i][0][k] for k in ('types', 'time_range', 'sources', 'max_bytes', 'flags')},
                    'messages_in_log': len(pending[i][3]), 'model': outs[2 * i][:80], 'spec': outs[2 * i + 1][:80]})


def search(ctx):
    run(ctx, 150)


def check(ctx):
    ctx.cov['rule'] = ('generated logs (P1-timed messages of two classes with non-decreasing quarter-second times, timed classes with '
                       'invalid time, untimed classes, unknown types, junk, 1-3 source ids incl. one first used after the 10th message '
                       'of its type) x type subsets x absolute/relative/preset-t0 ranges with open/closed, integral/fractional ends '
                       'inside, at the edges of and outside the log and whole-second ends at/around message times; base P1 time of '
                       'the log from a pool of magnitudes (boot, days, 2^24.., GPS-like 1.2e9-1.5e9, 2^31, top of the 32-bit seconds '
                       'field) x source sets x max_bytes at boundaries x return_* flags (random + '
                       'all 32 combinations); non-trivial = non-empty log; distinct = distinct model request')
    ctx.assumptions += ['times in generated logs are multiples of 0.25 s below 2^32, so double arithmetic (t0 + relative bound, floor) is '
                        'exact; seconds -> nanoseconds for model and spec by rational arithmetic',
                        'the unfiltered read of the real reader defines the log handed to model and spec']
    ctx.prove(MODULES)
    try:
        run(ctx, 400 if ctx.thorough else 120)
    except fv.InfraError:
        if not ctx.proof_failures:
            raise
    return fv.finish(ctx, 'proof', search)


def replay(ctx, path):
    obj = json.load(open(path))
    r = obj['input']
    print(json.dumps({k: v for k, v in r.items() if k != 'file'}))
    data = bytes.fromhex(r['file'])
    p = ic.write_log(data)
    lines, pending = [], []
    if r.get('criteria_objects_used_before_on') is not None:
        # the criteria objects are built once and used on the earlier logs first, as in the recorded run
        shared = {'types': r['types'], 'range': (range_from_dict(r['time_range']), r['time_range']), 'sources': r['sources'],
                  'via': r.get('via', 'ctor'), 'used_on': []}
        for k, h in enumerate(r['criteria_objects_used_before_on']):
            d0 = bytes.fromhex(h)
            p0 = ic.write_log(d0, 'c10_replay_%d.p1log' % k)
            one_case(ctx, d0, p0, rc.unfiltered(p0, exact=True), [], [], flags=tuple(r['flags']), shared=shared)
        one_case(ctx, data, p, rc.unfiltered(p, exact=True), lines, pending, flags=tuple(r['flags']), shared=shared)
    else:
        one_case(ctx, data, p, rc.unfiltered(p, exact=True), lines, pending, fixed=r)
    outs = ctx.driver(lines)
    judge(ctx, *pending[0], outs[0], outs[1])
    return fv.finish(ctx, 'proof', None)
