"""C11 - the log reader is a correct cursor over the filtered list after any history."""
import itertools
import json

import fv
from props import index_common as ic
from props import reader_common as rc

MODULES = ['FeVerif.Props.C11']


def apply_ops(path, ops):
    """Run an operation script on the real reader. Returns (results, next_index_elem, len(index)) or ('raise', text)."""
    from fusion_engine_client.parsers import MixedLogReader
    from fusion_engine_client.messages import MessageType
    from fusion_engine_client.utils.time_range import TimeRange
    from fusion_engine_client.messages import Timestamp
    r = MixedLogReader(path, num_threads=1, return_header=False, return_payload=False, return_message_index=True)
    res = []
    for op in ops:
        try:
            k = op[0]
            if k == 'r':
                try:
                    res.append('m%d' % int(r.read_next()[0]))
                except StopIteration:
                    res.append('stop')
                continue
            if k == 't':
                from fusion_engine_client.messages import message_type_to_class
                enums = [MessageType(t, raise_on_unrecognized=False) for t in op[1]]
                classes = [message_type_to_class.get(e) for e in enums]
                style = op[2] if len(op) > 2 else 0
                if style == 1 and all(c is not None for c in classes):
                    r.filter_in_place(classes if len(classes) != 1 else classes[0])      # payload classes
                elif style == 2:
                    r.filter_in_place(tuple(enums) if len(enums) != 1 else enums[0])      # tuple / a single MessageType
                else:
                    r.filter_in_place(set(enums))
            elif k == 'F':                                                          # slice of absolute P1 times (floats)
                r.filter_in_place(slice(op[1], op[2]))
            elif k == 'T':
                kind, s, e, t0 = op[1]
                tr = TimeRange(start=s, end=e, absolute=(kind == 'a'), p1_t0=None if t0 is None else Timestamp(t0))
                r.filter_in_place(tr)
            elif k == 's':
                r.filter_in_place(slice(op[1], op[2]))
            elif k == 'u':
                r.filter_out_invalid_p1_times()
            elif k == 'c':
                r.clear_filters()
            elif k == 'w':
                r.rewind()
            elif k == 'k':
                r.seek_to_message(op[1], is_filtered_index=op[2])
            elif k == 'e':
                r.seek_to_eof()
            res.append('done')
        except ValueError:
            res.append('VE')
        except IndexError:
            res.append('IE')
        except BaseException as e:
            r.input_file.close()
            return ('raise', '%s: %s' % (type(e).__name__, str(e)[:80]), res)
    out = (res, int(r.next_index_elem), len(r.index))
    r.input_file.close()
    return out


def op_text(op):
    k = op[0]
    if k == 't':
        return 't:' + (','.join(map(str, op[1])) or '=')
    if k == 'T':
        from fusion_engine_client.utils.time_range import TimeRange
        from fusion_engine_client.messages import Timestamp
        kind, s, e, t0 = op[1]
        tr = TimeRange(start=s, end=e, absolute=(kind == 'a'), p1_t0=None if t0 is None else Timestamp(t0))
        return 'T:' + rc.range_text(tr, sep='/')
    if k == 'F':
        f = lambda x: 'n' if x is None else str(int(round(x * rc.NS)))
        return 'T:a/%s/%s/n' % (f(op[1]), f(op[2]))
    if k == 's':
        return 's:%d:%d' % (op[1], op[2])
    if k == 'k':
        return 'k:%d:%d' % (op[1], 1 if op[2] else 0)
    return k


def gen_op(rng, msgs):
    n = len(msgs)
    types = sorted(set(m['type'] for m in msgs)) or [10000]
    ts = [m['timeNs'] / rc.NS for m in msgs if m['timeNs'] is not None]
    lo, hi = (min(ts), max(ts)) if ts else (1.0, 4.0)
    k = rng.choice('rrrrtTFsucwke')
    if k == 't':
        return ('t', rng.choice([[rng.choice(types)], rng.sample(types, min(2, len(types))), [424]]), rng.randrange(3))
    if k == 'F':
        grid = [None, 0.0, lo, lo + 0.25, lo + 1.0, (lo + hi) / 2 // 0.25 * 0.25, hi, hi + 2]
        a, b = rng.choice(grid), rng.choice(grid)
        if a is None and b is None:
            a = lo
        if a is not None and b is not None and b < a:
            a, b = b, a
        return ('F', a, b)
    if k == 'T':
        kind = rng.choice(['a', 'r', 'r'])
        base = lo if kind == 'a' else 0.0
        grid = [None, base, base + 0.25, base + 1.0, base + 1.5, base + (hi - lo) / 2 // 0.25 * 0.25, base + hi - lo, base + hi - lo + 2]
        s, e = rng.choice(grid), rng.choice(grid)
        if s is not None and e is not None and e < s:
            s, e = e, s
        t0 = rng.choice([None, None, lo, lo + 0.5]) if kind == 'r' else None
        return ('T', (kind, s, e, t0))
    if k == 's':
        i = rng.randrange(0, n + 2)
        return ('s', i, rng.randrange(i, n + 3))
    if k == 'k':
        return ('k', rng.randrange(0, n + 2), rng.random() < 0.5)
    return (k,)


def run(ctx, budget):
    rng = ctx.rng
    lines, pending = [], []
    logs = []
    for _ in range(max(4, budget // 40)):
        data = rc.make_log(rng, rng.choice([0, 1, 2, 4, 7, 12]), junk=rng.random() < 0.5)
        path = ic.write_log(data, 'c11_%d.p1log' % len(logs))
        msgs = rc.unfiltered(path)
        logs.append((data, path, msgs))
    scripts = []
    for _ in range(budget):
        lg = rng.choice(logs)
        scripts.append((lg, [gen_op(rng, lg[2]) for _ in range(rng.choice([1, 2, 3, 4, 6, 9, 12]))]))
    # bounded-exhaustive short scripts over a small alphabet on one log
    lg = logs[-1] if len(logs[-1][2]) >= 2 else max(logs, key=lambda x: len(x[2]))
    types = sorted(set(m['type'] for m in lg[2])) or [10000]
    alphabet = [('r',), ('t', [types[0]]), ('t', [types[-1]]), ('u',), ('c',), ('w',), ('e',), ('s', 1, 3), ('k', 1, True), ('k', 1, False),
                ('T', ('r', 0.25, None, None))]
    L = 4 if ctx.thorough else 3
    for script in itertools.product(alphabet, repeat=L):
        scripts.append((lg, list(script) + [('r',), ('r',)]))
    # directed: every spelling of a type filter combined, in both orders, with time ranges measured from the start of the log
    for lg2 in logs:
        tys = sorted(set(m['type'] for m in lg2[2]))
        tt = [m['timeNs'] / rc.NS for m in lg2[2] if m['timeNs'] is not None]
        if not tys or not tt:
            continue
        span = max(tt) - min(tt)
        rel = [(0.25, None), (None, 1.0), (0.5, 2.0), (1.0, None), (span / 2 // 0.25 * 0.25, None)]
        for ty in (tys if ctx.thorough else rng.sample(tys, min(3, len(tys)))):
            for style in (0, 1, 2):
                for a, b in (rel if ctx.thorough else rng.sample(rel, 2)):
                    T = ('T', ('r', a, b, None))
                    A = ('T', ('a', None if a is None else min(tt) + a, None if b is None else min(tt) + b, None))
                    t = ('t', [ty], style)
                    for script in ([t, T], [T, t], [t, A], [t, ('r',), T], [t, T, ('c',)], [t, ('u',), T]):
                        scripts.append((lg2, script + [('r',)] * 3))
                        ctx.count('directed_type_then_range_scripts')

    # argument objects are reused by callers: ONE TimeRange object applied to readers of different logs (different first P1
    # times), in both orders; every reader must behave as if it had been given a range object of its own
    from fusion_engine_client.parsers import MixedLogReader
    from fusion_engine_client.utils.time_range import TimeRange
    shared = []
    timed = [lg2 for lg2 in logs if any(m['timeNs'] is not None for m in lg2[2])]
    for i in range(len(timed)):
        for j in range(len(timed)):
            if i == j:
                continue
            for a, b in ((0.25, None), (None, 1.0), (0.5, 2.0)):
                tr = TimeRange(start=a, end=b)
                results = []
                for lg2 in (timed[i], timed[j]):
                    try:
                        r = MixedLogReader(lg2[1], num_threads=1, return_header=False, return_payload=False, return_message_index=True)
                        r.filter_in_place(tr)
                        got = []
                        while len(got) < 200:
                            try:
                                got.append('m%d' % int(r.read_next()[0]))
                            except StopIteration:
                                got.append('stop')
                                break
                        r.input_file.close()
                        results.append(got)
                    except BaseException as e:
                        results.append(['raise:%s' % type(e).__name__])
                f = lambda x: 'n' if x is None else str(int(round(x * rc.NS)))
                for lg2, got in zip((timed[i], timed[j]), results):
                    text = 'T:r/%s/%s/n;' % (f(a), f(b)) + ';'.join(['r'] * len(got))
                    shared.append((lg2, text, got, {'files': [timed[i][0].hex(), timed[j][0].hex()], 'shared_time_range': [a, b],
                                                    'reader_of_file': 0 if lg2 is timed[i] else 1}))
                ctx.count('shared_time_range_object_pairs')
    shared_lines = ['rdcursorspec %s %s' % (rc.log_text(lg2[2]), text) for lg2, text, _, _ in shared]
    for (lg2, text, got, replay), so in zip(shared, ctx.driver(shared_lines) if shared_lines else []):
        want = so.split(',')[1:]
        if got != want:
            ctx.violation('C11/reader-depends-on-an-argument-object-used-elsewhere',
                          'one relative TimeRange object applied to the readers of two logs: reader %d answered %s, the filtered-list '
                          'cursor of its own log gives %s' % (replay['reader_of_file'], got[:12], want[:12]), replay)

    def untuple(o):
        return tuple(tuple(x) if isinstance(x, list) and o[0] == 'T' else x for x in o)
    for k, r in enumerate(fv.corpus('C11')):      # regression corpus first
        if 'file' in r and 'ops' in r:
            data = bytes.fromhex(r['file'])
            path = ic.write_log(data, 'c11_corpus_%d.p1log' % k)
            scripts.insert(0, ((data, path, rc.unfiltered(path)), [untuple(o) for o in r['ops']]))
            ctx.count('corpus_cases')
    for (data, path, msgs), ops in scripts:
        r = apply_ops(path, ops)
        text = ';'.join(op_text(o) for o in ops) or '-'
        lines.append('rdcursor %s %s' % (rc.log_text(msgs), text))
        lines.append('rdcursorspec %s %s' % (rc.log_text(msgs), text))
        pending.append(({'file': data.hex(), 'ops': [list(map(lambda x: x if not isinstance(x, tuple) else list(x), o)) for o in ops],
                         'ops_text': text}, r))
        for o in ops:
            ctx.count('op_' + o[0])
    outs = ctx.driver(lines)
    for i, (replay, r) in enumerate(pending):
        mo, so = outs[2 * i], outs[2 * i + 1]
        ctx.case(lines[2 * i])
        ctx.cov['traces_validated_against_impl'] += 1
        if r[0] == 'raise':
            ctx.violation('C11/operation-raised:' + r[1].split(':')[0], 'reader operation raised %s after %s' % (r[1], r[2]), replay)
            continue
        impl = ','.join(r[0]) + '|%d|%d' % (r[1], r[2])
        if impl != mo:
            ctx.disagree('reader %s, model %s (ops %s)' % (impl[:120], mo[:120], replay['ops_text']), replay)
        if ','.join(r[0]) != so:
            # first differing operation
            a, b = r[0], so.split(',')
            k = next((j for j in range(min(len(a), len(b))) if a[j] != b[j]), min(len(a), len(b)))
            ctx.violation('C11/cursor-differs-from-spec',
                          'after ops %s the reader answered %s where the filtered-list cursor gives %s (operation %d)' %
                          (replay['ops_text'], a[k] if k < len(a) else '-', b[k] if k < len(b) else '-', k), replay)
    for i in range(0, min(len(pending), 900), 301):
        ctx.sample({'ops': pending[i][0]['ops_text'], 'model': outs[2 * i][:100]})


def search(ctx):
    run(ctx, 3000)


def check(ctx):
    ctx.cov['rule'] = ('operation scripts over {read_next, filter by type set, filter by TimeRange (absolute/relative/preset t0), filter '
                       'by index slice, remove-untimed, clear_filters, rewind, seek_to_message(i, filtered or not), seek_to_eof}: random '
                       'scripts of length 1-12 on several generated logs plus ALL scripts of length %d over an 11-operation alphabet '
                       '(each followed by two reads) on one log; compared: the ordinal returned by every read_next or StopIteration, '
                       'error kinds, and next_index_elem / len(index) at the end; distinct = distinct script' % (4 if ctx.thorough else 3))
    ctx.assumptions += ['no source filter / max_bytes in cursor scripts (covered by C10)', 'P1 times are multiples of 0.25 s']
    ctx.prove(MODULES)
    try:
        run(ctx, 4000 if ctx.thorough else 900)
    except fv.InfraError:
        if not ctx.proof_failures:
            raise
    return fv.finish(ctx, 'proof', search)


def replay(ctx, path):
    obj = json.load(open(path))
    r = obj['input']
    data = bytes.fromhex(r['file'])
    p = ic.write_log(data)
    ops = [tuple(tuple(x) if isinstance(x, list) and o[0] == 'T' else x for x in o) for o in r['ops']]
    res = apply_ops(p, ops)
    msgs = rc.unfiltered(p)
    text = ';'.join(op_text(o) for o in ops) or '-'
    so = ctx.driver(['rdcursorspec %s %s' % (rc.log_text(msgs), text)])[0]
    print('reader:', res[0] if res[0] != 'raise' else res, ' spec:', so)
    if res[0] == 'raise' or ','.join(res[0]) != so:
        ctx.violation('C11/replay', 'replayed script still differs from the abstract cursor', r)
    return fv.finish(ctx, 'proof', None)
