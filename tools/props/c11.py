"""C11 - the log reader is a correct cursor over the filtered list after any history."""
import itertools
import json

import fv
from props import index_common as ic
from props import reader_common as rc

MODULES = ['FeVerif.Props.C11']


def apply_ops(path, ops):
    """Run an operation script on the real reader. Returns (results, next_index_elem, len(index)) or ('raise', text)."""
    from fusion_engine_client.parsers import MixedLogReader
    from fusion_engine_client.messages import MessageType
    from fusion_engine_client.utils.time_range import TimeRange
    from fusion_engine_client.messages import Timestamp
    r = MixedLogReader(path, num_threads=1, return_header=False, return_payload=False, return_message_index=True)
    res = []
    for op in ops:
        try:
            k = op[0]
            kw = {}
            if k == 'R':                       # ('R', filter op): the same filter call with clear_existing=True
                op = op[1]
                k = op[0]
                kw = {'clear_existing': True}
                res.append('done')             # the clearing half (the model runs `c` then the filter)
            if k == 'r':
                try:
                    res.append('m%d' % int(r.read_next()[0]))
                except StopIteration:
                    res.append('stop')
                continue
            if k == 't':
                from fusion_engine_client.messages import message_type_to_class
                enums = [MessageType(t, raise_on_unrecognized=False) for t in op[1]]
                classes = [message_type_to_class.get(e) for e in enums]
                style = op[2] if len(op) > 2 else 0
                if style == 1 and all(c is not None for c in classes):
                    r.filter_in_place(classes if len(classes) != 1 else classes[0], **kw)      # payload classes
                elif style == 2:
                    r.filter_in_place(tuple(enums) if len(enums) != 1 else enums[0], **kw)      # tuple / a single MessageType
                else:
                    r.filter_in_place(set(enums), **kw)
            elif k == 'F':                                                          # slice of absolute P1 times (floats)
                r.filter_in_place(slice(op[1], op[2]), **kw)
            elif k == 'T':
                kind, s, e, t0 = op[1]
                tr = TimeRange(start=s, end=e, absolute=(kind == 'a'), p1_t0=None if t0 is None else Timestamp(t0))
                r.filter_in_place(tr, **kw)
            elif k == 's':
                r.filter_in_place(slice(op[1], op[2]) if len(op) < 4 else slice(op[1], op[2], op[3]), **kw)     # index[i:j] / index[i:j:k]
            elif k == 'u':
                r.filter_out_invalid_p1_times(**kw)
            elif k == 'c':
                r.clear_filters()
            elif k == 'w':
                r.rewind()
            elif k == 'k':
                r.seek_to_message(op[1], is_filtered_index=op[2])
            elif k == 'e':
                r.seek_to_eof()
            res.append('done')
        except ValueError:
            res.append('VE')
        except IndexError:
            res.append('IE')
        except BaseException as e:
            r.input_file.close()
            return ('raise', '%s: %s' % (type(e).__name__, str(e)[:80]), res)
    out = (res, int(r.next_index_elem), len(r.index))
    r.input_file.close()
    return out


def norm_op(o):
    """An operation as stored in a replay (JSON lists) -> the tuples used here."""
    o = list(o)
    if o[0] == 'R':
        return ('R', norm_op(o[1]))
    if o[0] == 'T':
        return ('T', tuple(o[1]))
    return tuple(o)


def jsonable(o):
    return [jsonable(x) if isinstance(x, tuple) else x for x in o]


def op_text(op):
    k = op[0]
    if k == 'R':                               # filter_in_place(key, clear_existing=True) == clear_filters(), then the filter
        return 'c;' + op_text(op[1])
    if k == 't':
        return 't:' + (','.join(map(str, op[1])) or '=')
    if k == 'T':
        from fusion_engine_client.utils.time_range import TimeRange
        from fusion_engine_client.messages import Timestamp
        kind, s, e, t0 = op[1]
        tr = TimeRange(start=s, end=e, absolute=(kind == 'a'), p1_t0=None if t0 is None else Timestamp(t0))
        return 'T:' + rc.range_text(tr, sep='/')
    if k == 'F':
        f = lambda x: 'n' if x is None else str(int(round(x * rc.NS)))
        return 'T:a/%s/%s/n' % (f(op[1]), f(op[2]))
    if k == 's':
        return 's:%d:%d' % (op[1], op[2]) if len(op) < 4 else 's:%d:%d:%d' % (op[1], op[2], op[3])
    if k == 'k':
        return 'k:%d:%d' % (op[1], 1 if op[2] else 0)
    return k


def gen_op(rng, msgs):
    """One random operation; a filter operation is, one time in four, the replacing form (clear_existing=True)."""
    op = gen_plain_op(rng, msgs)
    if op[0] in 'tFTsu' and rng.random() < 0.25:
        return ('R', op)
    return op


def gen_plain_op(rng, msgs):
    n = len(msgs)
    types = sorted(set(m['type'] for m in msgs)) or [10000]
    ts = [m['timeNs'] / rc.NS for m in msgs if m['timeNs'] is not None]
    lo, hi = (min(ts), max(ts)) if ts else (1.0, 4.0)
    k = rng.choice('rrrrtTFsucwke')
    if k == 't':
        # one type, two types, a type the log does not have, every type of the log (matches everything), all but one
        return ('t', rng.choice([[rng.choice(types)], rng.sample(types, min(2, len(types))), [424], list(types),
                                 rng.sample(types, max(1, len(types) - 1))]), rng.randrange(3))
    if k == 'F':
        grid = [None, 0.0, lo, lo + 0.25, lo + 1.0, (lo + hi) / 2 // 0.25 * 0.25, hi, hi + 2]
        a, b = rng.choice(grid), rng.choice(grid)
        if a is None and b is None:
            a = lo
        if a is not None and b is not None and b < a:
            a, b = b, a
        return ('F', a, b)
    if k == 'T':
        kind = rng.choice(['a', 'r', 'r'])
        base = lo if kind == 'a' else 0.0
        grid = [None, base, base + 0.25, base + 1.0, base + 1.5, base + (hi - lo) / 2 // 0.25 * 0.25, base + hi - lo, base + hi - lo + 2]
        s, e = rng.choice(grid), rng.choice(grid)
        if s is not None and e is not None and e < s:
            s, e = e, s
        t0 = rng.choice([None, None, lo, lo + 0.5]) if kind == 'r' else None
        return ('T', (kind, s, e, t0))
    if k == 's':
        if rng.random() < 0.2:                  # a slice that keeps everything
            return ('s', 0, n + rng.choice([0, 1, 5]))
        i = rng.randrange(0, n + 2)
        if rng.random() < 0.35:                 # every k-th entry of a part: index[i:j:k]
            return ('s', rng.choice([0, 0, 1, i]), rng.choice([n, n + 3, rng.randrange(i, n + 3)]), rng.choice([1, 2, 2, 3, 4, 5, n + 1]))
        return ('s', i, rng.randrange(i, n + 3))
    if k == 'k':
        return ('k', rng.randrange(0, n + 2), rng.random() < 0.5)
    return (k,)


PATTERN_KINDS = {'P': (True, 0), 'G': (True, 1), 'E': (False, 0), 'V': (False, 1)}     # two timed classes, two untimed ones


def make_pattern_log(pattern, t_start=10.0, step=0.5):
    """A clean log (no junk) whose message types follow the given pattern of letters P G (timed) E V (untimed)."""
    import gen
    timed, untimed = rc.timed_payloads()
    t = t_start
    parts = []
    for seq, ch in enumerate(pattern):
        is_timed, which = PATTERN_KINDS[ch]
        ty, p, v = (timed if is_timed else untimed)[which](t)
        if is_timed:
            t += step
        parts.append(gen.frame(ty, p, seq, 0, v))
    return b''.join(parts)


def pattern_logs(ctx, rng):
    """Small logs over 2-4 types with repeated patterns: a type A at both ends and the other types, shuffled and possibly
    repeated, in between (A x y A, A x x y A, A y x A ...), plus unconstrained random patterns.  Generated once per run."""
    if getattr(ctx, '_c11_pattern_logs', None) is None:
        pats = []
        for _ in range(8 if ctx.thorough else 3):
            letters = rng.sample('PGEV', rng.choice([3, 3, 4]))
            mid = [rng.choice(letters[1:]) for _ in range(rng.choice([2, 3, 4]))]
            if len(set(mid)) < 2:
                mid[0], mid[-1] = letters[1], letters[2]
            pats.append(letters[0] + ''.join(mid) + letters[0])
        for _ in range(4 if ctx.thorough else 1):
            letters = rng.sample('PGEV', 3)
            pats.append(''.join(rng.choice(letters) for _ in range(rng.choice([4, 5, 6]))))
        out = []
        for k, pat in enumerate(pats):
            data = make_pattern_log(pat, t_start=rng.choice([0.0, 1.0, 10.0]), step=rng.choice([0.25, 0.5, 1]))
            path = ic.write_log(data, 'c11_pattern_%d.p1log' % k)
            out.append((data, path, rc.unfiltered(path)))
            ctx.count('pattern_logs')
        ctx._c11_pattern_logs = out
    return ctx._c11_pattern_logs


def run(ctx, budget):
    rng = ctx.rng
    lines, pending = [], []
    logs = []
    for _ in range(max(4, budget // 40)):
        data = rc.make_log(rng, rng.choice([0, 1, 2, 4, 7, 12]), junk=rng.random() < 0.5)
        path = ic.write_log(data, 'c11_%d.p1log' % len(logs))
        msgs = rc.unfiltered(path)
        logs.append((data, path, msgs))
    scripts = []
    for _ in range(budget):
        lg = rng.choice(logs)
        scripts.append((lg, [gen_op(rng, lg[2]) for _ in range(rng.choice([1, 2, 3, 4, 6, 9, 12]))]))
    # bounded-exhaustive short scripts over a small alphabet on one log
    lg = logs[-1] if len(logs[-1][2]) >= 2 else max(logs, key=lambda x: len(x[2]))
    types = sorted(set(m['type'] for m in lg[2])) or [10000]
    alphabet = [('r',), ('t', [types[0]]), ('t', [types[-1]]), ('u',), ('c',), ('w',), ('e',), ('s', 1, 3), ('s', 0, 99, 2), ('k', 1, True), ('k', 1, False),
                ('T', ('r', 0.25, None, None))]
    L = 4 if ctx.thorough else 3
    for script in itertools.product(alphabet, repeat=L):
        scripts.append((lg, list(script) + [('r',), ('r',)]))
    # directed: every spelling of a type filter combined, in both orders, with time ranges measured from the start of the log
    for lg2 in logs:
        tys = sorted(set(m['type'] for m in lg2[2]))
        tt = [m['timeNs'] / rc.NS for m in lg2[2] if m['timeNs'] is not None]
        if not tys or not tt:
            continue
        span = max(tt) - min(tt)
        rel = [(0.25, None), (None, 1.0), (0.5, 2.0), (1.0, None), (span / 2 // 0.25 * 0.25, None)]
        for ty in (tys if ctx.thorough else rng.sample(tys, min(3, len(tys)))):
            for style in (0, 1, 2):
                for a, b in (rel if ctx.thorough else rng.sample(rel, 2)):
                    T = ('T', ('r', a, b, None))
                    A = ('T', ('a', None if a is None else min(tt) + a, None if b is None else min(tt) + b, None))
                    t = ('t', [ty], style)
                    for script in ([t, T], [T, t], [t, A], [t, ('r',), T], [t, T, ('c',)], [t, ('u',), T]):
                        scripts.append((lg2, script + [('r',)] * 3))
                        ctx.count('directed_type_then_range_scripts')

    # (a) replacing filters after the cursor has advanced inside an earlier filter: narrowing filter N, advance (reads / a
    # seek in the filtered index), then ONE filter call with clear_existing=True whose key keeps everything, nearly
    # everything, or little, then reads to the end.  Every key kind, on every log.
    for lg2 in logs + pattern_logs(ctx, rng):
        msgs2 = lg2[2]
        n = len(msgs2)
        if n < 2:
            continue
        tys = sorted(set(m['type'] for m in msgs2))
        tt = [m['timeNs'] / rc.NS for m in msgs2 if m['timeNs'] is not None]
        narrow = [('t', [ty], 0) for ty in tys] + [('s', 1, n), ('s', 0, n - 1), ('s', 1, n - 1), ('u',)]
        keys = [('t', list(tys), 0), ('t', list(tys), 1), ('t', list(tys), 2), ('t', tys[1:] or tys, 0),
                ('s', 0, n), ('s', 0, n + 5), ('s', 0, n - 1), ('T', ('r', None, None, None)), ('T', ('a', None, None, None)),
                ('T', ('r', 0.0, None, None)), ('u',)]
        if tt:
            narrow.append(('T', ('r', 0.25, None, None)))
            keys += [('T', ('a', min(tt), None, None)), ('T', ('a', None, max(tt) + 1.0, None)), ('F', 0.0, max(tt) + 1.0),
                     ('T', ('r', None, max(tt) - min(tt) + 1.0, None))]
        advances = [[('r',)], [('r',)] * 2, [('r',)] * 3, [('k', 1, True)], [('k', 2, True), ('r',)], [('e',)]]
        combos = [(N, A, K) for N in narrow for A in advances for K in keys]
        if not ctx.thorough:
            combos = rng.sample(combos, min(len(combos), 40))
        for N, A, K in combos:
            scripts.append((lg2, [N] + A + [('R', K)] + [('r',)] * (n + 1)))
            ctx.count('directed_advance_then_replacing_filter_scripts')

    # (b) the same type selection applied, in ONE reader, to two different filtered lists: X, T, reads, <clear / rewind>, Y, T,
    # reads to the end, for type sets X, Y, T of small logs with few types in repeated patterns (so that two filtered lists
    # often agree in their first entry, last entry and length while differing in between).  The answer to the second T must
    # not depend on the first.
    for lg2 in pattern_logs(ctx, rng):
        msgs2 = lg2[2]
        n = len(msgs2)
        tys = sorted(set(m['type'] for m in msgs2))
        subsets = [list(c) for k in range(1, len(tys) + 1) for c in itertools.combinations(tys, k)]
        makers = [('t', x, 0) for x in subsets] + [('s', 0, n - 1), ('s', 1, n), ('u',)]
        mids = [[('c',)], [('w',), ('c',)], [('c',), ('w',)], None]         # None: Y itself is the replacing filter
        combos = [(X, Y, T) for X in makers for Y in makers if X != Y for T in subsets]
        if not ctx.thorough:
            combos = rng.sample(combos, min(len(combos), 300))
        for X, Y, T in combos:
            for mid in (mids if ctx.thorough else [rng.choice(mids)]):
                t = ('t', T, rng.randrange(3))
                second = [('R', Y)] if mid is None else mid + [Y]
                scripts.append((lg2, [X, t, ('r',)] + second + [t] + [('r',)] * (n + 1)))
                ctx.count('directed_same_type_set_on_two_filtered_lists_scripts')
        # longer random histories (5-8 steps, then reads to the end) over the type sets of the log, clear and rewind
        for _ in range(400 if ctx.thorough else 40):
            hist = []
            for _ in range(rng.choice([5, 6, 7, 8])):
                c = rng.choice('ttttcRrwsk')
                if c == 't':
                    hist.append(('t', rng.choice(subsets), rng.randrange(3)))
                elif c == 'R':
                    hist.append(('R', ('t', rng.choice(subsets), rng.randrange(3))))
                elif c == 's':
                    hist.append(rng.choice([('s', 0, n - 1), ('s', 1, n), ('s', 0, n)]))
                elif c == 'k':
                    hist.append(('k', rng.randrange(0, n), rng.random() < 0.5))
                else:
                    hist.append((c,))
            scripts.append((lg2, hist + [('r',)] * (n + 1)))
            ctx.count('long_type_set_histories')

    # argument objects are reused by callers: ONE TimeRange object applied to readers of different logs (different first P1
    # times), in both orders; every reader must behave as if it had been given a range object of its own
    from fusion_engine_client.parsers import MixedLogReader
    from fusion_engine_client.utils.time_range import TimeRange
    shared = []
    timed = [lg2 for lg2 in logs if any(m['timeNs'] is not None for m in lg2[2])]
    for i in range(len(timed)):
        for j in range(len(timed)):
            if i == j:
                continue
            for a, b in ((0.25, None), (None, 1.0), (0.5, 2.0)):
                tr = TimeRange(start=a, end=b)
                results = []
                for lg2 in (timed[i], timed[j]):
                    try:
                        r = MixedLogReader(lg2[1], num_threads=1, return_header=False, return_payload=False, return_message_index=True)
                        r.filter_in_place(tr)
                        got = []
                        while len(got) < 200:
                            try:
                                got.append('m%d' % int(r.read_next()[0]))
                            except StopIteration:
                                got.append('stop')
                                break
                        r.input_file.close()
                        results.append(got)
                    except BaseException as e:
                        results.append(['raise:%s' % type(e).__name__])
                f = lambda x: 'n' if x is None else str(int(round(x * rc.NS)))
                for lg2, got in zip((timed[i], timed[j]), results):
                    text = 'T:r/%s/%s/n;' % (f(a), f(b)) + ';'.join(['r'] * len(got))
                    shared.append((lg2, text, got, {'files': [timed[i][0].hex(), timed[j][0].hex()], 'shared_time_range': [a, b],
                                                    'reader_of_file': 0 if lg2 is timed[i] else 1}))
                ctx.count('shared_time_range_object_pairs')
    shared_lines = ['rdcursorspec %s %s' % (rc.log_text(lg2[2]), text) for lg2, text, _, _ in shared]
    for (lg2, text, got, replay), so in zip(shared, ctx.driver(shared_lines) if shared_lines else []):
        want = so.split(',')[1:]
        if got != want:
            ctx.violation('C11/reader-depends-on-an-argument-object-used-elsewhere',
                          'one relative TimeRange object applied to the readers of two logs: reader %d answered %s, the filtered-list '
                          'cursor of its own log gives %s' % (replay['reader_of_file'], got[:12], want[:12]), replay)

    for k, r in enumerate(fv.corpus('C11')):      # regression corpus first
        if 'file' in r and 'ops' in r:
            data = bytes.fromhex(r['file'])
            path = ic.write_log(data, 'c11_corpus_%d.p1log' % k)
            scripts.insert(0, ((data, path, rc.unfiltered(path)), [norm_op(o) for o in r['ops']]))
            ctx.count('corpus_cases')
    for (data, path, msgs), ops in scripts:
        r = apply_ops(path, ops)
        text = ';'.join(op_text(o) for o in ops) or '-'
        lines.append('rdcursor %s %s' % (rc.log_text(msgs), text))
        lines.append('rdcursorspec %s %s' % (rc.log_text(msgs), text))
        pending.append(({'file': data.hex(), 'ops': [jsonable(o) for o in ops],
                         'ops_text': text}, r))
        for o in ops:
            ctx.count('op_' + (o[0] if o[0] != 'R' else 'R_' + o[1][0]))
    outs = ctx.driver(lines)
    for i, (replay, r) in enumerate(pending):
        mo, so = outs[2 * i], outs[2 * i + 1]
        ctx.case(lines[2 * i])
        ctx.cov['traces_validated_against_impl'] += 1
        if r[0] == 'raise':
            ctx.violation('C11/operation-raised:' + r[1].split(':')[0], 'reader operation raised %s after %s' % (r[1], r[2]), replay)
            continue
        impl = ','.join(r[0]) + '|%d|%d' % (r[1], r[2])
        if impl != mo:
            ctx.disagree('reader %s, model %s (ops %s)' % (impl[:120], mo[:120], replay['ops_text']), replay)
        if ','.join(r[0]) != so:
            # first differing operation
            a, b = r[0], so.split(',')
            k = next((j for j in range(min(len(a), len(b))) if a[j] != b[j]), min(len(a), len(b)))
            ctx.violation('C11/cursor-differs-from-spec',
                          'after ops %s the reader answered %s where the filtered-list cursor gives %s (operation %d)' %
                          (replay['ops_text'], a[k] if k < len(a) else '-', b[k] if k < len(b) else '-', k), replay)
    for i in range(0, min(len(pending), 900), 301):
        ctx.sample({'ops': pending[i][0]['ops_text'], 'model': outs[2 * i][:100]})


def search(ctx):
    run(ctx, 3000)


def check(ctx):
    ctx.cov['rule'] = ('operation scripts over {read_next, filter by type set, filter by TimeRange (absolute/relative/preset t0), filter '
                       'by index slice, remove-untimed, clear_filters, rewind, seek_to_message(i, filtered or not), seek_to_eof}: random '
                       'scripts of length 1-12 on several generated logs plus ALL scripts of length %d over an 11-operation alphabet '
                       '(each followed by two reads) on one log; compared: the ordinal returned by every read_next or StopIteration, '
                       'error kinds, and next_index_elem / len(index) at the end; every filter operation also in its replacing form '
                       '(clear_existing=True, = clear then filter; keys that keep everything / nearly everything / little, applied '
                       'after the cursor advanced inside an earlier filter); on small pattern logs (2-4 types, same type at both '
                       'ends) histories X, T, read, clear/rewind, Y, T, read-to-end over the type sets X, Y, T of the log and random '
                       '5-8 step type-set histories; distinct = distinct script' % (4 if ctx.thorough else 3))
    ctx.assumptions += ['no source filter / max_bytes in cursor scripts (covered by C10)', 'P1 times are multiples of 0.25 s']
    ctx.prove(MODULES)
    try:
        run(ctx, 4000 if ctx.thorough else 900)
    except fv.InfraError:
        if not ctx.proof_failures:
            raise
    return fv.finish(ctx, 'proof', search)


def replay(ctx, path):
    obj = json.load(open(path))
    r = obj['input']
    data = bytes.fromhex(r['file'])
    p = ic.write_log(data)
    ops = [norm_op(o) for o in r['ops']]
    res = apply_ops(p, ops)
    msgs = rc.unfiltered(p)
    text = ';'.join(op_text(o) for o in ops) or '-'
    so = ctx.driver(['rdcursorspec %s %s' % (rc.log_text(msgs), text)])[0]
    print('reader:', res[0] if res[0] != 'raise' else res, ' spec:', so)
    if res[0] == 'raise' or ','.join(res[0]) != so:
        ctx.violation('C11/replay', 'replayed script still differs from the abstract cursor', r)
    return fv.finish(ctx, 'proof', None)
