"""C12 - data-loader results do not depend on what was read before.

Stage C: call histories on one DataLoader vs. the Lean model `Loader.runHist` (driver command `loader`), per call.
Stage D: (1) the property as stated: every call of a history returns what the same call returns on a freshly opened
DataLoader; (2) a fresh read returns the messages of the log reader under the same filters, limited to the first /
last N across the requested types in file order (the reader is driven directly, without the loader).
"""
import atexit
import itertools
import json
import os
import shutil
import tempfile

import numpy as np

import fv

MODULES = ['FeVerif.Props.C12']
VARIANT = os.environ.get('C12_VARIANT', '11111')   # which repairs the model has (11111 = the code as it is)

P, G, A, E, R, X = 10000, 10001, 10003, 13004, 13002, 11000
INSTRUMENTED = (P, G, A, E, R, X)
_BASE_ATTRS = ('message_type', 'message_class', 'params', 'messages', 'message_bytes', 'message_index', 'num_messages')

_tmp = None


def tmpdir():
    global _tmp
    if _tmp is None:
        _tmp = tempfile.mkdtemp(prefix='c12_')
        atexit.register(shutil.rmtree, _tmp, True)
    return _tmp


def fe():
    import fusion_engine_client.messages as M
    from fusion_engine_client.analysis.data_loader import DataLoader, MessageData, TimeAlignmentMode
    from fusion_engine_client.parsers import FusionEngineEncoder, MixedLogReader
    from fusion_engine_client.parsers.file_index import FileIndex
    from fusion_engine_client.utils.time_range import TimeRange
    return dict(M=M, DataLoader=DataLoader, MessageData=MessageData, TimeAlignmentMode=TimeAlignmentMode,
                Encoder=FusionEngineEncoder, MixedLogReader=MixedLogReader, FileIndex=FileIndex, TimeRange=TimeRange)


# ---- logs -------------------------------------------------------------------------------------------
def build_message(F, t, ord_, t2):
    M = F['M']
    if t == P:
        m = M.PoseMessage()
        m.gps_time = M.Timestamp(1000.0 + ord_)
    elif t == G:
        m = M.GNSSInfoMessage()
        m.gps_time = M.Timestamp(1000.0 + ord_)
    elif t == A:
        m = M.PoseAuxMessage()
        m.velocity_enu_mps = np.array([float(ord_), 0.0, 0.0])
    elif t == E:
        m = M.EventNotificationMessage()
        m.system_time_ns = ord_ * 1000000000
    elif t == R:
        m = M.ResetRequest()
        m.reset_mask = ord_
    else:
        raise ValueError(t)
    if t2 is not None:
        m.p1_time = M.Timestamp(t2 / 2.0)
    return m


def ident(m):
    """Ordinal embedded in a payload, or d<scaled time> for a default-constructed (inserted) one."""
    n = type(m).__name__
    v = None
    if n in ('PoseMessage', 'GNSSInfoMessage'):
        v = float(m.gps_time) - 1000.0
    elif n == 'PoseAuxMessage':
        v = float(m.velocity_enu_mps[0])
    elif n == 'EventNotificationMessage':
        v = None if m.system_time_ns is None else m.system_time_ns / 1e9
    elif n == 'ResetRequest':
        v = float(m.reset_mask)
    if v is None or np.isnan(v):
        return 'd%d' % int(round(float(m.p1_time) * 2))
    return str(int(round(v)))


def gen_log(rng, nan_p1):
    """[(type, scaled P1 time or None, source id)] in file order; at most 10 messages per type; >= 1 timed."""
    n = rng.choice([6, 9, 12, 16])
    two_src = rng.random() < 0.7
    t2 = rng.choice([20, 21, 40])
    spec = []
    counts = {}
    weights = [(P, 4), (G, 2), (A, 3), (E, 2), (R, 1)]
    pool = [t for t, w in weights for _ in range(w)]
    while len(spec) < n:
        t = rng.choice(pool)
        if counts.get(t, 0) >= 10:
            continue
        counts[t] = counts.get(t, 0) + 1
        src = rng.choice([0, 0, 1]) if two_src else 0
        if t in (P, G, A):
            if nan_p1 and rng.random() < 0.2:
                spec.append((t, None, src))
            else:
                spec.append((t, t2, src))
        else:
            spec.append((t, None, src))
        r = rng.random()
        if r < 0.35:
            t2 += 2
        elif r < 0.5:
            t2 += 1
        elif r < 0.55:
            t2 = max(2, t2 - 1)      # time going backwards by half a second
    if not any(s[1] is not None for s in spec):
        spec[0] = (P, t2, 0)
    if two_src:
        # The reader discovers source ids from the first messages of each type, continuing from where the previous
        # type's scan stopped (C10); both ids among the first messages of the lowest type make the discovery complete.
        low = min(s[0] for s in spec)
        pos = [i for i, s in enumerate(spec) if s[0] == low]
        if len(pos) < 2:
            spec.append((low, spec[pos[0]][1], 0))
            pos.append(len(spec) - 1)
        spec[pos[0]] = (low, spec[pos[0]][1], 0)
        spec[pos[1]] = (low, spec[pos[1]][1], 1)
    return spec


def write_log(F, spec, name):
    path = os.path.join(tmpdir(), name + '.p1log')
    enc = F['Encoder']()
    with open(path, 'wb') as f:
        for i, (t, t2, src) in enumerate(spec):
            f.write(enc.encode_message(build_message(F, t, i, t2), source_identifier=src))
    idx = os.path.join(tmpdir(), name + '.p1i')
    if os.path.exists(idx):
        os.remove(idx)
    return path


# ---- calls ------------------------------------------------------------------------------------------
DEFAULT_CALL = dict(types=None, tr=None, src=None, ic=False, max=None, rp1=False, rsys=False, inorder=False, ridx=False,
                    numpy=False, keep=False, rmnan=True, align=0, aligned=None)


def gen_call(rng, spec, nan_p1):
    present = sorted(set(s[0] for s in spec))
    times = [s[1] for s in spec if s[1] is not None]
    lo, hi = min(times), max(times)
    c = dict(DEFAULT_CALL)
    r = rng.random()
    if r < 0.12:
        c['types'] = None
    else:
        k = rng.choice([1, 1, 2, 2, 3, 4])
        pool = present + ([X] if rng.random() < 0.15 else [])
        c['types'] = tuple(sorted(rng.sample(pool, min(k, len(pool)))))
    if rng.random() < 0.35:
        absolute = rng.random() < 0.6
        base = 0 if absolute else lo
        grid = [None, None, lo - 2, lo, lo + 2, (lo + hi) // 2, hi, hi + 1, hi + 10]
        s, e = rng.choice(grid), rng.choice(grid)
        s = None if s is None else (s - base) / 2.0
        e = None if e is None else (e - base) / 2.0
        if s is not None and s < 0:
            s = 0.0
        c['tr'] = (s, e, absolute)
    if rng.random() < 0.3:
        c['src'] = rng.choice([(0,), (1,), (0, 1), (0, 5), (5,)])
    if rng.random() < 0.45:
        c['max'] = rng.choice([1, 2, 3, 5, 50, -1, -2, -3, -5, -50, 0])
    c['rp1'] = rng.random() < 0.2
    c['rsys'] = rng.random() < 0.06
    c['inorder'] = rng.random() < 0.12
    c['ridx'] = rng.random() < 0.4
    c['numpy'] = rng.random() < 0.4
    c['keep'] = rng.random() < 0.5
    c['rmnan'] = rng.random() < 0.8
    if not nan_p1 and rng.random() < 0.3:
        c['align'] = rng.choice([1, 2])
        if rng.random() < 0.3:
            c['aligned'] = tuple(sorted(rng.sample([P, G, A, X], rng.choice([1, 2, 3]))))
    c['ic'] = rng.random() < 0.1
    return c


def mutate_call(rng, c, spec, nan_p1):
    """A later call of a history: usually an earlier call with one or two arguments changed (so that the cache is hit)."""
    d = dict(c)
    fresh = gen_call(rng, spec, nan_p1)
    keys = rng.sample(['types', 'tr', 'src', 'max', 'rp1', 'inorder', 'ridx', 'numpy', 'keep', 'rmnan', 'align', 'ic', 'types',
                       'numpy', 'keep', 'max', 'align'], rng.choice([0, 1, 1, 2, 3]))
    for k in keys:
        d[k] = fresh[k]
        if k == 'align':
            d['aligned'] = fresh['aligned']
    if nan_p1:
        d['align'] = 0
        d['aligned'] = None
    return d


def toggle_open_start(rng, c, spec):
    """A call that differs from `c` only in an omitted start vs a relative start of exactly 0.0 (different selections when
    the log begins with messages without P1 time): the cache must tell the two apart."""
    d = dict(c)
    tr = c['tr']
    if tr is None:
        d['tr'] = (0.0, None, False)
    elif tr[0] is None:
        d['tr'] = (0.0, tr[1], False)
    elif tr[0] == 0.0 and not tr[2]:
        d['tr'] = None if tr[1] is None else (None, tr[1], False)
    else:
        d['tr'] = (0.0, None, False) if rng.random() < 0.5 else None
    untimed = sorted(set(s[0] for s in spec if s[1] is None))
    if untimed and d['types'] is not None and rng.random() < 0.7:
        d['types'] = tuple(sorted(set(d['types']) | {untimed[0]}))
    d['align'] = 0
    d['aligned'] = None
    return d


def gen_history(rng, spec, nan_p1, length):
    h = [gen_call(rng, spec, nan_p1)]
    while len(h) < length:
        r = rng.random()
        if r < 0.12:
            base = rng.choice(h)
            t = toggle_open_start(rng, base, spec)
            if t['types'] != base['types'] and len(h) + 1 < length:
                h.append(dict(base, types=t['types'], align=0, aligned=None))
            h.append(t)
        elif r < 0.65:
            h.append(mutate_call(rng, rng.choice(h), spec, nan_p1))
        else:
            h.append(gen_call(rng, spec, nan_p1))
    return h[:max(length, 1)]


def kwargs_of(F, c):
    MT = F['M'].MessageType
    kw = dict(ignore_cache=c['ic'], max_messages=c['max'], require_p1_time=c['rp1'], require_system_time=c['rsys'],
              return_in_order=c['inorder'], return_message_index=c['ridx'], return_numpy=c['numpy'],
              keep_messages=c['keep'], remove_nan_times=c['rmnan'],
              time_align=F['TimeAlignmentMode'](c['align']))
    if c['types'] is not None:
        kw['message_types'] = [MT(t) for t in c['types']]
    if c['tr'] is not None:
        kw['time_range'] = F['TimeRange'](start=c['tr'][0], end=c['tr'][1], absolute=c['tr'][2])
    if c['src'] is not None:
        kw['source_ids'] = list(c['src'])
    if c['aligned'] is not None:
        kw['aligned_message_types'] = [MT(t) for t in c['aligned']]
    return kw


def sc(x):
    return 'n' if x is None else str(int(round(x * 2)))


def tr_key(F, c):
    if c['tr'] is None:
        t = F['TimeRange']()
    else:
        t = F['TimeRange'](start=c['tr'][0], end=c['tr'][1], absolute=c['tr'][2])
    return '%s_%s_%d' % (sc(t.start), sc(t.end), 1 if t.absolute else 0)


def dots(l, none='*'):
    if l is None:
        return none
    l = list(l)
    return '.'.join(str(x) for x in l) if l else '-'


def call_text(F, c):
    return ','.join([dots(c['types']), tr_key(F, c), dots(c['src']), str(int(c['ic'])),
                     'n' if c['max'] is None else str(c['max']), str(int(c['rp1'])), str(int(c['rsys'])),
                     str(int(c['inorder'])), str(int(c['ridx'])), str(int(c['numpy'])), str(int(c['keep'])),
                     str(int(c['rmnan'])), str(c['align']), dots(c['aligned'])])


# ---- observing the real code --------------------------------------------------------------------------
def array_ids(d, t):
    """Per column of the numpy members: the ordinal of the message it came from, or d<time> for an inserted default."""
    dd = d.__dict__
    extra = [k for k in dd if k not in _BASE_ATTRS]
    if not extra:
        return None
    key = {P: 'gps_time', G: 'gps_time', A: 'velocity_enu_mps', E: 'system_time', R: 'reset_mask'}.get(t)
    p1 = dd.get('p1_time')
    if key is None:
        vals = [float('nan')] * (0 if p1 is None else len(p1))
    else:
        v = np.asarray(dd[key], dtype=float)
        if t == A:
            v = v[0, :] if v.ndim == 2 else v
        if t in (P, G):
            v = v - 1000.0
        vals = [float(x) for x in v]
    out = []
    for j, x in enumerate(vals):
        if np.isnan(x):
            out.append('d%d' % int(round(float(p1[j]) * 2)))
        else:
            out.append(str(int(round(x))))
    return out


def lst(l):
    return '.'.join(l) if l else '-'


def canon_result(F, res, order):
    if isinstance(res, F['MessageData']):
        return 'O/%s/%s' % (lst([ident(m) for m in res.messages]), lst([str(int(i)) for i in res.message_index]))
    parts = ['D']
    byint = {int(k): v for k, v in res.items()}
    for t in order:
        d = byint.get(t)
        if d is None:
            parts.append('%d/!missing' % t)
            continue
        if t in INSTRUMENTED:
            a = array_ids(d, t)
            arr = '~' if a is None else lst(a)
        else:
            arr = '?'
        parts.append('%d/%s/%s/%s' % (t, lst([ident(m) for m in d.messages]), lst([str(int(i)) for i in d.message_index]), arr))
    if sorted(int(k) for k in res.keys()) != sorted(order):
        parts.append('!keys=%s' % sorted(int(k) for k in res.keys()))
    return '|'.join(parts)


def mask_model(text):
    """The model reports arrays for every type; the harness reads them only for the instrumented classes."""
    out = []
    for r in text.split(';'):
        if r.startswith('D'):
            ps = r.split('|')
            for i in range(1, len(ps)):
                f = ps[i].split('/')
                if len(f) == 4 and int(f[0]) not in INSTRUMENTED:
                    f[3] = '?'
                    ps[i] = '/'.join(f)
            r = '|'.join(ps)
        out.append(r)
    return ';'.join(out)


class Env:
    """One generated log with what the real reader says about it."""

    def __init__(self, F, spec, name):
        self.F = F
        self.spec = spec
        self.path = write_log(F, spec, name)
        M = F['M']
        self.all_types = [int(t) for t in M.message_type_to_class.keys()]
        ld = self.loader()
        self.avail = sorted(int(s) for s in ld.get_available_source_ids())
        self.index = ld.reader._original_index
        self.fresh_cache = {}
        self.tr_sel = {}

    def loader(self):
        ld = self.F['DataLoader'](self.path, num_threads=1)
        self.assert_static(ld)
        return ld

    def assert_static(self, ld):
        if not ld.reader.have_index() or ld._need_t0 or ld._need_system_t0:
            raise fv.InfraError('model assumption broken: have_index=%s _need_t0=%s _need_system_t0=%s' %
                                (ld.reader.have_index(), ld._need_t0, ld._need_system_t0))

    def order(self, c):
        return list(c['types']) if c['types'] is not None else self.all_types

    def selection(self, c):
        k = tr_key(self.F, c)
        if k not in self.tr_sel:
            tr = kwargs_of(self.F, c).get('time_range', self.F['TimeRange']())
            self.tr_sel[k] = [int(i) for i in self.index[tr].message_index]
        return k, self.tr_sel[k]

    def run_call(self, ld, c):
        try:
            res = ld.read(**kwargs_of(self.F, c))
        except Exception as e:
            return 'E:%s' % type(e).__name__, None
        return canon_result(self.F, res, self.order(c)), res

    def run_history(self, calls):
        ld = self.loader()
        out = []
        hits = 0
        seen = set()
        for c in calls:
            text, res = self.run_call(ld, c)
            out.append(text)
            if text.startswith('E:'):
                break
            if isinstance(res, dict):
                for v in res.values():
                    if id(v) in seen:
                        hits += 1
                    seen.add(id(v))
                self._keep = getattr(self, '_keep', [])
                self._keep.append(res)      # keep objects alive so that ids stay distinct
            self.assert_static(ld)
        self._keep = []
        return out, hits

    def fresh(self, c):
        k = call_text(self.F, c)
        if k not in self.fresh_cache:
            self.fresh_cache[k] = self.run_call(self.loader(), c)[0]
        return self.fresh_cache[k]

    def log_text(self):
        return ','.join('%d:%d:%s:%d' % (i, t, 'n' if t2 is None else str(t2), s) for i, (t, t2, s) in enumerate(self.spec)) or '-'

    def reader_expected(self, c):
        """Messages of the log reader under the filters of `c`, limited to the first/last N, without the loader."""
        F = self.F
        M = F['M']
        rd = F['MixedLogReader'](self.path, num_threads=1, return_bytes=False, return_message_index=True)
        kw = kwargs_of(F, c)
        rd.filter_in_place(kw.get('time_range', F['TimeRange']()))
        rd.filter_in_place(kw.get('message_types', list(M.message_type_to_class.keys())))
        rd.filter_in_place(None, source_ids=set(c['src']) if c['src'] is not None else rd.get_available_source_ids())
        if c['rp1'] and not c['rsys']:
            rd.filter_out_invalid_p1_times()
        out = []
        while True:
            try:
                header, payload, mi = rd.read_next(require_p1_time=c['rp1'], require_system_time=c['rsys'])
            except StopIteration:
                break
            if payload is None:
                continue
            out.append((int(header.message_type), int(mi)))
        full = list(out)
        if c['max'] is not None:
            out = out[:c['max']] if c['max'] >= 0 else out[c['max']:]
        return out, full


def probe_drops_untimed(F):
    fi = F['FileIndex'](data=[(float('nan'), 13004, 0), (1.0, 10000, 100), (float('nan'), 13004, 300)])
    return 1 if len(fi.get_time_range(hint='remove_nans')) == 1 else 0


def probe_keeps_unavailable(F, env):
    """Does reader.filter_in_place(source_ids=...) keep a requested id it has not discovered in the log?"""
    rd = F['MixedLogReader'](env.path, num_threads=1)
    rd.filter_in_place(None, source_ids={env.avail[0] if env.avail else 0, 999})
    return 1 if 999 in set(rd.requested_source_ids) else 0


def registry_text(F):
    M = F['M']
    rows = []
    for t, cls in M.message_type_to_class.items():
        rows.append('%d:1:%d:%d:%d:%d' % (int(t), int(t in M.messages_with_p1_time), int(t in M.messages_with_system_time),
                                          int('p1_time' in cls().__dict__), int('p1_time' in cls.to_numpy([]))))
    if M.messages_with_p1_time & M.messages_with_system_time:
        raise fv.InfraError('registry: a message type has both P1 and system time (hypothesis Reg.Disjoint of the theorems)')
    return ','.join(rows)


# ---- signatures -------------------------------------------------------------------------------------------
KEY_NAMES = {'keep': 'keep_messages', 'numpy': 'return_numpy', 'align': 'time_align', 'aligned': 'aligned_message_types',
             'types': 'message_types', 'max': 'max_messages', 'tr': 'time_range', 'src': 'source_ids', 'rp1': 'require_p1_time',
             'rsys': 'require_system_time', 'ridx': 'return_message_index', 'rmnan': 'remove_nan_times', 'ic': 'ignore_cache',
             'inorder': 'return_in_order'}


def transparent(env, hist):
    out, _ = env.run_history(hist)
    return len(out) == len(hist) and out[-1] == env.fresh(hist[-1])


def shrink_history(env, hist):
    """Smallest sub-sequence of the earlier calls after which the last call still differs from a fresh loader."""
    last = hist[-1]
    earlier = hist[:-1]
    for k in range(1, len(earlier) + 1):
        for sub in itertools.combinations(range(len(earlier)), k):
            h = [earlier[i] for i in sub] + [last]
            if not transparent(env, h):
                return h
    return hist


def transparency_signature(env, hist):
    if len(hist) != 2:
        return 'C12/cache-not-transparent:history-of-%d' % len(hist)
    c0, c1 = hist
    out, _ = env.run_history(hist)
    if out[-1].startswith('E:') and not env.fresh(c1).startswith('E:'):
        return 'C12/cached-entry-append-raises'
    diff = [k for k in DEFAULT_CALL if c0[k] != c1[k]]
    culprits = []
    for k in diff:
        c0b = dict(c0)
        c0b[k] = c1[k]
        if transparent(env, [c0b, c1]):
            culprits.append(k)
    if len(culprits) == 1 or (culprits and set(culprits) <= {'align', 'aligned'}):
        k = culprits[0]
        if k == 'types':
            if c1['max'] is not None:
                return 'C12/cache-key-omits:message_types+max_messages'
            if c1['align'] != 0 and not c1['inorder']:
                return 'C12/cache-key-omits:message_types+time_align'
            ids = [x for part in out[-1].split('|')[1:] for x in part.split('/')[1].split('.') if x != '-']
            if len(ids) != len(set(ids)):
                return 'C12/cached-type-reread-appends'
            return 'C12/cached-entry-modified-on-partial-hit'
        return 'C12/cache-key-omits:' + KEY_NAMES[k]
    if not diff:
        return 'C12/repeated-call-differs'
    return 'C12/cache-not-transparent:' + '+'.join(sorted(KEY_NAMES[k] for k in diff))


def spec_ids(env, c, t, ids):
    """What a fresh read of `c` must show for type `t` given the expected ordinals."""
    return lst([str(i) for i in ids])


def check_fresh_spec(ctx, env, c, fresh_text):
    """Fresh read = reader under the same filters, first/last N across types in file order (no alignment)."""
    if c['align'] != 0 and not c['inorder']:
        return
    if fresh_text.startswith('E:'):
        ctx.violation('C12/fresh-read-raises', 'read() on a fresh loader raised %s' % fresh_text[2:],
                      replay_obj(env, [c]))
        return
    exp, full = env.reader_expected(c)
    if c['inorder']:
        got = fresh_text.split('/')[1]
        want = lst([str(o) for _, o in exp])
        bad = got != want
        if c['ridx'] and fresh_text.split('/')[2] != want:
            bad = True
    else:
        bad = False
        for part in fresh_text.split('|')[1:]:
            f = part.split('/')
            t = int(f[0])
            ids = [o for tt, o in exp if tt == t]
            want = lst([str(o) for o in ids])
            numpy = c['numpy']
            if not (numpy and not c['keep']):
                if f[1] != want:
                    bad = True
            if c['ridx'] and not (numpy and c['rmnan'] and t in (P, G, A)) and f[2] != want:
                bad = True
            if numpy and t in INSTRUMENTED:
                wa = [o for o in ids if not (c['rmnan'] and t in (P, G, A) and env.spec[o][1] is None)]
                if f[3] == '~' and not wa:
                    # "Nothing to read" (every requested type filtered out by require_*): _read returns before the
                    # numpy conversion, so the (empty) entries carry no arrays at all.  Not a statement of C12.
                    ctx.count('fresh_numpy_not_converted_nothing_to_read')
                elif f[3] != lst([str(o) for o in wa]):
                    bad = True
    if not bad:
        return
    n = c['max']
    sig = 'C12/fresh-read-differs-from-reader'
    if n is not None:
        # identities actually returned: from the messages, or from the numpy columns when the messages were cleared
        col = 3 if (c['numpy'] and not c['keep'] and not c['inorder']) else 1
        got = set()
        for part in (fresh_text.split('|')[1:] if not c['inorder'] else [fresh_text]):
            f = part.split('/')
            if len(f) > col and f[col] not in ('-', '~', '?'):
                got |= set(f[col].split('.'))
        first = full[:abs(n)]
        if n < 0 and len(full) > abs(n) and got == set(str(o) for _, o in first) and first != exp:
            sig = 'C12/last-n-returns-first-n'
        elif len(got) < len(exp):
            if c['src'] is not None and set(c['src']) != set(env.avail):
                sig = 'C12/max-messages-before-source-filter'
            elif c['rp1']:
                sig = 'C12/max-messages-before-p1-time-filter'
            elif c['rsys']:
                sig = 'C12/max-messages-before-system-time-filter'
    ctx.violation(sig, 'fresh read(%s) returned %s; the reader under the same filters gives %s' %
                  (describe(c), fresh_text[:300], exp[:40]), replay_obj(env, [c]))


def describe(c):
    return ', '.join('%s=%s' % (KEY_NAMES.get(k, k), c[k]) for k in DEFAULT_CALL if c[k] != DEFAULT_CALL[k]) or 'defaults'


def replay_obj(env, hist):
    return {'log': [list(s) for s in env.spec], 'history': hist,
            'how': 'log entries are (type, P1 time in half seconds or null, source id); each history entry is one read() call'}


# ---- the run ----------------------------------------------------------------------------------------------
def one_history(ctx, F, env, hist, reg, drops, lines, pending):
    rng = ctx.rng
    out, hits = env.run_history(hist)
    ctx.count('calls', len(hist))
    ctx.count('cache_hits_observed', hits)
    for c in hist:
        for k in DEFAULT_CALL:
            if c[k] != DEFAULT_CALL[k]:
                ctx.count('arg_' + KEY_NAMES[k])
        if c['max'] is not None:
            ctx.count('max_negative' if c['max'] < 0 else 'max_nonnegative')
    # stage D (1): every prefix is a history; its last call must equal the fresh call
    for i in range(len(out)):
        f = env.fresh(hist[i])
        if out[i] != f:
            small = shrink_history(env, hist[:i + 1])
            sig = transparency_signature(env, small)
            got, _ = env.run_history(small)
            ctx.violation(sig, 'after %s, read(%s) returned %s; a fresh loader returns %s' %
                          (' ; '.join('read(%s)' % describe(c) for c in small[:-1]), describe(small[-1]),
                           got[-1][:300], env.fresh(small[-1])[:300]), replay_obj(env, small))
            break
    # stage C
    sels = {}
    for c in hist:
        k, s = env.selection(c)
        sels[k] = s
    reader = '%s/%s/%s' % (drops, dots(env.avail, '-'), '|'.join('%s=%s' % (k, dots(v)) for k, v in sorted(sels.items())))
    line = 'loader %s %s %s %s %s' % (VARIANT, reg, reader, env.log_text(), ';'.join(call_text(F, c) for c in hist))
    lines.append(line)
    pending.append((env, hist, out))
    nontrivial = len(hist) >= 2 and any(ch.isdigit() for ch in out[-1].split('|', 1)[-1].replace('/', ' ')) and hits > 0
    ctx.case(line, nontrivial=nontrivial)


def run(ctx, nlogs, per_log, maxlen, fresh_spec=True):
    F = fe()
    reg = registry_text(F)
    rng = ctx.rng
    lines, pending = [], []
    envs = []
    # regression corpus: the two-call histories of Loader.legacy_* (C12_legacy_fails) replayed on the real code
    corpus_spec = [(E, None, 0), (P, 2, 0), (P, 4, 1), (A, 4, 0), (G, 4, 0), (E, None, 0), (A, 6, 0), (G, 6, 1), (E, None, 0), (P, 8, 0)]
    env0 = Env(F, corpus_spec, 'corpus')
    envs.append(env0)
    nan_flag, keep_flag = probe_drops_untimed(F), probe_keeps_unavailable(F, env0)
    ctx.count('reader_remove_nans_effective', nan_flag)
    ctx.count('reader_keeps_undiscovered_source_ids', keep_flag)
    drops = '%d/%d' % (nan_flag, keep_flag)       # the measured reader behaviours handed to the model
    D = DEFAULT_CALL
    corpus = [
        [dict(D, types=(P, A), numpy=True, keep=False), dict(D, types=(P, A))],
        [dict(D, types=(P, G, A), align=1), dict(D, types=(P, G, A))],
        [dict(D, types=(P, A), max=2), dict(D, types=(A,), max=2)],
        [dict(D, types=(P,)), dict(D, types=(P, A))],
        [dict(D, types=(P,)), dict(D, types=(P,), numpy=True)],
        [dict(D, types=(P,), numpy=True, ridx=True), dict(D, types=(P, A), numpy=True, ridx=True)],
        [dict(D, types=(E,), numpy=True), dict(D, types=(E, P), numpy=True)],
        [dict(D, types=(P, A), align=1), dict(D, types=(P,)), dict(D, types=(P, A), align=1)],
        [dict(D, types=(P, A), align=2, numpy=True), dict(D, types=(P,), numpy=True), dict(D, types=(P, A), align=2, numpy=True)],
        [dict(D, types=(P, E), src=(0,), max=3)],
        [dict(D, types=(P, E), src=(1,), max=-2)],
        [dict(D, types=(P, E), rp1=True, max=2)],
        [dict(D, types=(P, E), rsys=True, max=-2)],
        [dict(D, types=(P, E), src=(0,), max=-2, inorder=True, ridx=True)],
    ]
    for h in corpus:
        one_history(ctx, F, env0, h, reg, drops, lines, pending)
        ctx.count('corpus_histories')
    for li in range(nlogs):
        nan_p1 = rng.random() < 0.25
        spec = gen_log(rng, nan_p1)
        env = Env(F, spec, 'log%d' % li)
        if set(env.avail) != set(x[2] for x in spec):
            ctx.count('logs_skipped_source_discovery_incomplete')
            continue
        envs.append(env)
        ctx.count('logs')
        ctx.count('logs_with_untimed_p1_messages', int(nan_p1))
        ctx.count('messages', len(spec))
        for _ in range(per_log):
            hist = gen_history(rng, spec, nan_p1, rng.choice(list(range(1, maxlen + 1)) + [maxlen]))
            one_history(ctx, F, env, hist, reg, drops, lines, pending)
            if ctx.elapsed() > (900 if ctx.thorough else 70):
                break
    # stage D (2): fresh-read specification against the reader, and the Lean specification `freshSpec` against the code
    spec_lines, spec_pending = [], []
    if fresh_spec:
        for env in envs:
            seen = set()
            for (e2, hist, out) in pending:
                if e2 is not env:
                    continue
                for c in hist:
                    k = call_text(F, c)
                    if k in seen:
                        continue
                    seen.add(k)
                    check_fresh_spec(ctx, env, c, env.fresh(c))
                    ctx.count('fresh_spec_checked')
                    tk, sel = env.selection(c)
                    reader = '%s/%s/%s=%s' % (drops, dots(env.avail, '-'), tk, dots(sel))
                    spec_lines.append('loaderspec %s %s %s %s' % (reg, reader, env.log_text(), k))
                    spec_pending.append((env, c))
    spec_outs = ctx.driver(spec_lines)
    for (env, c), so in zip(spec_pending, spec_outs):
        f = env.fresh(c)
        if f != mask_model(so):
            ctx.violation('C12/fresh-read-differs-from-spec', 'fresh read(%s) returned %s; the specification freshSpec gives %s' %
                          (describe(c), f[:300], mask_model(so)[:300]), replay_obj(env, [c]))
        ctx.count('lean_spec_checked')
    outs = ctx.driver(lines)
    for (env, hist, out), mo in zip(pending, outs):
        impl = ';'.join(out)
        if impl != mask_model(mo):
            ctx.disagree('loader != model on %s : impl=%s model=%s' % (' ; '.join(describe(c) for c in hist), impl[:300], mask_model(mo)[:300]),
                         replay_obj(env, hist))
        ctx.cov['traces_validated_against_impl'] += 1
    for (env, hist, out), mo in list(zip(pending, outs))[14:17]:
        ctx.sample({'log': env.log_text(), 'history': [describe(c) for c in hist], 'per_call': [o[:160] for o in out]})


def search(ctx):
    run(ctx, 25, 40, 3)


def check(ctx):
    ctx.cov['rule'] = ('logs of 6-16 messages built with the repository encoder (Pose, GNSSInfo, PoseAux with P1 times that coincide '
                       'across types, repeat and occasionally step back; EventNotification with system time only; ResetRequest with '
                       'no time; two source ids; a quarter of the logs contain P1-type messages without valid P1 time and are read '
                       'without alignment); call histories of length <= 3 (quick) / <= 4 (thorough) over message-type subsets '
                       '(including all types and a registered type absent from the log), absolute/relative time ranges, source-id '
                       'sets (including unavailable ones), max_messages of both signs and 0, require_p1_time, require_system_time, '
                       'return_in_order, return_message_index, return_numpy, keep_messages, remove_nan_times, time_align '
                       'DROP/INSERT with and without aligned_message_types, ignore_cache; later calls are mostly earlier calls with '
                       '0-3 arguments changed. Compared per call and per type: identities of the returned messages (ordinal embedded '
                       'in each payload, d<time> for inserted defaults), message_index, and the per-column identities of the numpy '
                       'members. non-trivial = at least two calls, the last returns a message, and some returned MessageData object '
                       'was served from the cache; distinct = distinct (log, history)')
    ctx.assumptions += [
        'the log reader (MixedLogReader / FileIndex: which entries a TimeRange selects, source-id discovery, remove_nans) is a '
        'parameter of the model; its answers are taken from the real reader on every run (properties C10/C11 specify it)',
        'after DataLoader.open(): have_index() is True and _need_t0 = _need_system_t0 = False (asserted on every loader, after every call)',
        'max_bytes = None and return_bytes = False in every call (return_bytes with return_numpy makes MessageData.to_numpy raise '
        'a swallowed ValueError half way); every generated message deserialises; requested types are registered',
        'no message type has both P1 and system time (checked on the registry on every run; hypothesis of the theorems)',
        'every source identifier of the log is among the reader\'s available ids (<= 10 messages per type; otherwise C10\'s open finding)',
        'time alignment is modelled for P1 times that are not NaN (logs with untimed P1-type messages are read with time_align = NONE)',
    ]
    ctx.prove(MODULES)
    try:
        if ctx.thorough:
            run(ctx, 150, 80, 4)
        else:
            run(ctx, 30, 40, 3)
    except fv.InfraError:
        if not ctx.proof_failures:
            raise
    return fv.finish(ctx, 'proof', search)


def replay(ctx, path):
    obj = json.load(open(path))
    r = obj['input']
    F = fe()
    spec = [(int(t), None if t2 is None else int(t2), int(s)) for t, t2, s in r['log']]
    env = Env(F, spec, 'replay')
    hist = []
    for c in r['history']:
        c = dict(c)
        for k in ('types', 'src', 'aligned', 'tr'):
            if c[k] is not None:
                c[k] = tuple(c[k])
        hist.append(c)
    lines, pending = [], []
    one_history(ctx, F, env, hist, registry_text(F), '%d/%d' % (probe_drops_untimed(F), probe_keeps_unavailable(F, env)),
                lines, pending)
    for c in hist:
        check_fresh_spec(ctx, env, c, env.fresh(c))
    outs = ctx.driver(lines)
    for (env, hist, out), mo in zip(pending, outs):
        if ';'.join(out) != mask_model(mo):
            ctx.disagree('loader != model: impl=%s model=%s' % (';'.join(out)[:300], mask_model(mo)[:300]), replay_obj(env, hist))
    return fv.finish(ctx, 'proof', None)
