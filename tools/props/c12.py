"""C12 - data-loader results do not depend on what was read before.

Stage C: call histories on one DataLoader vs. the Lean model `Loader.runHist` (driver command `loader`), per call.
Stage D: (1) the property as stated: every call of a history returns what the same call returns on a freshly opened
DataLoader (also after a call that raised: the harness goes on where the model stops); the loader's set of available
source identifiers - the default of source_ids - is observed after every call, and a history that changed it is extended
by a default read that bypasses the cache; (2) a fresh read returns the messages of the log reader under the same filters,
limited to the first / last N across the requested types in file order (the reader is driven directly, without the
loader; when the reader refuses the filters, the loader must raise the same exception); a fresh read with the default
source_ids equals the fresh read that names get_available_source_ids(); the Lean specification `freshSpec` as oracle.

Logs: short ones (<= 10 messages per type) and ones longer than what the reader samples for its available source
identifiers (identifiers that first appear late, that disappear, single-source logs), logs without any P1 time, and logs
larger than the prefix DataLoader.open() searches for the first system-timestamped message (what open() looks for - system
time, P1 time, a source id - lies in the head or only beyond that prefix); there the first read on a fresh loader is the
point: a system-timestamped type with source_ids / relative and absolute time ranges, compared with the same read later on
the loader, with the reader and with the specification.  Relative time ranges with an explicit p1_t0; open() called again on
a used loader (same log / another log).
Parts of an across-types result replaced (gen_part_history, part_sweep): a read whose result applies across its types (a
maximum of either sign, time alignment), reads of strict subsets of those types (each single type in turn, each pair, ...)
with other arguments, then the first read again; every call against the fresh loader and the model.
Argument objects used again by the caller (judge_shared_session): the message_types / time_range / source_ids /
aligned_message_types objects of a call are built once and passed to 2-4 reads on two logs with different t0 - on two loaders
that are alive at the same time, and on one loader after open() of the other log; every read must equal the fresh-loader
result for its log (fresh loader, new objects) and must leave the objects as a deep copy taken before the call describes
them (TimeRange: bounds, absolute, p1_t0, the in-range latches; containers: type and elements).
Logs with measurement types that carry `details` (RawIMUOutput, RawWheelSpeedOutput) and require_system_time histories over
them (run_details): judged by the fresh loader and the reader only (the Lean registry has no such kind of type).
Calls: message_types is spelled as a list of MessageType, of integers, as a numpy array, as payload classes, a tuple, a
set, a bare MessageType / class, or a mixture with None entries.
"""
import atexit
import itertools
import json
import os
import shutil
import tempfile

import numpy as np

import fv

MODULES = ['FeVerif.Props.C12']
VARIANT = os.environ.get('C12_VARIANT', '1111111')   # which repairs the model has (1111111 = the code as it is)

P, G, A, E, R, X = 10000, 10001, 10003, 13004, 13002, 11000
INSTRUMENTED = (P, G, A, E, R, X)
# PlatformStorageData with a payload of FILL bytes: no P1 time, no system time.  The filler of the logs that are larger than
# the prefix DataLoader.open() reads when it looks for the first system-timestamped message (1 MiB in the code; measured
# on the real code on every run, see probe_open_window).
Z = 13113
FILL = 16000
# Measurement types that carry `details` (MeasurementDetails): P1 time in details.p1_time, and get_system_time_ns() that is
# never None (the reception time when details.measurement_time_source says so, else NaN) although the class has no
# system_time_ns member.  Used in the logs of run_details() only (the Lean model's registry has no such kind of type).
I, W = 11002, 11125
DEFAULT_OPEN_WINDOW = 1 << 20
MAX_OPEN_WINDOW = 8 << 20
_BASE_ATTRS = ('message_type', 'message_class', 'params', 'messages', 'message_bytes', 'message_index', 'num_messages')

_tmp = None


def tmpdir():
    global _tmp
    if _tmp is None:
        _tmp = tempfile.mkdtemp(prefix='c12_')
        atexit.register(shutil.rmtree, _tmp, True)
    return _tmp


def fe():
    import fusion_engine_client.messages as M
    from fusion_engine_client.analysis.data_loader import DataLoader, MessageData, TimeAlignmentMode
    from fusion_engine_client.parsers import FusionEngineEncoder, MixedLogReader
    from fusion_engine_client.parsers.file_index import FileIndex
    from fusion_engine_client.utils.time_range import TimeRange
    return dict(M=M, DataLoader=DataLoader, MessageData=MessageData, TimeAlignmentMode=TimeAlignmentMode,
                Encoder=FusionEngineEncoder, MixedLogReader=MixedLogReader, FileIndex=FileIndex, TimeRange=TimeRange)


# ---- logs -------------------------------------------------------------------------------------------
def build_message(F, t, ord_, t2):
    M = F['M']
    if t == P:
        m = M.PoseMessage()
        m.gps_time = M.Timestamp(1000.0 + ord_)
    elif t == G:
        m = M.GNSSInfoMessage()
        m.gps_time = M.Timestamp(1000.0 + ord_)
    elif t == A:
        m = M.PoseAuxMessage()
        m.velocity_enu_mps = np.array([float(ord_), 0.0, 0.0])
    elif t == E:
        m = M.EventNotificationMessage()
        m.system_time_ns = ord_ * 1000000000
    elif t == R:
        m = M.ResetRequest()
        m.reset_mask = ord_
    elif t == Z:
        m = M.PlatformStorageDataMessage()
        m.data = int(ord_).to_bytes(4, 'little') + bytes(FILL - 4)
    elif t in (I, W):
        m = M.RawIMUOutput() if t == I else M.RawWheelSpeedOutput()
        if t == I:
            m.temperature_degc = float(ord_)
        else:
            m.gear = M.GearType(ord_ % 4)
        if t2 is not None:
            m.details.p1_time = M.Timestamp(t2 / 2.0)
        if ord_ % 3 == 0:
            # every third one was timestamped on reception: the only ones with a valid system time
            m.details.measurement_time_source = M.SystemTimeSource.TIMESTAMPED_ON_RECEPTION
            m.details.measurement_time = M.Timestamp(100.0 + ord_)
        return m
    else:
        raise ValueError(t)
    if t2 is not None:
        m.p1_time = M.Timestamp(t2 / 2.0)
    return m


def ident(m):
    """Ordinal embedded in a payload, or d<scaled time> for a default-constructed (inserted) one."""
    n = type(m).__name__
    v = None
    if n in ('PoseMessage', 'GNSSInfoMessage'):
        v = float(m.gps_time) - 1000.0
    elif n == 'PoseAuxMessage':
        v = float(m.velocity_enu_mps[0])
    elif n == 'EventNotificationMessage':
        v = None if m.system_time_ns is None else m.system_time_ns / 1e9
    elif n == 'ResetRequest':
        v = float(m.reset_mask)
    elif n == 'PlatformStorageDataMessage':
        v = float(int.from_bytes(bytes(m.data[:4]), 'little'))
    elif n == 'RawIMUOutput':
        v = float(m.temperature_degc)
    if v is None or np.isnan(v):
        return 'd%d' % int(round(float(m.p1_time) * 2))
    return str(int(round(v)))


def gen_short_log(rng, nan_p1):
    """[(type, scaled P1 time or None, source id)] in file order; at most 10 messages per type; >= 1 timed."""
    n = rng.choice([6, 9, 12, 16])
    two_src = rng.random() < 0.7
    t2 = rng.choice([20, 21, 40])
    spec = []
    counts = {}
    weights = [(P, 4), (G, 2), (A, 3), (E, 2), (R, 1)]
    pool = [t for t, w in weights for _ in range(w)]
    while len(spec) < n:
        t = rng.choice(pool)
        if counts.get(t, 0) >= 10:
            continue
        counts[t] = counts.get(t, 0) + 1
        src = rng.choice([0, 0, 1]) if two_src else 0
        if t in (P, G, A):
            if nan_p1 and rng.random() < 0.2:
                spec.append((t, None, src))
            else:
                spec.append((t, t2, src))
        else:
            spec.append((t, None, src))
        r = rng.random()
        if r < 0.35:
            t2 += 2
        elif r < 0.5:
            t2 += 1
        elif r < 0.55:
            t2 = max(2, t2 - 1)      # time going backwards by half a second
    if not any(s[1] is not None for s in spec):
        spec[0] = (P, t2, 0)
    if two_src and rng.random() < 0.8:
        # The reader discovers source ids from the first messages of each type, continuing from where the previous
        # type's scan stopped (C10); both ids among the first messages of the lowest type make the discovery complete.
        # (One short log in five is left as generated: an id may then go undiscovered.)
        low = min(s[0] for s in spec)
        pos = [i for i, s in enumerate(spec) if s[0] == low]
        if len(pos) < 2:
            spec.append((low, spec[pos[0]][1], 0))
            pos.append(len(spec) - 1)
        spec[pos[0]] = (low, spec[pos[0]][1], 0)
        spec[pos[1]] = (low, spec[pos[1]][1], 1)
    return spec


SOURCE_SCENARIOS = ['single', 'single-nonzero', 'late', 'late', 'late', 'late2', 'early', 'early+late', 'early+late', 'mixed',
                    'late-only-tail']


def gen_long_log(rng, nan_p1):
    """A log that is longer than what the reader samples for its set of available source identifiers.

    The reader walks forward through the file, ten messages of each type in ascending type order (C10).  The body of
    the log is generated until that walk is complete (so 10 messages for one type, ~40 for two, ~90 for three), then
    a tail follows.  Source identifiers by scenario: one identifier only; identifiers used throughout; identifiers used
    only in the first few messages (they disappear); identifiers first used in the tail (one or two, the second later
    than the first); a tail that uses only new identifiers; identifiers drawn at random per message.  Which
    identifiers the reader reports as available is measured on the real reader (Env.avail), not assumed."""
    types = rng.choice([(P,), (A,), (P, A), (P, A), (P, G), (P, E), (A, E), (G, R), (P, G, A), (P, A, E)])
    if len(types) == 3 and rng.random() < 0.5:
        types = types[:2]
    scen = rng.choice(SOURCE_SCENARIOS)
    common = rng.choice([[0], [0], [0, 1], [1, 3]])
    if scen == 'single':
        common = [0]
    elif scen == 'single-nonzero':
        common = [rng.choice([1, 3])]
    early_id, late_a, late_b = 2, 7, 8
    early_len = rng.choice([1, 3, 6])
    t2 = rng.choice([20, 21, 40])
    spec = []
    order = sorted(types)

    def time_of(t):
        if t in (P, G, A):
            return None if (nan_p1 and rng.random() < 0.15) else t2
        return None

    def step():
        nonlocal t2
        r = rng.random()
        if r < 0.35:
            t2 += 2
        elif r < 0.5:
            t2 += 1
        elif r < 0.53:
            t2 = max(2, t2 - 1)

    # body: until the sampling walk (10 of the lowest type, then 10 of the next from there on, ...) is complete
    k, c = 0, 0
    while k < len(order):
        t = rng.choice(types)
        i = len(spec)
        if scen in ('early', 'early+late') and i < early_len:
            src = early_id if (i == 0 or rng.random() < 0.6) else rng.choice(common)
        elif scen == 'mixed':
            src = rng.choice(common + [early_id, late_a] if i > 2 * early_len else common + [early_id])
        else:
            src = rng.choice(common)
        spec.append((t, time_of(t), src))
        step()
        if t == order[k]:
            c += 1
            if c == 10:
                k, c = k + 1, 0
    # margin, then the tail
    for _ in range(rng.choice([0, 1, 4])):
        t = rng.choice(types)
        spec.append((t, time_of(t), rng.choice(common)))
        step()
    tail = rng.choice([4, 8, 14])
    for j in range(tail):
        t = rng.choice(types)
        if scen in ('late', 'early+late'):
            src = late_a if (j == 0 or rng.random() < 0.5) else rng.choice(common)
        elif scen == 'late2':
            pool = common + [late_a] + ([late_b] if j >= tail // 2 else [])
            src = late_a if j == 0 else (late_b if j == tail - 1 else rng.choice(pool))
        elif scen == 'late-only-tail':
            src = late_a
        elif scen == 'mixed':
            src = rng.choice(common + [late_a, late_b])
        else:
            src = rng.choice(common)
        spec.append((t, time_of(t), src))
        step()
    if not any(s[1] is not None for s in spec):
        spec[0] = (P, t2, spec[0][2])
    return spec


def gen_untimed_log(rng):
    """A log without any P1 time (EventNotification / ResetRequest only): a read with a time range raises in the reader."""
    n = rng.choice([3, 5, 8])
    two = rng.random() < 0.4
    return [(rng.choice([E, E, R]), None, rng.choice([0, 1]) if two else 0) for _ in range(n)]


PROBE_SCENARIOS = ['sys-late', 'sys-late', 'sys-late', 'sys-late-one-type', 'sys-late-one-type', 'p1-late', 'all-late',
                   'all-late-no-head', 'sys-early+late', 'sys-just-inside']


def gen_probe_log(rng, nan_p1, nfill):
    """A log that is larger than the prefix DataLoader.open() reads to establish its state.

    open() looks for the first system-timestamped message with a read limited to max_bytes (the "probe window", 1 MiB in
    the code; `nfill` fillers of FILL bytes are the first to reach past it); the reader samples the available source
    identifiers from the first messages of each type; t0 comes from the index.  The log is a head (0-9 small messages),
    the fillers, and a tail of 6-18 small messages that lies beyond the window.  By scenario, what open() probes for is
    found in the head or only in the tail: the first system-timestamped message (EventNotification), the first message
    with P1 time, the first P1 time of some of the types (a head of one P1 type only), everything (a head of ResetRequest
    only / no head at all: the fillers come first); as controls a system-timestamped message in the head as well, and two
    fillers fewer so that the tail still begins inside the window.  Source identifiers: one or two used throughout, and
    (half of the logs) one that is used in the tail only."""
    scen = rng.choice(PROBE_SCENARIOS)
    common = rng.choice([[0], [0, 1], [0, 1], [1, 3]])
    late_id = 7 if rng.random() < 0.5 else None
    t2 = rng.choice([20, 21, 40])
    spec = []

    def time_of(t):
        if t in (P, G, A):
            return None if (nan_p1 and rng.random() < 0.15) else t2
        return None

    def step():
        nonlocal t2
        r = rng.random()
        if r < 0.45:
            t2 += 2
        elif r < 0.6:
            t2 += 1
        elif r < 0.63:
            t2 = max(2, t2 - 1)

    p1_types = rng.choice([(P,), (G,), (P, G), (P, A), (P, G, A)])
    if scen == 'sys-late':
        head_types = list(p1_types) + [R]
    elif scen == 'sys-late-one-type':
        head_types = [rng.choice(p1_types)]
    elif scen == 'p1-late':
        head_types = [E, E, R]
    elif scen == 'all-late':
        head_types = [R]
    elif scen == 'all-late-no-head':
        head_types = []
    else:
        head_types = list(p1_types) + [E, R]
    nhead = rng.choice([1, 2, 5, 9]) if head_types else 0
    for i in range(nhead):
        t = head_types[i % len(head_types)] if i < len(head_types) else rng.choice(head_types)
        spec.append((t, time_of(t), common[i % len(common)]))
        step()
    n = nfill - 2 if scen == 'sys-just-inside' else nfill + rng.choice([0, 0, 1, 3])
    for _ in range(max(n, 1)):
        spec.append((Z, None, rng.choice(common)))
    tail_types = [E] + list(p1_types) + ([R] if rng.random() < 0.3 else [])
    cyc = rng.random() < 0.5
    ntail = rng.choice([6, 9, 12, 18])
    for j in range(ntail):
        t = tail_types[j % len(tail_types)] if cyc or j < len(tail_types) else rng.choice(tail_types)
        pool = common + ([late_id] if late_id is not None else [])
        src = pool[j % len(pool)] if cyc else rng.choice(pool)
        spec.append((t, time_of(t), src))
        if not cyc or j % len(tail_types) == len(tail_types) - 1:
            step()
    if not any(s[1] is not None for s in spec):
        spec[-1] = (P, t2, spec[-1][2])
    return spec


def gen_log(rng, nan_p1, long_share=0.4, nfill=None):
    r = rng.random()
    if r < 0.07:
        return gen_untimed_log(rng)
    if r < 0.07 + long_share:
        return gen_long_log(rng, nan_p1)
    if nfill is not None and r < 0.07 + long_share + 0.08:
        return gen_probe_log(rng, nan_p1, nfill)
    return gen_short_log(rng, nan_p1)


def write_log(F, spec, name):
    path = os.path.join(tmpdir(), name + '.p1log')
    enc = F['Encoder']()
    with open(path, 'wb') as f:
        for i, (t, t2, src) in enumerate(spec):
            f.write(enc.encode_message(build_message(F, t, i, t2), source_identifier=src))
    idx = os.path.join(tmpdir(), name + '.p1i')
    if os.path.exists(idx):
        os.remove(idx)
    return path


# ---- calls ------------------------------------------------------------------------------------------
DEFAULT_CALL = dict(types=None, tr=None, src=None, ic=False, max=None, rp1=False, rsys=False, inorder=False, ridx=False,
                    numpy=False, keep=False, rmnan=True, align=0, aligned=None, tform='enum', reopen=None)
# reopen: before the call, open() is called on the same loader - 'same': with the log it has open, 'other': with the other
# log of the pair (Env.alt; the loader then stays on that log until the next 'other').  The call must return what a loader
# freshly opened on that log returns.
# how message_types is spelled in the call (the model sees the normalised set): a list of MessageType, of plain integers,
# a numpy array of the values, a list of payload classes, a tuple, a set, or (one type) the bare MessageType / class
TFORMS = ['int', 'ndarray', 'class', 'tuple', 'set', 'single', 'single-class', 'mixed']


def src_choices(spec, avail):
    """Source-id sets worth requesting on this log: every single id, all ids, exactly what the reader reports as
    available, the ids the reader did not discover, the available ones plus one undiscovered, an id absent from the log."""
    ids = sorted(set(s[2] for s in spec))
    avail = sorted(avail) if avail is not None else ids
    hidden = [i for i in ids if i not in avail]
    absent = 5
    out = [(i,) for i in ids] + [tuple(ids), tuple(avail), (ids[0], absent), (absent,)]
    if len(ids) > 2:
        out.append(tuple(ids[:2]))
        out.append(tuple(ids[1:]))
    if hidden:
        out += [tuple(hidden), tuple(sorted(avail + hidden[:1])), (hidden[0],), (hidden[0],)]
    return [o for o in out if o]


def gen_call(rng, spec, nan_p1, avail=None):
    present = sorted(set(s[0] for s in spec))
    times = [s[1] for s in spec if s[1] is not None]
    lo, hi = (min(times), max(times)) if times else (20, 40)
    c = dict(DEFAULT_CALL)
    r = rng.random()
    if r < 0.12:
        c['types'] = None
    else:
        k = rng.choice([1, 1, 2, 2, 3, 4])
        pool = present + ([X] if rng.random() < 0.15 else [])
        c['types'] = tuple(sorted(rng.sample(pool, min(k, len(pool)))))
    if c['types'] is not None and rng.random() < 0.25:
        c['tform'] = rng.choice(TFORMS)
    if rng.random() < (0.35 if times else 0.6):
        absolute = rng.random() < 0.6
        t0 = None
        if not absolute and times and rng.random() < 0.3:
            # a relative range with an explicit p1_t0: evaluated from that t0, not from the first P1 time of the log
            t0 = rng.choice([lo, lo + 2, lo + 4, (lo + hi) // 2, rng.choice(times)])
        base = 0 if absolute else (lo if t0 is None else t0)
        grid = [None, None, lo - 2, lo, lo + 2, (lo + hi) // 2, hi, hi + 1, hi + 10]
        if times:
            # bounds at P1 times that occur in the log (in a log with a gap - a head, fillers, a tail - the fixed grid
            # above has no point inside the tail)
            u = rng.choice(times)
            grid += [u, u + 1, rng.choice(times) + 2]
        s, e = rng.choice(grid), rng.choice(grid)
        s = None if s is None else (s - base) / 2.0
        e = None if e is None else (e - base) / 2.0
        if s is not None and s < 0:
            s = 0.0
        c['tr'] = (s, e, absolute) if t0 is None else (s, e, False, t0)
    if rng.random() < 0.3:
        c['src'] = rng.choice(src_choices(spec, avail))
    if rng.random() < 0.45:
        c['max'] = rng.choice([1, 2, 3, 5, 50, -1, -2, -3, -5, -50, 0])
        if len(spec) > 20 and rng.random() < 0.5:
            # long logs: cuts that fall inside the body / the tail, and one larger than the log
            n = len(spec)
            c['max'] = rng.choice([1, -1]) * rng.choice([4, 8, 10, 11, n // 4, n // 2, n - 6, n - 1, n, n + 1, 3 * n])
    c['rp1'] = rng.random() < 0.2
    c['rsys'] = rng.random() < 0.06
    c['inorder'] = rng.random() < 0.12
    c['ridx'] = rng.random() < 0.4
    c['numpy'] = rng.random() < 0.4
    c['keep'] = rng.random() < 0.5
    c['rmnan'] = rng.random() < 0.8
    if not nan_p1 and rng.random() < 0.3:
        c['align'] = rng.choice([1, 2])
        if rng.random() < 0.3:
            c['aligned'] = tuple(sorted(rng.sample([P, G, A, X], rng.choice([1, 2, 3]))))
    c['ic'] = rng.random() < 0.1
    return c


def first_read_call(rng, spec, nan_p1, avail=None):
    """A call whose result depends on state the loader establishes when the log is opened (t0, system t0, the available
    source identifiers): the requested types include a system-timestamped type when the log has one (plus a few others),
    and the call names source identifiers and/or a relative or absolute time range.  Made as the FIRST call of a history
    (the first read on a fresh loader), and repeated later in the history."""
    c = gen_call(rng, spec, nan_p1, avail)
    present = sorted(set(s[0] for s in spec))
    small = [t for t in present if t != Z] or present
    sys_types = [t for t in small if t == E]
    r = rng.random()
    if r < 0.15:
        c['types'] = None
    else:
        k = rng.choice([0, 1, 1, 2, 3])
        others = [t for t in small if t not in sys_types]
        chosen = set(sys_types if rng.random() < 0.85 else []) | set(rng.sample(others, min(k, len(others))))
        if not chosen:
            chosen = {rng.choice(small)}
        c['types'] = tuple(sorted(chosen))
    c['tform'] = 'enum'
    times = [s[1] for s in spec if s[1] is not None]
    q = rng.random()
    if q < 0.45 or not times:
        c['src'] = rng.choice(src_choices(spec, avail))
        if rng.random() < 0.6:
            c['tr'] = None
    if (q >= 0.3 or c['src'] is None) and times:
        lo, hi = min(times), max(times)
        absolute = rng.random() < 0.35
        base = 0 if absolute else lo
        u, w = rng.choice(times), rng.choice(times)
        s, e = rng.choice([(u, None), (u, max(u, w) + 2), (min(u, w), max(u, w) + 1), (None, u + 1), (u, u + 1),
                           ((lo + hi) // 2, None)])
        c['tr'] = (None if s is None else max(0.0, (s - base) / 2.0), None if e is None else (e - base) / 2.0, absolute)
    if rng.random() < 0.7:
        c['max'] = None
    c['rsys'] = rng.random() < 0.1
    c['rp1'] = rng.random() < 0.1
    c['ic'] = rng.random() < 0.1
    if rng.random() < 0.7:
        c['align'], c['aligned'] = 0, None
    return c


def mutate_call(rng, c, spec, nan_p1, avail=None):
    """A later call of a history: usually an earlier call with one or two arguments changed (so that the cache is hit)."""
    d = dict(c)
    fresh = gen_call(rng, spec, nan_p1, avail)
    keys = rng.sample(['types', 'tr', 'src', 'max', 'rp1', 'inorder', 'ridx', 'numpy', 'keep', 'rmnan', 'align', 'ic', 'types',
                       'numpy', 'keep', 'max', 'align', 'tform'], rng.choice([0, 1, 1, 2, 3]))
    for k in keys:
        d[k] = fresh[k]
        if k == 'align':
            d['aligned'] = fresh['aligned']
        if k == 'tform' and d['types'] is not None:
            d['tform'] = rng.choice(TFORMS + ['enum'])
    if d['types'] is None:
        d['tform'] = 'enum'
    if nan_p1:
        d['align'] = 0
        d['aligned'] = None
    return d


def toggle_open_start(rng, c, spec):
    """A call that differs from `c` only in an omitted start vs a relative start of exactly 0.0 (different selections when
    the log begins with messages without P1 time): the cache must tell the two apart."""
    d = dict(c)
    tr = c['tr']
    if tr is None:
        d['tr'] = (0.0, None, False)
    elif tr[0] is None:
        d['tr'] = (0.0, tr[1], False)
    elif tr[0] == 0.0 and not tr[2]:
        d['tr'] = None if tr[1] is None else (None, tr[1], False)
    else:
        d['tr'] = (0.0, None, False) if rng.random() < 0.5 else None
    untimed = sorted(set(s[0] for s in spec if s[1] is None))
    if untimed and d['types'] is not None and rng.random() < 0.7:
        d['types'] = tuple(sorted(set(d['types']) | {untimed[0]}))
    d['align'] = 0
    d['aligned'] = None
    return d


def toggle_t0(rng, c, spec):
    """A call that differs from `c` only in the explicit p1_t0 of its relative time range (another one, or none): same
    bounds, other messages - the cache must tell the two apart."""
    times = [s[1] for s in spec if s[1] is not None]
    lo, hi = (min(times), max(times)) if times else (20, 40)
    tr = c['tr']
    if tr is None or tr[2]:
        tr = rng.choice([(1.0, 3.0, False), (0.0, 2.0, False), (1.0, None, False), (None, 2.5, False)])
    cur = tr[3] if len(tr) > 3 else None
    opts = [t for t in (None, lo, lo + 2, lo + 4, (lo + hi) // 2, rng.choice(times) if times else lo) if t != cur]
    t0 = rng.choice(opts)
    d = dict(c, tr=tuple(tr[:3]) + ((t0,) if t0 is not None else ()))
    return d, dict(c, tr=tuple(tr))


def toggle_src(rng, c, spec, avail):
    """A call that differs from `c` only in source_ids: default <-> explicit (the available set, every id of the log, a
    single id, ...).  The default is whatever the reader reports as available when the call is made, so the pair
    default / explicit-available must return the same, in either order and whatever was read in between."""
    opts = [None, None, tuple(sorted(avail)), tuple(sorted(set(s[2] for s in spec)))] + src_choices(spec, avail)
    opts = [o for o in opts if o != c['src']]
    return dict(c, src=rng.choice(opts))


def sweep_call(rng, spec):
    """A read with default source_ids that passes over (most of) the log: no maximum, no or a wide time range."""
    present = sorted(set(s[0] for s in spec))
    c = dict(DEFAULT_CALL)
    r = rng.random()
    if r < 0.3:
        c['types'] = None
    elif r < 0.6:
        c['types'] = tuple(present)
    else:
        c['types'] = tuple(sorted(rng.sample(present, rng.choice(list(range(1, len(present) + 1))))))
    c['numpy'] = rng.random() < 0.3
    c['keep'] = rng.random() < 0.5
    c['ridx'] = rng.random() < 0.3
    c['inorder'] = rng.random() < 0.15
    c['ic'] = rng.random() < 0.15
    return c


def strict_subsets(types):
    """Every non-empty strict subset of `types`: each single type in turn, each pair, ..."""
    types = tuple(types)
    return [s for k in range(1, len(types)) for s in itertools.combinations(types, k)]


# How the arguments of a read over several types make its result one whole (what is stored for a type depends on the other
# types of the call): a maximum of either sign, and the two time alignment modes.
ACROSS_KINDS = ('first-n', 'last-n', 'drop', 'insert')


def across_call(base, types, kind, n):
    c = dict(base, types=tuple(types), ic=False, inorder=False)
    if kind in ('first-n', 'last-n'):
        c['max'] = n if kind == 'first-n' else -n
    else:
        c['align'] = 1 if kind == 'drop' else 2
    return c


PART_VARIANTS = ('same-arguments', 'plain', 'one-argument-changed')


def part_call(rng, a, sub, variant, spec, nan_p1, avail=None):
    """A read of a part `sub` of the types of the across-types read `a`, with arguments other than `a`'s (the set of types is one
    of them): `a`'s other arguments unchanged, no maximum / alignment at all, or one more argument drawn anew."""
    b = dict(a, types=tuple(sub), tform='enum')
    if variant == 'plain':
        b['max'], b['align'], b['aligned'] = None, 0, None
    elif variant == 'one-argument-changed':
        fresh = gen_call(rng, spec, nan_p1, avail)
        k = rng.choice(['tr', 'src', 'max', 'numpy', 'keep', 'ridx', 'rp1', 'align', 'max', 'tr'])
        b[k] = fresh[k]
        if k == 'align':
            b['aligned'] = fresh['aligned']
    b['ic'], b['inorder'], b['reopen'] = False, False, None
    return b


def gen_part_history(rng, spec, nan_p1, length, avail=None):
    """A read whose result applies across its (two or more) types, then reads of strict subsets of those types with other
    arguments (each replaces the cache entries of its types only), then the first read again: it must be read again as a
    whole, whichever of its entries were replaced.  None when the log has fewer than two types."""
    present = sorted(set(s[0] for s in spec if s[0] != Z))
    if len(present) < 2 or length < 3:
        return None
    base = gen_call(rng, spec, nan_p1, avail)
    base['align'], base['aligned'], base['max'], base['rsys'] = 0, None, None, False
    if rng.random() < 0.7:
        base['rp1'] = False
    q = rng.random()
    if q < 0.15:
        types = tuple(present)
    else:
        types = tuple(sorted(rng.sample(present, rng.choice([k for k in (2, 2, 3, 3, 4) if k <= len(present)]))))
    kinds = ACROSS_KINDS[:2] if nan_p1 else ACROSS_KINDS
    per_type = max(1, len([s for s in spec if s[0] in types]) // len(types))
    a = across_call(base, types, rng.choice(kinds), rng.choice([1, 2, 3, per_type, per_type + 1, 2 * per_type]))
    if rng.random() < 0.25:
        a['tform'] = rng.choice(['set', 'tuple', 'int', 'class', 'enum'])
    subs = strict_subsets(types)
    if rng.random() < 0.08:
        a['types'], a['tform'] = None, 'enum'       # every registered type: any explicit list of types is a part of it
        subs = subs + [types]
    h = [a]
    for _ in range(length - 2):
        h.append(part_call(rng, a, rng.choice(subs), rng.choice(PART_VARIANTS), spec, nan_p1, avail))
    h.append(dict(a))
    return h


def part_sweep(rng, spec, nan_p1, type_sets, full):
    """Over a fixed log: for every set of types, every strict subset of it (each single type in turn, each pair, ...) is read
    between two across-types reads of the whole set - for every kind of across-types result, with every variant of the middle
    read (`full`) or one variant drawn per kind."""
    out = []
    for types in type_sets:
        n_all = len([s for s in spec if s[0] in types])
        for sub in strict_subsets(types):
            kinds = ACROSS_KINDS[:2] if nan_p1 else ACROSS_KINDS
            combos = [(k, v) for k in kinds for v in PART_VARIANTS] if full else [(k, rng.choice(PART_VARIANTS)) for k in kinds]
            for kind, variant in combos:
                a = across_call(DEFAULT_CALL, types, kind, rng.choice([2, 3, max(1, n_all // 2)]))
                if rng.random() < 0.3:
                    a['numpy'], a['keep'] = True, rng.random() < 0.5
                out.append([a, part_call(rng, a, sub, variant, spec, nan_p1), dict(a)])
    return out


def gen_history(rng, spec, nan_p1, length, avail=None):
    multi = len(set(s[2] for s in spec)) > 1
    probe = any(s[0] == Z for s in spec)
    r0 = rng.random()
    if r0 < (0.5 if probe else 0.08):
        # state that open() establishes: the call as the first read on the loader, then (after other reads, or at once)
        # the same call again - from the cache, or past it with ignore_cache
        c = first_read_call(rng, spec, nan_p1, avail)
        h = [c]
        while len(h) < length - 1 and rng.random() < 0.5:
            h.append(gen_call(rng, spec, nan_p1, avail) if rng.random() < 0.6 else sweep_call(rng, spec))
        if length >= 2:
            h.append(dict(c, ic=True) if rng.random() < 0.6 else dict(c))
    elif length >= 3 and r0 > (0.55 if not any(s[1] is not None for s in spec) else 0.95):
        # a call after a read that cached every type it asks for (under other arguments), then the same call again: a call
        # that raises (a time range on a log without P1 time) replaces those entries while it runs, and must leave the
        # cache as it found it - the repeat has to raise again
        c = gen_call(rng, spec, nan_p1, avail)
        c['ic'], c['inorder'] = False, False
        if c['tr'] is None and rng.random() < 0.8:
            c['tr'] = rng.choice([(1.0, 3.0, True), (0.0, 2.0, False), (None, 12.5, True), (1.5, None, False)])
        warm = dict(c, tr=None, tform='enum')
        q = rng.random()
        if q < 0.3:
            warm['types'] = None
        elif q < 0.5 and c['types'] is not None:
            present = sorted(set(s[0] for s in spec))
            warm['types'] = tuple(sorted(set(c['types']) | set(rng.sample(present, 1))))
        if rng.random() < 0.4:
            warm['numpy'] = not c['numpy']
        if rng.random() < 0.3:
            warm['max'] = None
        h = [warm, c, dict(c)]
    elif length >= 3 and 0.44 < r0 <= 0.55 and len(set(s[0] for s in spec if s[0] != Z)) >= 2:
        # an across-types read, reads of strict subsets of its types with other arguments, the across-types read again
        h = gen_part_history(rng, spec, nan_p1, length, avail)
    elif multi and r0 < 0.28:
        h = [sweep_call(rng, spec)]
    else:
        h = [gen_call(rng, spec, nan_p1, avail)]
    while len(h) < length:
        r = rng.random()
        if avail is not None and r < (0.3 if multi else 0.04):
            # source_ids: default and explicit, in both orders, possibly with another read in between
            base = rng.choice(h)
            t = toggle_src(rng, base, spec, avail)
            q = rng.random()
            if q < 0.35 and len(h) + 1 < length:
                h.append(sweep_call(rng, spec))
            h.append(t)
            if q > 0.6 and len(h) < length:
                back = dict(base)
                k = rng.choice(['ic', 'types', 'inorder', 'max', 'same'])
                if k == 'ic':
                    back['ic'] = True
                elif k == 'inorder':
                    back['inorder'] = True
                elif k != 'same':
                    back[k] = gen_call(rng, spec, nan_p1, avail)[k]
                h.append(back)
        elif r < 0.05 + (0.3 if multi else 0.04):
            base = rng.choice(h)
            t, b = toggle_t0(rng, base, spec)
            if b != base and len(h) + 1 < length:
                h.append(b)
            h.append(t)
        elif r < 0.12 + (0.3 if multi else 0.04):
            base = rng.choice(h)
            t = toggle_open_start(rng, base, spec)
            if t['types'] != base['types'] and len(h) + 1 < length:
                h.append(dict(base, types=t['types'], align=0, aligned=None))
            h.append(t)
        elif r < 0.47 + (0.3 if multi else 0.04):
            # the same call again, exactly (a call that raised must raise again) or with message_types spelled differently
            base = rng.choice(h)
            d = dict(base)
            if d['types'] is not None and rng.random() < 0.7:
                d['tform'] = rng.choice([t for t in TFORMS + ['enum'] if t != base['tform']])
            elif rng.random() < 0.5:
                d['ic'] = True          # ... or the same call past the cache: the loader's other state must not matter either
            h.append(d)
        elif r < 0.72:
            h.append(mutate_call(rng, rng.choice(h), spec, nan_p1, avail))
        else:
            h.append(gen_call(rng, spec, nan_p1, avail))
    h = h[:max(length, 1)]
    for i in range(1, len(h)):
        if rng.random() < 0.05:
            h[i] = dict(h[i], reopen=rng.choice(['same', 'other', 'other']))
    return h


def spell_types(F, types, tform):
    M = F['M']
    MT = M.MessageType
    enums = [MT(t) for t in types]
    classes = [M.message_type_to_class[e] for e in enums]
    if tform == 'int':
        return [int(t) for t in types]
    if tform == 'ndarray':
        return np.array([int(t) for t in types])
    if tform == 'class':
        return classes
    if tform == 'tuple':
        return tuple(enums)
    if tform == 'set':
        return set(enums)
    if tform == 'single' and len(enums) == 1:
        return enums[0]
    if tform == 'single-class' and len(enums) == 1:
        return classes[0]
    if tform == 'mixed':
        return [(enums[i], classes[i], int(types[i]))[i % 3] for i in range(len(types))] + [None]
    return enums


def kwargs_of(F, c):
    MT = F['M'].MessageType
    kw = dict(ignore_cache=c['ic'], max_messages=c['max'], require_p1_time=c['rp1'], require_system_time=c['rsys'],
              return_in_order=c['inorder'], return_message_index=c['ridx'], return_numpy=c['numpy'],
              keep_messages=c['keep'], remove_nan_times=c['rmnan'],
              time_align=F['TimeAlignmentMode'](c['align']))
    if c['types'] is not None:
        kw['message_types'] = spell_types(F, c['types'], c.get('tform', 'enum'))
    if c['tr'] is not None:
        kw['time_range'] = make_tr(F, c['tr'])
    if c['src'] is not None:
        kw['source_ids'] = list(c['src'])
    if c['aligned'] is not None:
        kw['aligned_message_types'] = [MT(t) for t in c['aligned']]
    return kw


def sc(x):
    return 'n' if x is None else str(int(round(x * 2)))


def make_tr(F, tr):
    """tr = (start, end, absolute) or (start, end, absolute, t0): t0 = the explicit p1_t0 of a relative range, in half seconds."""
    if tr is None:
        return F['TimeRange']()
    if len(tr) > 3 and tr[3] is not None:
        return F['TimeRange'](start=tr[0], end=tr[1], absolute=tr[2], p1_t0=F['M'].Timestamp(tr[3] / 2.0))
    return F['TimeRange'](start=tr[0], end=tr[1], absolute=tr[2])


def tr_key(F, c):
    t = make_tr(F, c['tr'])
    k = '%s_%s_%d' % (sc(t.start), sc(t.end), 1 if t.absolute else 0)
    if c['tr'] is not None and len(c['tr']) > 3 and c['tr'][3] is not None:
        k += '_%d' % c['tr'][3]
    return k


def dots(l, none='*'):
    if l is None:
        return none
    l = list(l)
    return '.'.join(str(x) for x in l) if l else '-'


def call_text(F, c):
    return ','.join([dots(c['types']), tr_key(F, c), dots(c['src']), str(int(c['ic'])),
                     'n' if c['max'] is None else str(c['max']), str(int(c['rp1'])), str(int(c['rsys'])),
                     str(int(c['inorder'])), str(int(c['ridx'])), str(int(c['numpy'])), str(int(c['keep'])),
                     str(int(c['rmnan'])), str(c['align']), dots(c['aligned'])])


def call_key(F, c):
    """The call as made (the model's call text plus the spelling of message_types)."""
    return call_text(F, c) + '#' + (c.get('tform', 'enum') if c['types'] is not None else 'enum')


# ---- observing the real code --------------------------------------------------------------------------
def array_ids(d, t):
    """Per column of the numpy members: the ordinal of the message it came from, or d<time> for an inserted default."""
    dd = d.__dict__
    extra = [k for k in dd if k not in _BASE_ATTRS]
    if not extra:
        return None
    key = {P: 'gps_time', G: 'gps_time', A: 'velocity_enu_mps', E: 'system_time', R: 'reset_mask'}.get(t)
    p1 = dd.get('p1_time')
    if key is None:
        vals = [float('nan')] * (0 if p1 is None else len(p1))
    else:
        v = np.asarray(dd[key], dtype=float)
        if t == A:
            v = v[0, :] if v.ndim == 2 else v
        if t in (P, G):
            v = v - 1000.0
        vals = [float(x) for x in v]
    out = []
    for j, x in enumerate(vals):
        if np.isnan(x):
            out.append('d%d' % int(round(float(p1[j]) * 2)))
        else:
            out.append(str(int(round(x))))
    return out


def lst(l):
    return '.'.join(l) if l else '-'


def canon_result(F, res, order):
    if isinstance(res, F['MessageData']):
        return 'O/%s/%s' % (lst([ident(m) for m in res.messages]), lst([str(int(i)) for i in res.message_index]))
    parts = ['D']
    byint = {int(k): v for k, v in res.items()}
    for t in order:
        d = byint.get(t)
        if d is None:
            parts.append('%d/!missing' % t)
            continue
        if t in INSTRUMENTED:
            a = array_ids(d, t)
            arr = '~' if a is None else lst(a)
        else:
            arr = '?'
        parts.append('%d/%s/%s/%s' % (t, lst([ident(m) for m in d.messages]), lst([str(int(i)) for i in d.message_index]), arr))
    if sorted(int(k) for k in res.keys()) != sorted(order):
        parts.append('!keys=%s' % sorted(int(k) for k in res.keys()))
    return '|'.join(parts)


def model_prefix(out):
    """The model's `runHist` stops at the first call that raises; the harness goes on (a later call must still equal the
    fresh call)."""
    for i, o in enumerate(out):
        if o.startswith('E:'):
            return out[:i + 1]
    return out


def mask_model(text):
    """The model reports arrays for every type; the harness reads them only for the instrumented classes."""
    out = []
    for r in text.split(';'):
        if r.startswith('D'):
            ps = r.split('|')
            for i in range(1, len(ps)):
                f = ps[i].split('/')
                if len(f) == 4 and int(f[0]) not in INSTRUMENTED:
                    f[3] = '?'
                    ps[i] = '/'.join(f)
            r = '|'.join(ps)
        out.append(r)
    return ';'.join(out)


STATIC_BROKEN = []


class Env:
    """One generated log with what the real reader says about it."""

    def __init__(self, F, spec, name):
        self.F = F
        self.spec = spec
        self.path = write_log(F, spec, name)
        M = F['M']
        self.all_types = [int(t) for t in M.message_type_to_class.keys()]
        ld = self.loader()
        self.avail = sorted(int(s) for s in ld.get_available_source_ids())
        self.index = ld.reader._original_index
        self.fresh_cache = {}
        self.tr_sel = {}
        self.alt = None             # the other log of the pair, for open() on a used loader
        self.untimed_p1 = any(t in (P, G, A) and t2 is None for t, t2, _ in spec)

    def loader(self):
        ld = self.F['DataLoader'](self.path, num_threads=1)
        self.assert_static(ld)
        return ld

    def assert_static(self, ld):
        """The model's assumption about a loader after open() and after every call.  Without an index there is nothing to
        compare with.  A search for t0 that is still pending is recorded, not raised: the reads of such a loader are judged
        like all others (against the fresh loader, the reader and the model), and run() raises at the end if the assumption
        was broken and nothing was found."""
        if not ld.reader.have_index():
            raise fv.InfraError('model assumption broken: have_index=False')
        if ld._need_t0 or ld._need_system_t0:
            STATIC_BROKEN.append('%s: _need_t0=%s _need_system_t0=%s' % (os.path.basename(self.path), ld._need_t0, ld._need_system_t0))

    def order(self, c):
        return list(c['types']) if c['types'] is not None else self.all_types

    def selection(self, c):
        k = tr_key(self.F, c)
        if k not in self.tr_sel:
            tr = kwargs_of(self.F, c).get('time_range', self.F['TimeRange']())
            try:
                self.tr_sel[k] = [int(i) for i in self.index[tr].message_index]
            except IndexError:
                self.tr_sel[k] = None       # the reader refuses the time range (a log without P1 time): outside the model
        return k, self.tr_sel[k]

    def run_call(self, ld, c):
        try:
            res = ld.read(**kwargs_of(self.F, c))
        except Exception as e:
            return 'E:%s' % type(e).__name__, None
        return canon_result(self.F, res, self.order(c)), res

    def run_history(self, calls):
        ld = self.loader()
        out = []
        hits = 0
        seen = set()
        self.avail_after = []       # get_available_source_ids() after every call (the default of source_ids)
        self.envs_at = []           # the log the loader has open when each call is made
        # results are the caller's: what an earlier read() returned is looked at again after every later call and must still be
        # what it was when it was returned (with a fresh loader per read it could not change) - [index of the call, result, text, env, call]
        held = []
        self.held_changes = []
        cur = self
        for ci, c in enumerate(calls):
            if c.get('reopen'):
                if c['reopen'] == 'other' and self.alt is not None:
                    cur = self.alt if cur is self else self
                ld.open(cur.path, num_threads=1)
                cur.assert_static(ld)
            self.envs_at.append(cur)
            text, res = cur.run_call(ld, c)
            out.append(text)
            try:
                self.avail_after.append(sorted(int(x) for x in ld.get_available_source_ids()))
            except Exception as e:
                self.avail_after.append('E:%s' % type(e).__name__)
            if isinstance(res, dict):
                for v in res.values():
                    if id(v) in seen:
                        hits += 1
                    seen.add(id(v))
                self._keep = getattr(self, '_keep', [])
                self._keep.append(res)      # keep objects alive so that ids stay distinct
            for h in list(held):
                try:
                    now = canon_result(h[3].F, h[1], h[3].order(h[4]))
                except Exception as e:
                    now = 'E:%s while reading the kept result' % type(e).__name__
                if now != h[2]:
                    self.held_changes.append((h[0], ci, h[2], now))
                    held.remove(h)
            if isinstance(res, dict):
                held.append((ci, res, text, cur, c))
            cur.assert_static(ld)
        self._keep = []
        return out, hits

    def fresh_last(self, calls):
        """What the last call of the history just run must return: the call on a loader freshly opened on the log the
        history's loader had open."""
        return self.envs_at[-1].fresh(calls[-1])

    def fresh(self, c):
        k = call_key(self.F, c)
        if k not in self.fresh_cache:
            self.fresh_cache[k] = self.run_call(self.loader(), dict(c, reopen=None))[0]
        return self.fresh_cache[k]

    def offsets(self):
        """End offset of every message in the file (from the reader's index), plus the file size last."""
        off = [int(o) for o in self.index.offset]
        return off[1:] + [os.path.getsize(self.path)] if off else [0]

    def log_text(self):
        return ','.join('%d:%d:%s:%d' % (i, t, 'n' if t2 is None else str(t2), s) for i, (t, t2, s) in enumerate(self.spec)) or '-'

    def reader_expected(self, c):
        """Messages of the log reader under the filters of `c`, limited to the first/last N, without the loader."""
        F = self.F
        M = F['M']
        rd = F['MixedLogReader'](self.path, num_threads=1, return_bytes=False, return_message_index=True)
        kw = kwargs_of(F, c)
        rd.filter_in_place(kw.get('time_range', F['TimeRange']()))
        # the reader is given the requested set of types as MessageType values, however the loader call spelled them
        rd.filter_in_place([M.MessageType(t) for t in c['types']] if c['types'] is not None
                           else list(M.message_type_to_class.keys()))
        rd.filter_in_place(None, source_ids=set(c['src']) if c['src'] is not None else rd.get_available_source_ids())
        if c['rp1'] and not c['rsys']:
            rd.filter_out_invalid_p1_times()
        out = []
        while True:
            try:
                header, payload, mi = rd.read_next(require_p1_time=c['rp1'], require_system_time=c['rsys'])
            except StopIteration:
                break
            if payload is None:
                continue
            out.append((int(header.message_type), int(mi)))
        full = list(out)
        if c['max'] is not None:
            out = out[:c['max']] if c['max'] >= 0 else out[c['max']:]
        return out, full


def probe_drops_untimed(F):
    fi = F['FileIndex'](data=[(float('nan'), 13004, 0), (1.0, 10000, 100), (float('nan'), 13004, 300)])
    return 1 if len(fi.get_time_range(hint='remove_nans')) == 1 else 0


def probe_open_window(F, env):
    """The number of bytes DataLoader.open() limits its search for the first system-timestamped message to, observed on the
    real code: the reader's set_max_bytes() is watched (and passed through unchanged) while a loader is opened on a log that
    contains a system-timestamped type."""
    cls = F['MixedLogReader']
    orig = cls.set_max_bytes
    seen = []

    def watch(self, max_bytes):
        seen.append(max_bytes)
        return orig(self, max_bytes)
    cls.set_max_bytes = watch
    try:
        F['DataLoader'](env.path, num_threads=1)
    finally:
        cls.set_max_bytes = orig
    vals = [int(v) for v in seen if v is not None]
    return max(vals) if vals else None


def probe_keeps_unavailable(F, env):
    """Does reader.filter_in_place(source_ids=...) keep a requested id it has not discovered in the log?"""
    rd = F['MixedLogReader'](env.path, num_threads=1)
    rd.filter_in_place(None, source_ids={env.avail[0] if env.avail else 0, 999})
    return 1 if 999 in set(rd.requested_source_ids) else 0


def registry_text(F):
    M = F['M']
    rows = []
    for t, cls in M.message_type_to_class.items():
        rows.append('%d:1:%d:%d:%d:%d' % (int(t), int(t in M.messages_with_p1_time), int(t in M.messages_with_system_time),
                                          int('p1_time' in cls().__dict__), int('p1_time' in cls.to_numpy([]))))
    if M.messages_with_p1_time & M.messages_with_system_time:
        raise fv.InfraError('registry: a message type has both P1 and system time (hypothesis Reg.Disjoint of the theorems)')
    return ','.join(rows)


# ---- signatures -------------------------------------------------------------------------------------------
KEY_NAMES = {'reopen': 'open_called_before', 'tform': 'message_types_spelling', 'keep': 'keep_messages', 'numpy': 'return_numpy', 'align': 'time_align', 'aligned': 'aligned_message_types',
             'types': 'message_types', 'max': 'max_messages', 'tr': 'time_range', 'src': 'source_ids', 'rp1': 'require_p1_time',
             'rsys': 'require_system_time', 'ridx': 'return_message_index', 'rmnan': 'remove_nan_times', 'ic': 'ignore_cache',
             'inorder': 'return_in_order'}


def transparent(env, hist):
    out, _ = env.run_history(hist)
    return len(out) == len(hist) and out[-1] == env.fresh_last(hist)


def shrink_history(env, hist):
    """Smallest sub-sequence of the earlier calls after which the last call still differs from a fresh loader."""
    last = hist[-1]
    earlier = hist[:-1]
    for k in range(1, len(earlier) + 1):
        for sub in itertools.combinations(range(len(earlier)), k):
            h = [earlier[i] for i in sub] + [last]
            if not transparent(env, h):
                return h
    return hist


def default_sources_culprit(env, hist):
    """The last call uses the default source_ids, the loader's available set is no longer the one of a fresh loader when
    it is made, and the same history is transparent once the last call names the fresh loader's available set."""
    last = hist[-1]
    if last['src'] is not None or len(hist) < 2:
        return False
    env.run_history(hist[:-1])
    if not env.avail_after or env.avail_after[-1] == env.avail:
        return False
    explicit = dict(last, src=tuple(env.avail))
    return env.fresh(explicit) == env.fresh(last) and transparent(env, hist[:-1] + [explicit])


def state_outside_cache_culprit(env, hist):
    """The last call, made twice in a row on a fresh loader with ignore_cache (so that neither is answered from the cache),
    gives two different results: the first read changed state of the loader other than the cache (what open() left to be
    established), and the result of the call depends on it."""
    rep = dict(hist[-1], ic=True)
    out, _ = env.run_history([rep, rep])
    return len(out) == 2 and out[0] != out[1]


def is_part_history(F, hist):
    """read(a) ; read(b) ; read(a) where a's result applies across its types (a maximum / time alignment) and b reads a strict
    subset of a's types (or several such reads)."""
    a, mid, c = hist[0], hist[1:-1], hist[-1]
    if len(hist) < 3 or call_key(F, a) != call_key(F, c) or a['ic'] or a['inorder'] or (a['max'] is None and a['align'] == 0):
        return False
    whole = set(a['types']) if a['types'] is not None else set(int(t) for t in F['M'].message_type_to_class.keys())
    return all(b['types'] is not None and set(b['types']) < whole for b in mid)


def transparency_signature(env, hist):
    if hist[-1]['rsys'] and not any(c.get('reopen') for c in hist):
        out, _ = env.run_history(hist)
        if details_culprit(env, hist[-1], out[-1], env.fresh(hist[-1])):
            return DETAILS_CACHE_SIG
    if any(c.get('reopen') for c in hist):
        plain = [dict(c, reopen=None) for c in hist]
        if all(c.get('reopen') != 'other' for c in hist) and not transparent(env, plain):
            return transparency_signature(env, plain)       # fails without the open() calls as well
        return 'C12/read-after-open-on-a-used-loader-differs-from-a-fresh-loader'
    if state_outside_cache_culprit(env, hist):
        return 'C12/first-read-on-a-fresh-loader-differs-from-the-same-read-later:state-outside-the-cache'
    if default_sources_culprit(env, hist):
        return 'C12/default-source-ids-depend-on-earlier-reads'
    if len(hist) >= 2:
        env.run_history(hist[:-1])
        if env.avail_after and env.avail_after[-1] != env.avail:
            # the reader's set of available identifiers (also referenced by the params of cached entries) was altered
            return 'C12/available-source-ids-changed-by-earlier-reads'
    out, _ = env.run_history(hist)
    if env.fresh(hist[-1]).startswith('E:') and not out[-1].startswith('E:'):
        # the call raises on a fresh loader; after the earlier reads it is answered (from cache entries)
        if len(hist) >= 2 and call_key(env.F, hist[-2]) == call_key(env.F, hist[-1]) and \
                env.fresh(hist[-2]).startswith('E:'):
            return 'C12/call-that-raised-is-answered-when-repeated'
        return 'C12/call-that-raises-on-a-fresh-loader-is-answered-after-earlier-reads'
    if is_part_history(env.F, hist):
        return 'C12/across-types-result-served-again-after-a-read-replaced-part-of-it'
    if len(hist) != 2:
        return 'C12/cache-not-transparent:history-of-%d' % len(hist)
    c0, c1 = hist
    if out[-1].startswith('E:') and not env.fresh(c1).startswith('E:'):
        return 'C12/cached-entry-append-raises'
    diff = [k for k in DEFAULT_CALL if c0[k] != c1[k]]
    culprits = []
    for k in diff:
        c0b = dict(c0)
        c0b[k] = c1[k]
        if transparent(env, [c0b, c1]):
            culprits.append(k)
    if len(culprits) == 1 or (culprits and set(culprits) <= {'align', 'aligned'}):
        k = culprits[0]
        if k == 'types':
            if c1['max'] is not None:
                return 'C12/cache-key-omits:message_types+max_messages'
            if c1['align'] != 0 and not c1['inorder']:
                return 'C12/cache-key-omits:message_types+time_align'
            ids = [x for part in out[-1].split('|')[1:] for x in part.split('/')[1].split('.') if x != '-']
            if len(ids) != len(set(ids)):
                return 'C12/cached-type-reread-appends'
            return 'C12/cached-entry-modified-on-partial-hit'
        return 'C12/cache-key-omits:' + KEY_NAMES[k]
    if not diff:
        return 'C12/repeated-call-differs'
    return 'C12/cache-not-transparent:' + '+'.join(sorted(KEY_NAMES[k] for k in diff))


def spec_ids(env, c, t, ids):
    """What a fresh read of `c` must show for type `t` given the expected ordinals."""
    return lst([str(i) for i in ids])


def returned_ids(c, text):
    """Identities a result holds: from the messages, or from the numpy columns when the messages were cleared."""
    col = 3 if (c['numpy'] and not c['keep'] and not c['inorder']) else 1
    got = set()
    for part in (text.split('|')[1:] if not c['inorder'] else [text]):
        f = part.split('/')
        if len(f) > col and f[col] not in ('-', '~', '?'):
            got |= set(f[col].split('.'))
    return got


def undiscovered_in_scope(env, c):
    """Entries the time range and the requested types select whose source identifier the reader did not discover, for a
    call that asks for exactly the available identifiers (the default) with a maximum and no require_* flag: the case in
    which the loader cuts the index to N entries although the source identifier is still tested when a message is read
    (hypothesis `hs` of C12_read_fresh_spec)."""
    if c['max'] is None or c['rp1'] or c['rsys']:
        return []
    if c['src'] is not None and set(c['src']) != set(env.avail):
        return []
    _, sel = env.selection(c)
    types = set(env.order(c))
    return [o for o in sel if env.spec[o][0] in types and env.spec[o][2] not in env.avail]


def undiscovered_signature(c):
    return 'C12/max-messages-before-source-filter:undiscovered-source-id:%s' % ('last-n' if c['max'] < 0 else 'first-n')


def check_fresh_spec(ctx, env, c, fresh_text):
    """Fresh read = reader under the same filters, first/last N across types in file order (no alignment)."""
    if c['align'] != 0 and not c['inorder']:
        return
    try:
        exp, full = env.reader_expected(c)
        reader_raises = None
    except Exception as e:
        reader_raises = type(e).__name__
    if fresh_text.startswith('E:'):
        if reader_raises == fresh_text[2:]:
            # the log reader refuses the same filters with the same exception (a time range on a log without P1 time)
            ctx.count('fresh_read_raises_as_the_reader_does')
            return
        ctx.violation('C12/fresh-read-raises', 'read(%s) on a fresh loader raised %s; the reader under the same filters %s' %
                      (describe(c), fresh_text[2:], 'raises ' + reader_raises if reader_raises else 'does not raise'),
                      replay_obj(env, [c]))
        return
    if reader_raises is not None:
        ctx.violation('C12/fresh-read-differs-from-reader', 'fresh read(%s) returned %s; the reader under the same filters raises %s' %
                      (describe(c), fresh_text[:300], reader_raises), replay_obj(env, [c]))
        return
    bad_types = set()

    def wid(o):
        return 'd%d' % env.spec[o][1] if env.spec[o][0] == W else str(o)
    if c['inorder']:
        got = fresh_text.split('/')[1]
        want = lst([str(o) for _, o in exp])
        bad = got != lst([wid(o) for _, o in exp])
        if c['ridx'] and fresh_text.split('/')[2] != want:
            bad = True
        if bad and c['rsys']:
            # in file order: do the two differ in messages of types with measurement details only?
            det = details_types(env.F)
            rest_want = [wid(o) for tt, o in exp if tt not in det]
            rest_got = [x for x in (got.split('.') if got != '-' else [])
                        if not (x.startswith('d') and W in det) and not (x.isdigit() and int(x) < len(env.spec) and env.spec[int(x)][0] in det)]
            if rest_got == rest_want:
                bad_types = set(tt for tt, _ in exp if tt in det) or set(det)
    else:
        for part in fresh_text.split('|')[1:]:
            f = part.split('/')
            t = int(f[0])
            ids = [o for tt, o in exp if tt == t]
            want = lst([str(o) for o in ids])
            if t == W:
                # no field for an ordinal: identified by its P1 time (distinct in the logs that have the type)
                if not (c['numpy'] and not c['keep']) and f[1] != lst([wid(o) for o in ids]):
                    bad_types.add(t)
                if c['ridx'] and not (c['numpy'] and c['rmnan']) and f[2] != want:
                    bad_types.add(t)
                continue
            numpy = c['numpy']
            if not (numpy and not c['keep']):
                if f[1] != want:
                    bad_types.add(t)
            if c['ridx'] and not (numpy and c['rmnan'] and t in (P, G, A)) and f[2] != want:
                bad_types.add(t)
            if numpy and t in INSTRUMENTED:
                wa = [o for o in ids if not (c['rmnan'] and t in (P, G, A) and env.spec[o][1] is None)]
                if f[3] == '~' and not wa:
                    # "Nothing to read" (every requested type filtered out by require_*): _read returns before the
                    # numpy conversion, so the (empty) entries carry no arrays at all.  Not a statement of C12.
                    ctx.count('fresh_numpy_not_converted_nothing_to_read')
                elif f[3] != lst([str(o) for o in wa]):
                    bad_types.add(t)
        bad = bool(bad_types)
    if not bad:
        return
    n = c['max']
    sig = 'C12/fresh-read-differs-from-reader'
    if c['rsys'] and bad_types and bad_types <= details_types(env.F):
        # require_system_time and only types with measurement details differ
        sig = DETAILS_FRESH_SIG
    elif n is not None:
        got = returned_ids(c, fresh_text)
        first = full[:abs(n)]
        if n < 0 and len(full) > abs(n) and got == set(str(o) for _, o in first) and first != exp:
            sig = 'C12/last-n-returns-first-n'
        elif len(got) < len(exp):
            if c['src'] is not None and set(c['src']) != set(env.avail):
                sig = 'C12/max-messages-before-source-filter'
            elif undiscovered_in_scope(env, c):
                sig = undiscovered_signature(c)
            elif c['rp1']:
                sig = 'C12/max-messages-before-p1-time-filter'
            elif c['rsys']:
                sig = 'C12/max-messages-before-system-time-filter'
    ctx.violation(sig, 'fresh read(%s) returned %s; the reader under the same filters gives %s' %
                  (describe(c), fresh_text[:300], exp[:40]), replay_obj(env, [c]))


def check_default_sources(ctx, env, c):
    """source_ids omitted = the reader's available source identifiers named explicitly (fresh loader both times)."""
    if c['src'] is not None:
        return
    explicit = dict(c, src=tuple(env.avail))
    ctx.count('default_vs_explicit_available_checked')
    if env.fresh(c) != env.fresh(explicit):
        ctx.violation('C12/default-source-ids-not-the-available-set',
                      'fresh read(%s) returned %s; with source_ids=%s (get_available_source_ids() of the same fresh loader) it '
                      'returns %s' % (describe(c), env.fresh(c)[:300], list(env.avail), env.fresh(explicit)[:300]),
                      replay_obj(env, [c]))


def brief(text, width=300):
    """For messages: a dict result without the (many) requested types that hold nothing."""
    if text.startswith('D|'):
        parts = text.split('|')[1:]
        full = [q for q in parts if any(ch.isdigit() for ch in q.split('/', 1)[-1]) or q.startswith('!')]
        if len(full) < len(parts):
            text = 'D|' + '|'.join(full) + ' (+%d requested types without messages)' % (len(parts) - len(full))
    return text[:width]


def describe(c):
    return ', '.join('%s=%s' % (KEY_NAMES.get(k, k), c[k]) for k in DEFAULT_CALL if c[k] != DEFAULT_CALL[k]) or 'defaults'


def replay_obj(env, hist):
    obj = {'log': [list(s) for s in env.spec], 'history': hist,
           'how': 'log entries are (type, P1 time in half seconds or null, source id); each history entry is one read() call'}
    if env.alt is not None and any(c.get('reopen') == 'other' for c in hist):
        obj['other_log'] = [list(s) for s in env.alt.spec]
        obj['how'] += '; reopen=other: open() is called on the loader with the other of the two logs before the call'
    return obj


# ---- argument objects that the caller uses again --------------------------------------------------------
# A caller keeps its argument objects - a TimeRange ("the first minute of every log"), a list or set of message types, of
# source identifiers - and passes the same objects to several reads: on one loader, on two loaders that are alive at the
# same time (one per log), and on a loader on which open() was called with another log.  Every such read must return what a
# fresh loader (given new, equal objects) returns for the log it is made on, and must leave the objects as they were:
# whatever a read writes into an argument becomes part of the next call's arguments.
SHARED_KEYS = ('message_types', 'time_range', 'source_ids', 'aligned_message_types')
SRC_FORMS = {'list': list, 'set': set, 'tuple': tuple}
SHARED_PATTERNS = [
    [(1, None), (2, None)], [(2, None), (1, None)], [(1, None), (2, None), (1, None)], [(1, None), (2, None), (2, None)],
    [(1, None), (1, 'B')], [(1, None), (1, 'B'), (1, 'A')], [(2, None), (2, 'A')], [(1, None), (1, 'A'), (1, 'B')],
    [(1, None), (2, None), (1, 'B'), (2, 'A')], [(1, None), (1, None), (2, None)], [(2, None), (1, 'B'), (1, 'A')],
]


def arg_state(x):
    """A comparable deep copy of an argument object: every member of a TimeRange (bounds, absolute, p1_t0, the in-range
    latches), the container type and the elements of a list / tuple / set / array."""
    n = type(x).__name__
    if n == 'TimeRange':
        return ('TimeRange', tuple((k, arg_state(v)) for k, v in sorted(vars(x).items())))
    if n == 'Timestamp':
        return ('Timestamp', repr(float(x)))
    if isinstance(x, np.ndarray):
        return ('ndarray', x.dtype.str, x.shape, x.tobytes())
    if isinstance(x, (set, frozenset)):
        return (n, tuple(sorted(repr(arg_state(e)) for e in x)))
    if isinstance(x, (list, tuple)):
        return (n, tuple(arg_state(e) for e in x))
    if isinstance(x, type):
        return ('class', x.__name__)
    if x is None or isinstance(x, (bool, int, float, str)):
        return (n, repr(x))
    return (n, repr(x))


def state_text(st):
    if st[0] == 'TimeRange':
        return 'TimeRange(%s)' % ', '.join('%s=%s' % (k, v[1] if len(v) == 2 else v) for k, v in st[1])
    return repr(st)[:200]


def gen_shared_session(rng, envA, envB):
    """(call, container of source_ids, steps): the call's message_types / time_range / source_ids / aligned_message_types
    are built once; steps = [{'loader': 1|2, 'open': None|'A'|'B', 'over': {scalar arguments changed in this step}}];
    loader 1 is opened on log A, loader 2 on log B, both before the first step."""
    nan = envA.untimed_p1 or envB.untimed_p1
    c = gen_call(rng, envA.spec, nan, envA.avail)
    c['ic'], c['reopen'] = False, None
    times = [s[1] for s in envA.spec if s[1] is not None]
    if times and rng.random() < 0.9:
        lo = min(times)
        u, w = rng.choice(times), rng.choice(times)
        a, b = min(u, w), max(u, w) + rng.choice([1, 2, 4])
        kind = rng.choice(['rel', 'rel', 'rel', 'rel', 'rel-t0', 'abs'])
        a, b = rng.choice([(a, b), (a, b), (a, None), (None, b), (lo + 2, lo + 6)])
        base = 0 if kind == 'abs' else lo
        sv = None if a is None else max(0.0, (a - base) / 2.0)
        ev = None if b is None else (b - base) / 2.0
        if kind == 'rel-t0':
            tb = [s[1] for s in envB.spec if s[1] is not None]
            c['tr'] = (sv, ev, False, rng.choice([lo, lo + 2] + ([min(tb)] if tb else [])))
        else:
            c['tr'] = (sv, ev, kind == 'abs')
    if c['types'] is not None:
        c['tform'] = rng.choice(['enum', 'enum', 'set', 'class', 'int', 'tuple', 'ndarray'])
    if c['src'] is None and rng.random() < 0.35:
        c['src'] = rng.choice(src_choices(envA.spec, envA.avail))
    if rng.random() < 0.6:
        c['max'] = None
    steps = []
    for n, op in rng.choice(SHARED_PATTERNS):
        over = {}
        if steps and rng.random() < 0.3:
            f = gen_call(rng, envA.spec, nan, envA.avail)
            for k in rng.sample(['max', 'numpy', 'keep', 'ridx', 'ic', 'inorder', 'rp1'], rng.choice([1, 1, 2])):
                over[k] = f[k]
        steps.append({'loader': n, 'open': op, 'over': over})
    return c, rng.choice(sorted(SRC_FORMS)), steps


def run_shared_session(F, envA, envB, c, src_form, steps, share=True):
    """Per step: the result text, the log read, the call, and the arguments whose state differs from the deep copy taken
    before the call (with the two states).  share=False: the same reads with new, equal objects in every call."""
    def objects():
        kw0 = kwargs_of(F, c)
        if 'source_ids' in kw0:
            kw0['source_ids'] = SRC_FORMS[src_form](kw0['source_ids'])
        return {k: kw0[k] for k in SHARED_KEYS if k in kw0}
    objs = objects()
    loaders = {1: envA.loader(), 2: envB.loader()}
    on = {1: envA, 2: envB}
    recs = []
    for st in steps:
        n = st['loader']
        if st.get('open'):
            on[n] = envA if st['open'] == 'A' else envB
            loaders[n].open(on[n].path, num_threads=1)
            on[n].assert_static(loaders[n])
        cs = dict(c, **(st.get('over') or {}))
        kw = kwargs_of(F, cs)
        if not share:
            objs = objects()
        kw.update(objs)
        before = {k: arg_state(v) for k, v in objs.items()}
        try:
            res = loaders[n].read(**kw)
            text = canon_result(F, res, on[n].order(cs))
        except Exception as e:
            res, text = None, 'E:%s' % type(e).__name__
        after = {k: arg_state(v) for k, v in objs.items()}
        recs.append({'text': text, 'env': on[n], 'call': cs, 'res': res,
                     'changed': [(k, before[k], after[k]) for k in objs if before[k] != after[k]]})
    return recs


def shared_replay(envA, envB, c, src_form, steps):
    return {'log': [list(s) for s in envA.spec], 'other_log': [list(s) for s in envB.spec], 'shared_call': c,
            'source_ids_container': src_form, 'steps': steps,
            'how': 'log entries are (type, P1 time in half seconds or null, source id); the message_types / time_range / '
                   'source_ids / aligned_message_types objects of shared_call are built once and passed to every step; loader 1 '
                   'is a DataLoader opened on log, loader 2 one opened on other_log, both alive from the start; a step calls '
                   'open(A = log / B = other_log) on its loader if "open" is set, then read() with the shared objects and the '
                   'scalar arguments of shared_call changed as "over" says; expected: the result of the same call with new '
                   'objects on a loader freshly opened on the log the step reads, and the objects unchanged'}


def step_text(st):
    return 'loader %d%s: read(%s)' % (st['loader'], (' open(%s)' % st['open']) if st.get('open') else '',
                                     ', '.join('%s=%s' % (KEY_NAMES[k], v) for k, v in (st.get('over') or {}).items()) or 'same arguments')


def judge_shared_session(ctx, F, envA, envB, c, src_form, steps):
    def first_bad(recs, what):
        for i, r in enumerate(recs):
            if (what == 'modified' and r['changed']) or (what == 'differs' and r['text'] != r['env'].fresh(r['call'])):
                return i
        return None
    recs = run_shared_session(F, envA, envB, c, src_form, steps)
    ctx.count('shared_argument_sessions')
    ctx.count('shared_argument_reads', len(recs))
    ctx.count('shared_argument_reads_returning_messages',
              sum(1 for r in recs if any(ch.isdigit() for ch in r['text'].split('|', 1)[-1].replace('/', ' '))))
    ctx.count('shared_sessions_two_loaders_alive', int(len(set(st['loader'] for st in steps)) == 2))
    ctx.count('shared_sessions_open_on_a_used_loader', int(any(st.get('open') for st in steps)))
    tr = c['tr']
    ctx.count('shared_time_range_' + ('none' if tr is None else 'absolute' if tr[2] else
                                     'relative_explicit_t0' if len(tr) > 3 else 'relative_without_t0'))
    ctx.count('shared_message_types_as_' + (c['tform'] if c['types'] is not None else 'none'))
    ctx.count('shared_source_ids_as_' + (src_form if c['src'] is not None else 'none'))
    ctx.case('shared %s' % json.dumps(shared_replay(envA, envB, c, src_form, steps), sort_keys=True, default=str),
             nontrivial=len(recs) >= 2 and any(ch.isdigit() for ch in recs[-1]['text'].split('|', 1)[-1].replace('/', ' ')))
    for what in ('differs', 'modified'):
        i = first_bad(recs, what)
        if i is not None:
            report_shared(ctx, F, envA, envB, c, src_form, steps, i, what, first_bad)


def report_shared(ctx, F, envA, envB, c, src_form, steps, i, what, first_bad):
    # smallest sub-sequence of the earlier steps after which the step still fails in the same way
    small = steps[:i + 1]
    done = False
    for k in range(0, i + 1):
        for sub in itertools.combinations(range(i), k):
            cand = [steps[j] for j in sub] + [steps[i]]
            if first_bad(run_shared_session(F, envA, envB, c, src_form, cand), what) == len(cand) - 1:
                small, done = cand, True
                break
        if done:
            break
    recs = run_shared_session(F, envA, envB, c, src_form, small)
    r = recs[-1]
    hist = ' ; '.join(step_text(st) for st in small)
    if what == 'modified':
        k, b, a = r['changed'][0]
        ctx.violation('C12/read-modifies-its-argument:%s' % k,
                      'shared arguments %s; %s: the %s object passed to read() was %s before the call and is %s after it (the '
                      'caller\'s next read with "the same arguments" is a different call)' %
                      (describe(c), hist, k, state_text(b), state_text(a)), shared_replay(envA, envB, c, src_form, small))
        return
    fresh_objs = run_shared_session(F, envA, envB, c, src_form, small, share=False)
    if fresh_objs[-1]['text'] == r['env'].fresh(r['call']):
        mod = sorted(set(k for q in recs for k, _, _ in q['changed']))
        sig = 'C12/read-with-reused-argument-objects-differs-from-a-fresh-loader' + (':' + '+'.join(mod) if mod else '')
    elif len(set(st['loader'] for st in small)) == 2:
        sig = 'C12/read-differs-from-a-fresh-loader-while-a-second-loader-is-alive'
    elif any(st.get('open') for st in small):
        sig = 'C12/read-after-open-on-a-used-loader-differs-from-a-fresh-loader'
    else:
        sig = 'C12/cache-not-transparent:history-of-%d' % len(small)
    ctx.violation(sig, 'shared arguments %s; %s: the last read returned %s; a loader freshly opened on that log, given new equal '
                  'argument objects, returns %s' % (describe(c), hist, brief(r['text']), brief(r['env'].fresh(r['call']))),
                  shared_replay(envA, envB, c, src_form, small))


def shifted_env(F, env, shift, name):
    """The same log with every P1 time `shift` half seconds later (another t0, the same relative times)."""
    e = Env(F, [(t, None if t2 is None else t2 + shift, s) for t, t2, s in env.spec], name)
    return e


# ---- measurement types with `details` under require_system_time --------------------------------------------
DETAILS_CACHE_SIG = 'C12/require-system-time:type-with-measurement-details:answered-from-cache'
DETAILS_FRESH_SIG = 'C12/require-system-time:type-with-measurement-details:fresh-read-differs-from-reader'
_details_types = None


def details_types(F):
    """Registered types outside messages_with_system_time whose messages carry MeasurementDetails: get_system_time_ns() is
    the reception time or NaN, never None."""
    global _details_types
    if _details_types is None:
        M = F['M']
        _details_types = set(int(t) for t, cls in M.message_type_to_class.items()
                             if t not in M.messages_with_system_time and
                             isinstance(getattr(cls(), 'details', None), M.MeasurementDetails))
    return _details_types


def details_culprit(env, c, got, want):
    """require_system_time is set and the two results differ in types with measurement details only."""
    if not c['rsys'] or c['inorder'] or not (got.startswith('D|') and want.startswith('D|')):
        return False
    det = details_types(env.F)
    a, b = got.split('|')[1:], want.split('|')[1:]
    if len(a) != len(b):
        return False
    diff = [x.split('/')[0] for x, y in zip(a, b) if x != y]
    return bool(diff) and all(d.isdigit() and int(d) in det for d in diff)


def gen_details_log(rng):
    """RawIMUOutput / RawWheelSpeedOutput (every third one timestamped on reception) among Pose and EventNotification; every
    P1 time distinct."""
    n = rng.choice([8, 12, 18])
    two = rng.random() < 0.3
    t2 = rng.choice([20, 21, 40])
    pool = rng.choice([[I, I, W, E, P], [I, E, P], [I, W, E], [I, W, W, E, E, P, A]])
    spec = []
    for _ in range(n):
        t = rng.choice(pool)
        spec.append((t, None if t in (E, R) else t2, rng.choice([0, 1]) if two else 0))
        t2 += rng.choice([1, 1, 2])
    if not any(s[0] == I for s in spec):
        spec[-1] = (I, t2, 0)
    if two:
        spec[0] = (spec[0][0], spec[0][1], 0)
        low = min(s[0] for s in spec)
        pos = [i for i, s in enumerate(spec) if s[0] == low]
        spec[pos[0]] = (low, spec[pos[0]][1], 0)
        spec[pos[-1]] = (low, spec[pos[-1]][1], 1 if len(pos) > 1 else 0)
    return spec


def gen_details_history(rng, env, length):
    """require_system_time reads of more types (all types / every type of the log / a details type with a system-timestamped
    one), then of the details types among them with otherwise equal arguments - and the other way round."""
    spec = env.spec
    present = sorted(set(s[0] for s in spec))
    det = [t for t in present if t in (I, W)]
    base = gen_call(rng, spec, False, env.avail)
    base.update(rsys=True, rp1=rng.random() < 0.15, ic=False, inorder=False, align=0, aligned=None, tform='enum', reopen=None)
    if rng.random() < 0.6:
        base['max'] = None
    wide = dict(base, types=None if rng.random() < 0.5 else tuple(present))
    narrow = dict(base, types=tuple(sorted(rng.sample(det, rng.choice(list(range(1, len(det) + 1)))))))
    mid = dict(base, types=tuple(sorted(set(narrow['types']) | ({E} if E in present else {present[0]}))))
    q = rng.random()
    if q < 0.4:
        h = [wide, narrow]
    elif q < 0.55:
        h = [narrow, wide]
    elif q < 0.75:
        h = [mid, narrow]
    elif q < 0.85:
        h = [wide, mid, narrow]
    else:
        h = [dict(gen_call(rng, spec, False, env.avail), rsys=rng.random() < 0.5)]
    while len(h) < length:
        d = mutate_call(rng, rng.choice(h), spec, False, env.avail)
        if rng.random() < 0.6:
            d['rsys'] = True
        h.append(d)
    return h[:max(length, 2)]


def run_details(ctx, F, nlogs, per_log, maxlen):
    rng = ctx.rng
    for li in range(nlogs):
        env = Env(F, gen_details_log(rng), 'details%d' % li)
        ctx.count('logs_with_measurement_details_types')
        seen = set()
        for _ in range(per_log):
            hist = gen_details_history(rng, env, rng.choice(list(range(2, maxlen + 1))))
            ctx.count('histories_on_logs_with_measurement_details_types')
            one_history(ctx, F, env, hist, None, None, None, None, model=False)
            for c in hist:
                if call_key(F, c) not in seen:
                    seen.add(call_key(F, c))
                    check_fresh_spec(ctx, env, c, env.fresh(c))
                    ctx.count('fresh_spec_checked')


# ---- the run ----------------------------------------------------------------------------------------------
def one_history(ctx, F, env, hist, reg, drops, lines, pending, model=True):
    rng = ctx.rng
    out, hits = env.run_history(hist)
    avail_after = list(env.avail_after)
    envs_at = list(env.envs_at)
    ctx.count('kept_results_reread', sum(range(len(hist))))
    if env.held_changes:
        j, i, was, now = env.held_changes[0]
        small = hist[:i + 1]
        ctx.violation('C12/result-of-an-earlier-read-changed-by-a-later-read',
                      'the result returned by call #%d read(%s) was %s when it was returned; after call #%d read(%s) the same object '
                      'holds %s (the caller kept it; with a fresh loader per read it cannot change)'
                      % (j + 1, describe(hist[j]), brief(was), i + 1, describe(hist[i]), brief(now)), replay_obj(env, small))
        return
    ctx.count('calls', len(hist))
    ctx.count('cache_hits_observed', hits)
    for c in hist:
        for k in DEFAULT_CALL:
            if c[k] != DEFAULT_CALL[k]:
                ctx.count('arg_' + KEY_NAMES[k])
        if c['max'] is not None:
            ctx.count('max_negative' if c['max'] < 0 else 'max_nonnegative')
    # stage D (1): every prefix is a history; its last call must equal the fresh call
    for i in range(len(out)):
        f = envs_at[i].fresh(hist[i])
        if out[i] != f:
            small = shrink_history(env, hist[:i + 1])
            sig = transparency_signature(env, small)
            got, _ = env.run_history(small)
            ctx.violation(sig, 'after %s, read(%s) returned %s; a fresh loader returns %s' %
                          (' ; '.join('read(%s)' % describe(c) for c in small[:-1]), describe(small[-1]),
                           brief(got[-1]), brief(env.fresh_last(small))), replay_obj(env, small))
            break
    else:
        # The default of source_ids is state of the loader's reader (get_available_source_ids()).  If a history changed it,
        # a read with default arguments that is not served from the cache must still return what a fresh loader returns.
        drift = [i for i, a in enumerate(avail_after) if a != envs_at[i].avail]
        if drift:
            ctx.count('histories_that_changed_available_source_ids')
            probe = hist[:drift[0] + 1] + [dict(DEFAULT_CALL, ic=True)]
            if not transparent(env, probe):
                small = shrink_history(env, probe)
                got, _ = env.run_history(small)
                ctx.violation(transparency_signature(env, small),
                              'after %s, get_available_source_ids() is %s (fresh loader: %s) and read(%s) returned %s; a fresh '
                              'loader returns %s' % (' ; '.join('read(%s)' % describe(c) for c in small[:-1]), avail_after[drift[0]],
                                                     envs_at[drift[0]].avail, describe(small[-1]), brief(got[-1]),
                                                     brief(env.fresh_last(small))), replay_obj(env, small))
    if not model:
        return          # logs the Lean model has no registry entry for: judged by the fresh loader (and the reader) only
    # stage C
    for c in hist:
        if c['types'] is not None and c.get('tform', 'enum') != 'enum':
            ctx.count('message_types_spelled_as_' + c['tform'])
    opens = [i for i, c in enumerate(hist) if c.get('reopen')]
    if opens:
        # open() on the used loader: the model's history starts at the last open(), on the log opened there (the earlier
        # calls were compared with the fresh loader above)
        ctx.count('histories_with_open_on_a_used_loader')
        ctx.count('histories_with_open_of_another_log', int(any(hist[i]['reopen'] == 'other' for i in opens)))
        env, hist, out = envs_at[-1], hist[opens[-1]:], out[opens[-1]:]
    sels = {}
    for c in hist:
        k, s = env.selection(c)
        sels[k] = s
    if any(v is None for v in sels.values()):
        # the reader refuses a time range of this history (no P1 time in the log): compared with the fresh loader only
        ctx.count('histories_with_a_time_range_the_reader_refuses')
        ctx.count('calls_that_raise_in_such_histories', sum(1 for o in out if o.startswith('E:')))
        return
    reader = '%s/%s/%s' % (drops, dots(env.avail, '-'), '|'.join('%s=%s' % (k, dots(v)) for k, v in sorted(sels.items())))
    line = 'loader %s %s %s %s %s' % (VARIANT, reg, reader, env.log_text(), ';'.join(call_text(F, c) for c in hist))
    lines.append(line)
    pending.append((env, hist, out))
    nontrivial = len(hist) >= 2 and any(ch.isdigit() for ch in out[-1].split('|', 1)[-1].replace('/', ' ')) and hits > 0
    ctx.case(line, nontrivial=nontrivial)


def run(ctx, nlogs, per_log, maxlen, fresh_spec=True, shared_per_log=5, details=(2, 8)):
    F = fe()
    reg = registry_text(F)
    rng = ctx.rng
    lines, pending = [], []
    envs = []
    # regression corpus: the two-call histories of Loader.legacy_* (C12_legacy_fails) replayed on the real code
    corpus_spec = [(E, None, 0), (P, 2, 0), (P, 4, 1), (A, 4, 0), (G, 4, 0), (E, None, 0), (A, 6, 0), (G, 6, 1), (E, None, 0), (P, 8, 0)]
    env0 = Env(F, corpus_spec, 'corpus')
    envs.append(env0)
    nan_flag, keep_flag = probe_drops_untimed(F), probe_keeps_unavailable(F, env0)
    ctx.count('reader_remove_nans_effective', nan_flag)
    ctx.count('reader_keeps_undiscovered_source_ids', keep_flag)
    window = probe_open_window(F, env0)
    ctx.cov['open_probe_window_bytes'] = window
    if window is None:
        window = DEFAULT_OPEN_WINDOW      # open() made no byte-limited read on a log with a system-timestamped type
    per = len(F['Encoder']().encode_message(build_message(F, Z, 0, None)))
    nfill = min(window, MAX_OPEN_WINDOW) // per + 1
    drops = '%d/%d' % (nan_flag, keep_flag)       # the measured reader behaviours handed to the model
    D = DEFAULT_CALL
    corpus = [
        [dict(D, types=(P, A), numpy=True, keep=False), dict(D, types=(P, A))],
        [dict(D, types=(P, G, A), align=1), dict(D, types=(P, G, A))],
        [dict(D, types=(P, A), max=2), dict(D, types=(A,), max=2)],
        [dict(D, types=(P,)), dict(D, types=(P, A))],
        [dict(D, types=(P,)), dict(D, types=(P,), numpy=True)],
        [dict(D, types=(P,), numpy=True, ridx=True), dict(D, types=(P, A), numpy=True, ridx=True)],
        [dict(D, types=(E,), numpy=True), dict(D, types=(E, P), numpy=True)],
        [dict(D, types=(P, A), align=1), dict(D, types=(P,)), dict(D, types=(P, A), align=1)],
        [dict(D, types=(P, A), align=2, numpy=True), dict(D, types=(P,), numpy=True), dict(D, types=(P, A), align=2, numpy=True)],
        [dict(D, types=(P, E), src=(0,), max=3)],
        [dict(D, types=(P, E), src=(1,), max=-2)],
        [dict(D, types=(P, E), rp1=True, max=2)],
        [dict(D, types=(P, E), rsys=True, max=-2)],
        [dict(D, types=(P, E), src=(0,), max=-2, inorder=True, ridx=True)],
        # 20ca4d6: relative ranges with the same bounds and different explicit p1_t0 were one cache key
        [dict(D, types=(P, A), tr=(1.0, 2.0, False, 2)), dict(D, types=(P, A), tr=(1.0, 2.0, False, 4))],
        [dict(D, types=(P, A), tr=(1.0, 2.0, False, 4)), dict(D, types=(P, A), tr=(1.0, 2.0, False))],
        # 926a823: open() on a used loader (another log, the same log) kept the cache
        [dict(D, types=(P,)), dict(D, types=(P,), reopen='other')],
        [dict(D, types=(P, E), numpy=True), dict(D, reopen='other'), dict(D, types=(P, E), numpy=True, reopen='other')],
        [dict(D, types=(P, A), max=2), dict(D, types=(P, A), max=2, reopen='same')],
    ]
    env0.alt = Env(F, [(P, 6, 0), (E, None, 0), (P, 8, 1), (A, 8, 0), (P, 10, 0)], 'corpus_other')
    envs.append(env0.alt)
    for h in corpus:
        one_history(ctx, F, env0, h, reg, drops, lines, pending)
        ctx.count('corpus_histories')
    # an across-types read / a read of a part of its types with other arguments / the across-types read again: on the corpus
    # log, every strict subset of four sets of types
    for h in part_sweep(rng, corpus_spec, False, [(P, G, A), (P, G, A, E), (P, A), (G, E)], ctx.thorough):
        one_history(ctx, F, env0, h, reg, drops, lines, pending)
        ctx.count('part_of_an_across_types_result_replaced_histories')
    # argument objects used again by the caller: the corpus pair (t0 = 1.0 s / 3.0 s) first
    for tr in [(1.0, 2.5, False), (0.5, None, False), (None, 1.5, False), (1.0, 2.5, False, 4), (2.0, 4.5, True), None]:
        for pat in SHARED_PATTERNS[:6]:
            c = dict(D, types=rng.choice([(P, A), (P, G, A, E), None, (P,)]), tr=tr, src=rng.choice([None, (0,), (0, 1)]),
                     tform=rng.choice(['enum', 'set']))
            if c['types'] is None:
                c['tform'] = 'enum'
            judge_shared_session(ctx, F, env0, env0.alt, c, rng.choice(sorted(SRC_FORMS)),
                                 [{'loader': n, 'open': op, 'over': {}} for n, op in pat])
    for li in range(nlogs):
        nan_p1 = rng.random() < 0.25
        spec = gen_log(rng, nan_p1, nfill=nfill)
        if li == 1:
            spec = gen_long_log(rng, nan_p1)        # every run has a log longer than the source-id sampling ...
        elif li == 2:
            spec = gen_untimed_log(rng)             # ... one without P1 time (time ranges raise in the reader) ...
        elif li in (3, 4):
            spec = gen_probe_log(rng, nan_p1, nfill)    # ... and two larger than the prefix open() looks at
        env = Env(F, spec, 'log%d' % li)
        env.alt = envs[-1]
        offs = env.offsets()
        first_sys = [offs[i] for i, x in enumerate(spec) if x[0] == E]
        first_p1 = [offs[i] for i, x in enumerate(spec) if x[1] is not None]
        ctx.count('logs_larger_than_open_probe', int(offs[-1] > window))
        ctx.count('logs_first_system_time_beyond_open_probe', int(bool(first_sys) and first_sys[0] > window))
        ctx.count('logs_first_p1_time_beyond_open_probe', int(bool(first_p1) and first_p1[0] > window))
        ctx.count('logs_source_id_only_beyond_open_probe',
                  int(any(all(offs[i] > window for i, x in enumerate(spec) if x[2] == sid) for sid in set(x[2] for x in spec))))
        ids = set(x[2] for x in spec)
        envs.append(env)
        ctx.count('logs')
        ctx.count('logs_longer_than_source_id_sampling', int(len(spec) > 20))
        ctx.count('logs_single_source', int(len(ids) == 1))
        ctx.count('logs_with_undiscovered_source_ids', int(bool(ids - set(env.avail))))
        ctx.count('logs_with_source_id_that_disappears',
                  int(any(max(i for i, x in enumerate(spec) if x[2] == s) < len(spec) // 2 for s in ids) and len(ids) > 1))
        ctx.count('logs_with_untimed_p1_messages', int(nan_p1))
        ctx.count('messages', len(spec))
        for _ in range(per_log):
            hist = gen_history(rng, spec, nan_p1, rng.choice(list(range(1, maxlen + 1)) + [maxlen]), env.avail)
            if any(c.get('reopen') == 'other' for c in hist) and (env.untimed_p1 or env.alt.untimed_p1):
                # time alignment is compared on logs without untimed P1-type messages only: none on either log of the pair
                hist = [dict(c, align=0, aligned=None) for c in hist]
            ctx.count('part_of_an_across_types_result_replaced_histories', int(is_part_history(F, hist)))
            one_history(ctx, F, env, hist, reg, drops, lines, pending)
            if ctx.elapsed() > (900 if ctx.thorough else 70):
                break
        # the same argument objects passed to reads of this log and of another one (the previous log, or this log with every
        # P1 time shifted: another t0, the same relative times), on two loaders alive at once / after open() on a used loader
        big = any(x[0] == Z for x in spec)
        other = None
        for _ in range(shared_per_log if not big else 1):
            if ctx.elapsed() > (1000 if ctx.thorough else 80):
                break
            if big or rng.random() < 0.4:
                envB = env.alt
            else:
                if other is None:
                    other = shifted_env(F, env, rng.choice([3, 10, 36]), 'log%d_shifted' % li)
                envB = other
            a, b = (env, envB) if rng.random() < 0.7 else (envB, env)
            c, form, steps = gen_shared_session(rng, a, b)
            judge_shared_session(ctx, F, a, b, c, form, steps)
    run_details(ctx, F, details[0], details[1], maxlen)
    # stage D (2): fresh-read specification against the reader, and the Lean specification `freshSpec` against the code
    spec_lines, spec_pending = [], []
    if fresh_spec:
        for env in envs:
            seen = set()
            for (e2, hist, out) in pending:
                if e2 is not env:
                    continue
                for c in hist:
                    k = call_text(F, c)
                    if call_key(F, c) in seen:
                        continue
                    seen.add(call_key(F, c))
                    check_fresh_spec(ctx, env, c, env.fresh(c))
                    ctx.count('fresh_spec_checked')
                    check_default_sources(ctx, env, c)
                    tk, sel = env.selection(c)
                    if sel is None:
                        continue
                    reader = '%s/%s/%s=%s' % (drops, dots(env.avail, '-'), tk, dots(sel))
                    spec_lines.append('loaderspec %s %s %s %s' % (reg, reader, env.log_text(), k))
                    spec_pending.append((env, c))
    spec_outs = ctx.driver(spec_lines)
    for (env, c), so in zip(spec_pending, spec_outs):
        f = env.fresh(c)
        if f != mask_model(so):
            sig = 'C12/fresh-read-differs-from-spec'
            if undiscovered_in_scope(env, c) and not f.startswith('E:'):
                # Outside the hypothesis of C12_read_fresh_spec (an undiscovered source id in the selection of a call with a
                # maximum).  It is the index-cut-before-source-test mechanism iff the model of the code, which has exactly
                # that mechanism, predicts what the code returned.
                tk, sel = env.selection(c)
                reader = '%s/%s/%s=%s' % (drops, dots(env.avail, '-'), tk, dots(sel))
                mo = ctx.driver(['loader %s %s %s %s %s' % (VARIANT, reg, reader, env.log_text(), call_text(F, c))])
                if mo and mask_model(mo[0]) == f:
                    sig = undiscovered_signature(c)
            ctx.violation(sig, 'fresh read(%s) returned %s; the specification freshSpec gives %s' %
                          (describe(c), f[:300], mask_model(so)[:300]), replay_obj(env, [c]))
        ctx.count('lean_spec_checked')
    outs = ctx.driver(lines)
    for (env, hist, out), mo in zip(pending, outs):
        impl = ';'.join(model_prefix(out))
        if impl != mask_model(mo):
            ctx.disagree('loader != model on %s : impl=%s model=%s' % (' ; '.join(describe(c) for c in hist), impl[:300], mask_model(mo)[:300]),
                         replay_obj(env, hist))
        ctx.cov['traces_validated_against_impl'] += 1
    for (env, hist, out), mo in list(zip(pending, outs))[14:17]:
        ctx.sample({'log': env.log_text()[:2000], 'history': [describe(c) for c in hist], 'per_call': [o[:160] for o in out]})
    ctx.count('loaders_with_a_t0_search_pending_after_open_or_a_read', len(STATIC_BROKEN))
    if STATIC_BROKEN and not ctx.violations and not ctx.disagreements:
        raise fv.InfraError('model assumption broken (a search for t0 is still pending after open() / a read) and no read '
                            'differed: %s' % '; '.join(STATIC_BROKEN[:3]))


def search(ctx):
    run(ctx, 25, 40, 3)


def check(ctx):
    ctx.cov['rule'] = ('logs of 6-16 messages built with the repository encoder (Pose, GNSSInfo, PoseAux with P1 times that coincide '
                       'across types, repeat and occasionally step back; EventNotification with system time only; ResetRequest with '
                       'no time; one or two source ids; a quarter of the logs contain P1-type messages without valid P1 time and are '
                       'read without alignment), and (40%) logs of 15-120 messages of 1-3 types that are longer than what the reader '
                       'samples for get_available_source_ids(): one source id only, ids used throughout, ids used only in the first '
                       'messages, one or two ids first used in the tail (not discovered by the reader: the default of source_ids '
                       'leaves them out), a tail of new ids only, ids at random; which ids are available is measured on the real '
                       'reader; source_ids requested: default, every single id, all ids of the log, exactly the available set, the '
                       'undiscovered ones, available + one undiscovered, an absent id; default/explicit pairs in both orders with '
                       'and without a read over the whole log in between; get_available_source_ids() is observed after every call '
                       'and, if a history changed it, a default read that bypasses the cache is appended and compared; a default '
                       'read is also compared with the read that names the available set; call histories of length <= 3 (quick) / <= 4 (thorough) over message-type subsets '
                       '(including all types and a registered type absent from the log), absolute/relative time ranges, source-id '
                       'sets (including unavailable ones), max_messages of both signs and 0, require_p1_time, require_system_time, '
                       'return_in_order, return_message_index, return_numpy, keep_messages, remove_nan_times, time_align '
                       'DROP/INSERT with and without aligned_message_types, ignore_cache; later calls are mostly earlier calls with '
                       '0-3 arguments changed. State that open() establishes from a prefix of the log: two logs per run (8% of the '
                       'logs in thorough) are larger than the number of bytes open() limits its search for the first system-timestamped '
                       'message to (observed on the real code: open_probe_window_bytes; 16 kB PlatformStorageData fillers between a head '
                       'of 0-9 and a tail of 6-18 messages), with the first system-timestamped message / the first P1 time / the first '
                       'P1 time of some types / a source id only beyond that prefix (and controls where they are inside); on these half '
                       'of the histories start with a read of a system-timestamped type with source_ids and/or a relative or absolute '
                       'time range whose bounds are P1 times of the log, repeated later from the cache or with ignore_cache, and every '
                       'first read is compared with the reader and the specification. Relative time ranges carry an explicit p1_t0 in '
                       '30% of the cases; pairs that differ only in p1_t0 are generated. open() is called again on a used loader (the '
                       'same log, or the other of a pair of logs) before 5% of the later calls: the call must return what a loader '
                       'freshly opened on that log returns (the model is compared from the last open() on). A call is made after a read '
                       'that cached all its types under other arguments and then repeated (on logs without P1 time, where a time range '
                       'raises, in 45% of the histories). Results that apply across types (max_messages of either sign, time_align '
                       'DROP / INSERT) and reads of a part of their types: read(T, X), then 1-2 reads of strict subsets of T (each '
                       'single type, each pair, ...) with other arguments (the same X over the subset / no maximum or alignment / one '
                       'more argument drawn anew), then read(T, X) again - on the corpus log for every strict subset of 4 sets of '
                       '2-4 types x the 4 kinds of X (thorough: x the 3 kinds of middle read), and as 11% of the generated histories of '
                       'length >= 3 (T also = all registered types); every call of the history is compared with a fresh loader. '
                       'Argument objects used again: per log 5 (thorough 10) sessions, and 36 on a fixed pair of '
                       'logs, in which one TimeRange object (relative without t0 / relative with explicit t0 / absolute / none), one '
                       'message_types object (list of enums, set, classes, integers, tuple, array), one source_ids object (list / set '
                       '/ tuple) and one aligned_message_types list are passed to 2-4 reads of two logs with different first P1 times '
                       '(the previous log, or the same log shifted in time) - two DataLoader objects alive at once, open() of the '
                       'other log on a used loader, scalar arguments changed in 30% of the later steps; each read must equal the '
                       'same call with new objects on a loader freshly opened on its log, and every argument object must equal the '
                       'deep copy taken before the call (all TimeRange members incl. p1_t0 and the latches; container type and '
                       'elements). Two logs per run (thorough 10) hold RawIMUOutput / RawWheelSpeedOutput (MeasurementDetails, every '
                       'third timestamped on reception) among Pose/Event; histories there read all types / a superset and then the '
                       'details types alone with require_system_time and otherwise equal arguments (both orders), judged by the '
                       'fresh loader and the reader. Compared per call and per type: identities of the returned messages (ordinal embedded '
                       'in each payload, d<time> for inserted defaults), message_index, and the per-column identities of the numpy '
                       'members. non-trivial = at least two calls, the last returns a message, and some returned MessageData object '
                       'was served from the cache; distinct = distinct (log, history)')
    ctx.assumptions += [
        'the log reader (MixedLogReader / FileIndex: which entries a TimeRange selects, source-id discovery, remove_nans) is a '
        'parameter of the model; its answers are taken from the real reader on every run (properties C10/C11 specify it)',
        'after DataLoader.open(): have_index() is True and _need_t0 = _need_system_t0 = False (observed on every loader after open() '
        'and after every call, also on logs whose first system-timestamped message lies beyond the bytes open() searches; a '
        'pending search is recorded and the reads are judged like all others - the run fails as infrastructure only if the '
        'assumption was broken and no read differed)',
        'an explicit p1_t0 is given to relative time ranges only (for an absolute range the code uses it neither in '
        'TimeRange.__eq__ nor in the selection)',
        'max_bytes = None and return_bytes = False in every call (return_bytes with return_numpy makes MessageData.to_numpy raise '
        'a swallowed ValueError half way); every generated message deserialises; requested types are registered',
        'no message type has both P1 and system time (checked on the registry on every run; hypothesis of the theorems)',
        'the reader\'s set of available source identifiers (sampled at construction, possibly incomplete) is a parameter of the '
        'model; the specification of a fresh read takes "the default source_ids" to be that set, as the loader documents',
        'time alignment is modelled for P1 times that are not NaN (logs with untimed P1-type messages are read with time_align = NONE)',
    ]
    ctx.prove(MODULES)
    try:
        if ctx.thorough:
            run(ctx, 150, 80, 4, shared_per_log=10, details=(10, 20))
        else:
            run(ctx, 30, 40, 3)
    except fv.InfraError:
        if not ctx.proof_failures:
            raise
    return fv.finish(ctx, 'proof', search)


def replay(ctx, path):
    obj = json.load(open(path))
    r = obj['input']
    F = fe()
    spec = [(int(t), None if t2 is None else int(t2), int(s)) for t, t2, s in r['log']]
    env = Env(F, spec, 'replay')

    def call_of(c):
        c = dict(DEFAULT_CALL, **c)
        for k in ('types', 'src', 'aligned', 'tr'):
            if c[k] is not None:
                c[k] = tuple(c[k])
        return c
    if r.get('steps'):
        envB = Env(F, [(int(t), None if t2 is None else int(t2), int(s)) for t, t2, s in r['other_log']], 'replay_other')
        judge_shared_session(ctx, F, env, envB, call_of(r['shared_call']), r.get('source_ids_container', 'list'), r['steps'])
        return fv.finish(ctx, 'proof', None)
    if r.get('other_log'):
        env.alt = Env(F, [(int(t), None if t2 is None else int(t2), int(s)) for t, t2, s in r['other_log']], 'replay_other')
    hist = []
    for c in r['history']:
        c = dict(DEFAULT_CALL, **c)
        for k in ('types', 'src', 'aligned', 'tr'):
            if c[k] is not None:
                c[k] = tuple(c[k])
        hist.append(c)
    lines, pending = [], []
    one_history(ctx, F, env, hist, registry_text(F), '%d/%d' % (probe_drops_untimed(F), probe_keeps_unavailable(F, env)),
                lines, pending, model=not any(s[0] in (I, W) for s in spec))
    for c in hist:
        check_fresh_spec(ctx, env, c, env.fresh(c))
    outs = ctx.driver(lines)
    for (env, hist, out), mo in zip(pending, outs):
        if ';'.join(model_prefix(out)) != mask_model(mo):
            ctx.disagree('loader != model: impl=%s model=%s' % (';'.join(model_prefix(out))[:300], mask_model(mo)[:300]), replay_obj(env, hist))
    return fv.finish(ctx, 'proof', None)
