"""C13 - time-range membership follows the documented interval semantics (TimeRange in utils/time_range.py).

Times are multiples of 0.25 s (exactly representable, float arithmetic on them is exact), written for the Lean
driver as integers in quarter seconds.  Tokens (see lean/FeVerif/Driver/TimeRange.lean):
  bound: N | <int> | inf | T<int> | TX      ctor: start,end,absolute(N/0/1),t0(N/<int>)
  event: b | u | s | n | <int> | m<src>.<mt>.<p1> | p<p1>.<sys> | R, message tokens optionally prefixed with t
         (return_timestamps=True).  The m and p forms describe a message by its MEMBERS: m = a sensor measurement with
         details.measurement_time_source <src> (0 INVALID, 1 P1_TIME, 2 TIMESTAMPED_ON_RECEPTION, 3 SENDER_SYSTEM_TIME,
         4 GPS_TIME), details.measurement_time <mt> and details.p1_time <p1> (N = invalid Timestamp); p = any other
         payload with p1_time member <p1> (A none, X invalid Timestamp) and system_time_ns member <sys> (A none, else ns).
         Every token is turned into a real object of the package: each of the payload classes of that kind in turn
         (all classes embedding MeasurementDetails for m, all classes with a p1_time / system_time_ns member / neither
         for p), directly built or decoded from its packed form.  Whether the specification treats a message as
         P1-timed is decided from the members, as documented (doc_p1()), never from get_p1_time().

The harness writes the same values in every spelling the constructor accepts (the driver and the specification are
given the value, never the spelling):
  bound:    O omitted argument | i<int> python int | g<..> numpy.float64 | h<..> numpy.float32 | j<int> numpy.int64 |
            T<..> Timestamp | TX invalid Timestamp         (<..> = <int> or inf)
  absolute: O omitted | b0 b1 numpy.bool_ | i0 i1 python int
  t0:       O omitted | <int> Timestamp | TX invalid Timestamp | f<int> float | g<int> numpy.float64 | i<int> int | fnan
  optional fifth field, how the object is made: p positional arguments | pt parse((start, end), absolute) |
            pl parse([start, end], absolute) | p1 parse((start,), absolute) | p3 parse((start, end, 'abs'|'rel')) |
            p3c the same with the contrary `absolute` argument (the tuple wins) | po parse(TimeRange(...), absolute)

Caller-owned objects.  The specification is given the sequence of time VALUES; which Python objects carried them is
not its business, so the range must behave the same whatever the caller does with HIS objects afterwards:
  * one sequence in REUSE_SHARE (a function of the event list, so a replay does the same) is not run on a fresh object
    per message but on ONE object per payload class that is changed in place between the calls - `m.p1_time += dt`,
    `m.p1_time.seconds = x`, the attribute replaced (also by None), for sensor measurements the details fields or the
    whole details object - the way a stream is synthesised or replayed with one message object; after every call the
    object is changed again (its times moved on, made invalid, an invalid one made valid);
  * every Timestamp handed to the constructor / parse() as a bound or p1_t0 and to make_absolute() is changed in place
    after the call, the list given to parse() is overwritten; after intersect() the other range's p1_t0 is moved in
    place (`other.p1_t0 += dt`, `.seconds = x`, an invalid one made valid), with in_place=False the receiver's too.
  The verdicts on the following messages and the state are then judged as before.
"""
import copy
import functools
import itertools
import json
import math
import random
import re
import zlib

import fv

MODULES = ['FeVerif.Props.C13']
Q = 0.25

_msg_cache = {}
SRC_NAMES = {0: 'INVALID', 1: 'P1_TIME', 2: 'TIMESTAMPED_ON_RECEPTION', 3: 'SENDER_SYSTEM_TIME', 4: 'GPS_TIME'}
OTHER_TIME = 123.25     # put into members that are neither P1 nor system time (gps_time), where the class has them


def _catalogue():
    """The payload classes of the package by the time members their objects have (looked up on a default-constructed
    object, not through the accessors): 'meas' embeds MeasurementDetails, 'p1' has a p1_time Timestamp member, 'sys' a
    system_time_ns member, 'none' neither."""
    c = _msg_cache
    if 'classes' not in c:
        from fusion_engine_client.messages import message_type_to_class, MeasurementDetails, SystemTimeSource, Timestamp
        from fusion_engine_client.messages.defs import MessagePayload
        kinds = {'meas': [], 'p1': [], 'sys': [], 'none': []}
        seen = set()

        def walk(cls):
            for sub in cls.__subclasses__():
                if sub not in seen:
                    seen.add(sub)
                    walk(sub)
        walk(MessagePayload)
        seen |= set(message_type_to_class.values())
        for cls in sorted(seen, key=lambda k: k.__name__):
            if not cls.__module__.startswith('fusion_engine_client.'):
                continue
            try:
                m = cls()
            except Exception:  # noqa
                continue
            members = vars(m)
            if isinstance(members.get('details'), MeasurementDetails):
                kinds['meas'].append(cls)
            elif isinstance(members.get('p1_time'), Timestamp):
                kinds['p1'].append(cls)
            elif 'system_time_ns' in members:
                kinds['sys'].append(cls)
            elif not any('time' in k for k in members):
                kinds['none'].append(cls)
        for k, v in kinds.items():
            if not v:
                raise fv.InfraError('no payload class of kind %r found in the package' % k)
        c['classes'] = kinds
        c['Timestamp'] = Timestamp
        c['Src'] = SystemTimeSource
        c['objects'] = {}
    return c


def _messages():
    return _catalogue()


@functools.lru_cache(maxsize=None)
def parse_tok(tok):
    """Message token -> ('raw',) | ('meas', src, mt, p1) | ('plain', p1, sys): mt/p1 are None (invalid Timestamp) or
    quarter seconds; the plain p1 is 'A' (no member / None), None (invalid Timestamp) or quarter seconds; sys 'A' or ns."""
    if tok == 'b':
        return ('raw',)
    if tok == 'u':
        return ('plain', 'A', 'A')
    if tok == 's':
        return ('plain', 'A', 3000000000)
    if tok == 'n':
        return ('plain', None, 'A')
    if tok[0] == 'm':
        src, mt, p1 = tok[1:].split('.')
        return ('meas', int(src), None if mt == 'N' else int(mt), None if p1 == 'N' else int(p1))
    if tok[0] == 'p':
        p1, sy = tok[1:].split('.')
        return ('plain', 'A' if p1 == 'A' else None if p1 == 'X' else int(p1), 'A' if sy == 'A' else int(sy))
    return ('plain', int(tok), 'A')


@functools.lru_cache(maxsize=None)
def doc_p1(tok):
    """What the documentation says the P1 time of the message is (quarter seconds or None), from its members:
    the p1_time member; for a sensor measurement details.p1_time ("the P1 time corresponding with the measurement time
    of applicability, if available"), else details.measurement_time when - and only when - measurement_time_source says
    that it is in P1 time.  A measurement time stamped on reception, by the sender's clock or in GPS time is no P1 time."""
    d = parse_tok(tok)
    if d[0] == 'raw':
        return None
    if d[0] == 'plain':
        return d[1] if isinstance(d[1], int) else None
    _, src, mt, p1 = d
    if p1 is not None:
        return p1
    return mt if src == 1 else None


@functools.lru_cache(maxsize=None)
def doc_sys_ns(tok):
    """The documented system time in ns, or None: the system_time_ns member, or a measurement time stamped on reception."""
    d = parse_tok(tok)
    if d[0] == 'plain':
        return None if d[2] == 'A' else float(d[2])
    if d[0] == 'meas' and d[1] == 2 and d[2] is not None:
        return d[2] * Q * 1e9
    return None


@functools.lru_cache(maxsize=None)
def candidates(tok):
    """None when the members are consistent; else the readings the documentation leaves open (P1 time values / None):
    measurement_time declared to be P1 time next to a different (or the only valid) details.p1_time."""
    d = parse_tok(tok)
    if d[0] == 'meas' and d[1] == 1 and d[3] is not None and d[3] != d[2]:
        return (d[2], d[3])
    return None


_resolved = {}


def p1_reading(tok):
    """The P1 time the specification is given for the message: the documented one; where the members contradict each
    other, the reading (among the documented candidates) that get_p1_time() takes - checked in accessor_case()."""
    c = candidates(tok)
    if c is None:
        return doc_p1(tok)
    if tok not in _resolved:
        got = real_p1(message_for(tok, 0))
        _resolved[tok] = got if got in c else c[0]
    return _resolved[tok]


def spec_tok(tok):
    """The token handed to the Lean specification (which applies Obj.docMsg itself to consistent members)."""
    if candidates(tok) is None:
        return tok
    r = p1_reading(tok)
    return 'u' if r is None else str(r)


def real_p1(m):
    """get_p1_time() of a real object as quarter seconds, None (None or an invalid Timestamp), or a text if it is odd."""
    t = m.get_p1_time()
    if t is None:
        return None
    if not isinstance(t, _catalogue()['Timestamp']):
        return 'not a Timestamp: %r' % (t,)
    x = float(t)
    if math.isnan(x):
        return None
    v = x * 4
    return int(v) if v == int(v) else 'inexact(%r)' % x


def _stamp(q):
    Timestamp = _catalogue()['Timestamp']
    return Timestamp() if q is None else Timestamp(q * Q)


@functools.lru_cache(maxsize=None)
def n_variants(tok):
    d = parse_tok(tok)
    c = _catalogue()['classes']
    if d[0] == 'raw':
        return 2
    if d[0] == 'meas':
        return 2 * len(c['meas'])
    if d[1] == 'A' and d[2] == 'A':
        return len(c['none']) + len(c['p1'])
    if d[1] == 'A':
        return len(c['sys'])
    return 2 * len(c['p1']) if d[2] == 'A' else len(c['p1'])


def build_message(tok, variant):
    """A real object of the package with the members the token describes. `variant` walks through the classes of the
    kind and, for every class, the directly built object and the one decoded from its packed form."""
    c = _catalogue()
    Timestamp = c['Timestamp']
    d = parse_tok(tok)
    kinds = c['classes']
    if d[0] == 'raw':
        return [b'\x2e\x31\x00\x00', None][variant % 2], 'raw'
    roundtrip = False
    if d[0] == 'meas':
        cls = kinds['meas'][variant % len(kinds['meas'])]
        roundtrip = (variant // len(kinds['meas'])) % 2 == 1
        m = cls()
        m.details.measurement_time = _stamp(d[2])
        m.details.measurement_time_source = c['Src'](d[1])
        m.details.p1_time = _stamp(d[3])
    elif d[1] == 'A' and d[2] == 'A':
        k = variant % (len(kinds['none']) + len(kinds['p1']))
        if k < len(kinds['none']):
            m = kinds['none'][k]()
        else:                               # a P1-timed class whose member was set to None
            m = kinds['p1'][k - len(kinds['none'])]()
            m.p1_time = None
    elif d[1] == 'A':
        m = kinds['sys'][variant % len(kinds['sys'])]()
        m.system_time_ns = d[2]
    else:
        cls = kinds['p1'][variant % len(kinds['p1'])]
        roundtrip = d[2] == 'A' and (variant // len(kinds['p1'])) % 2 == 1
        m = cls()
        m.p1_time = _stamp(d[1])
        if d[2] != 'A':
            m.system_time_ns = d[2]       # an extra member on a P1-timed object
    if isinstance(vars(m).get('gps_time'), Timestamp):
        m.gps_time = Timestamp(OTHER_TIME)
    how = type(m).__name__
    if roundtrip:
        try:
            data = m.pack()
            m2 = type(m)()
            m2.unpack(bytes(data), 0)
            if members_of(m2) == members_of(m):
                m, how = m2, how + ' decoded from its packed form'
        except Exception:  # noqa
            pass        # packing / decoding is the subject of other properties
    return m, how


def members_of(m):
    """The time members of a real object, as a token-comparable tuple."""
    c = _catalogue()
    Timestamp = c['Timestamp']

    def q(t):
        if t is None:
            return 'A'
        x = float(t)
        return None if math.isnan(x) else x * 4
    if not hasattr(m, '__dict__'):
        return ('raw',)
    v = vars(m)
    if 'details' in v and hasattr(v['details'], 'measurement_time_source'):
        dd = v['details']
        return ('meas', int(dd.measurement_time_source), q(dd.measurement_time), q(dd.p1_time))
    return ('plain', q(v['p1_time']) if 'p1_time' in v else 'A', v.get('system_time_ns', 'A'))


_by_tok = {}


def message_for(tok, variant):
    lst = _by_tok.get(tok)
    if lst is None:
        lst = _by_tok[tok] = [None] * n_variants(tok)
    k = variant % len(lst)
    m = lst[k]
    if m is None:
        m, how = build_message(tok, k)
        want = parse_tok(tok)
        if members_of(m) != want:
            raise fv.InfraError('harness built %s with members %r for token %s' % (how, members_of(m), tok))
        _catalogue()['objects'][(tok, k)] = (m, how)
        lst[k] = (m,)
        return m
    return m[0]


def describe(tok, variant=None):
    d = parse_tok(tok)
    if d[0] == 'raw':
        return 'raw bytes / None'
    if d[0] == 'meas':
        t = 'sensor measurement (details.measurement_time_source=%s, measurement_time=%s, details.p1_time=%s)' % (
            SRC_NAMES[d[1]], 'invalid' if d[2] is None else '%.2f s' % (d[2] * Q), 'invalid' if d[3] is None else '%.2f s' % (d[3] * Q))
    else:
        t = 'payload (p1_time %s, system_time_ns %s)' % (
            {'A': 'absent/None', None: 'invalid'}.get(d[1], None) or '%.2f s' % (d[1] * Q), 'absent' if d[2] == 'A' else d[2])
    if variant is not None:
        message_for(tok, variant)
        t = _catalogue()['objects'][(tok, variant % n_variants(tok))][1] + ': ' + t
    return t


def messages_unmodified():
    """Every object built so far still has the members of its token (is_in_range must not write to a message - also
    not through an origin it took from one)."""
    bad = []
    for (tok, k), (m, how) in _catalogue()['objects'].items():
        if members_of(m) != parse_tok(tok):
            bad.append((tok, k, how, members_of(m)))
    return bad


# ---- caller-owned objects --------------------------------------------------------------------------------
#
# See the module text.  Nothing here is part of the oracle: the specification still gets the values.

REUSE_SHARE = 8         # one sequence in REUSE_SHARE is run on one object per class changed in place
MOVED_ON = 1000         # quarter seconds (250 s) a caller's Timestamp is moved on after it was handed over
MADE_VALID = 777        # quarter seconds an invalid Timestamp of the caller is set to afterwards


_TS = [None]         # the Timestamp class
_held = {}           # class -> THE object of that class that the reuse-mode sequences are shown
_built_checked = [0]


def reuse_mode(base):
    return (base >> 12) % REUSE_SHARE == 0


def scribble_stamp(t, how):
    """The caller goes on using HIS Timestamp object: `t += dt`, `t.seconds = x`, made invalid, an invalid one made valid."""
    if type(t) is not _TS[0]:
        if _TS[0] is None:
            _TS[0] = _catalogue()['Timestamp']
            return scribble_stamp(t, how)
        return
    if t.seconds != t.seconds:
        t.seconds = MADE_VALID * Q
    elif how % 3 == 0:
        t += MOVED_ON * Q
    elif how % 3 == 1:
        t.seconds = math.nan
    else:
        t.seconds = MADE_VALID * Q if t.seconds != MADE_VALID * Q else 0.0


def scribble_any(o, how):
    """A Timestamp, or a range object of the caller (its origin moved in place: `other.p1_t0 += dt`, ...)."""
    if hasattr(o, 'p1_t0'):
        scribble_stamp(o.p1_t0, how)
    elif isinstance(o, list):
        for x in o:
            scribble_stamp(x, how)
        o[:] = [MADE_VALID * Q] * len(o)
    else:
        scribble_stamp(o, how)


def how_of(data):
    return zlib.crc32(json.dumps(data, sort_keys=True, default=str).encode())


def caller_moves_on(ctx, sig, text, data, res, objs):
    """After the call the caller changes the objects he passed; what the range is must not follow them."""
    before = state_str(res)
    how = how_of(data)
    for k, o in enumerate(objs):
        scribble_any(o, how + k)
    after = state_str(res)
    ctx.count('caller_objects_changed_after_call', len(objs))
    if after != before:
        ctx.violation(sig + '/follows-caller-object',
                      '%s: afterwards the caller changed, in place, the objects he had passed (Timestamp `+= dt` / `.seconds = x`, '
                      'the p1_t0 of the range he had passed); the result changed from %s to %s' % (text, before, after), data)


def set_stamp(owner, attr, q, style):
    """Give the Timestamp member the value q (quarter seconds / None) the way a caller who reuses the object does."""
    cur = getattr(owner, attr)
    if style == 0 or type(cur) is not _TS[0]:
        setattr(owner, attr, _stamp(q))                    # m.p1_time = Timestamp(x)
    elif style == 1 and q is not None and cur.seconds == cur.seconds:
        cur += q * Q - cur.seconds                         # m.p1_time += dt
        setattr(owner, attr, cur)
    else:
        cur.seconds = math.nan if q is None else q * Q     # m.p1_time.seconds = x


def held_message(pool, tok, v, rng):
    """THE object of its class in `pool` (made on first use), changed in place to the members the token describes."""
    c = _catalogue()
    Timestamp = c['Timestamp']
    kinds = c['classes']
    d = parse_tok(tok)
    if d[0] == 'raw':
        return [b'\x2e\x31\x00\x00', None][v % 2]
    if d[0] == 'meas':
        cls = kinds['meas'][v % len(kinds['meas'])]
    elif d[1] == 'A' and d[2] == 'A':
        k = v % (len(kinds['none']) + len(kinds['p1']))
        cls = kinds['none'][k] if k < len(kinds['none']) else kinds['p1'][v % len(kinds['p1'])]
    elif d[1] == 'A':
        cls = kinds['sys'][v % len(kinds['sys'])]
    else:
        cls = kinds['p1'][v % len(kinds['p1'])]
    m = pool.get(cls)
    if m is None:
        m = _held.get(cls)
        if m is None:
            m = _held[cls] = cls()
            if isinstance(vars(m).get('gps_time'), Timestamp):
                m.gps_time = Timestamp(OTHER_TIME)
        else:       # first use in this sequence: its times as in a new object (so that a replay changes it the same way)
            members = vars(m)
            if d[0] == 'meas':
                m.details.measurement_time.seconds = math.nan
                m.details.p1_time.seconds = math.nan
            elif 'p1_time' in members:
                m.p1_time = Timestamp()
                members.pop('system_time_ns', None)
        pool[cls] = m
    members = vars(m)
    if d[0] == 'meas':
        if rng.random() < 0.1:
            m.details = type(m.details)()                  # the whole details object replaced
        dd = m.details
        set_stamp(dd, 'measurement_time', d[2], rng.randrange(3))
        dd.measurement_time_source = c['Src'](d[1])
        set_stamp(dd, 'p1_time', d[3], rng.randrange(3))
    elif 'p1_time' in members:
        if d[1] == 'A':
            m.p1_time = None
        else:
            set_stamp(m, 'p1_time', d[1], rng.randrange(3))
        if d[2] != 'A':
            m.system_time_ns = d[2]
        elif 'system_time_ns' in members:
            del m.system_time_ns
    elif d[2] != 'A':
        m.system_time_ns = d[2]
    if _built_checked[0] < 100000:      # the harness's own work, checked on the first 100000 (all kinds and styles many times over)
        _built_checked[0] += 1
        if members_of(m) != d:
            raise fv.InfraError('harness changed a %s to the members %r for token %s' % (cls.__name__, members_of(m), tok))
    return m


def scribble_message(m, rng):
    """After the call the caller goes on with his message object."""
    v = vars(m)
    dd = v.get('details')
    if dd is not None and hasattr(dd, 'measurement_time_source'):
        scribble_stamp(dd.measurement_time, rng.randrange(3))
        scribble_stamp(dd.p1_time, rng.randrange(3))
    else:
        scribble_stamp(v.get('p1_time'), rng.randrange(3))


_BOUND = re.compile(r'^(T|i|g|h|j|)(-?\d+|inf)$')
_OMIT = object()


@functools.lru_cache(maxsize=None)
def split_bound(tok):
    """bound token -> (spelling, value); value is 'N' (no bound given), 'X' (invalid Timestamp), 'inf' or an int."""
    if tok in ('N', 'O'):
        return tok, 'N'
    if tok == 'TX':
        return 'T', 'X'
    m = _BOUND.match(tok)
    if not m:
        raise fv.InfraError('bad bound token %r' % tok)
    return m.group(1), ('inf' if m.group(2) == 'inf' else int(m.group(2)))


def spelled(sp, x):
    """The number x (float) in the spelling sp."""
    import numpy as np
    if sp == '':
        return float(x)
    if sp == 'i':
        return int(x)
    if sp == 'g':
        return np.float64(x)
    if sp == 'h':
        return np.float32(x)
    if sp == 'j':
        return np.int64(x)
    if sp == 'T':
        return _messages()['Timestamp'](x)
    raise fv.InfraError('bad spelling %r' % sp)


def bound_arg(tok):
    sp, v = split_bound(tok)
    if sp == 'N':
        return None
    if sp == 'O':
        return _OMIT
    if v == 'X':
        return _messages()['Timestamp']()
    return spelled(sp, math.inf if v == 'inf' else v * Q)


def canon_bound(tok):
    """The token the driver understands: the value, as a number or as a Timestamp."""
    sp, v = split_bound(tok)
    if v == 'N':
        return 'N'
    if v == 'X':
        return 'TX'
    return ('T' if sp == 'T' else '') + str(v)


def t0_arg(tok):
    Timestamp = _messages()['Timestamp']
    if tok == 'N':
        return None
    if tok == 'O':
        return _OMIT
    if tok == 'TX':
        return Timestamp()
    if tok == 'fnan':
        return math.nan
    if tok[0] in 'fgi':
        return spelled('' if tok[0] == 'f' else tok[0], int(tok[1:]) * Q)
    return Timestamp(int(tok) * Q)


def canon_t0(tok):
    if tok in ('N', 'O', 'TX', 'fnan'):
        return 'N'
    return tok[1:] if tok[0] in 'fgi' else tok


def abs_arg(tok):
    import numpy as np
    if tok == 'N':
        return None
    if tok == 'O':
        return _OMIT
    if tok[0] == 'b':
        return np.bool_(tok[1] == '1')
    if tok[0] == 'i':
        return int(tok[1])
    return tok == '1'


def canon_abs(tok):
    return 'N' if tok in ('N', 'O') else tok[-1]


@functools.lru_cache(maxsize=None)
def fields(ctor):
    f = ctor.split(',')
    return f[0], f[1], f[2], f[3], (f[4] if len(f) > 4 else '')


@functools.lru_cache(maxsize=None)
def dctor(ctor):
    """Constructor token for the driver: values only (an invalid Timestamp or NaN as p1_t0 is 'no t0')."""
    s, e, a, z, _ = fields(ctor)
    return '%s,%s,%s,%s' % (canon_bound(s), canon_bound(e), canon_abs(a), canon_t0(z))


@functools.lru_cache(maxsize=None)
def ctor_args(ctor):
    s, e, a, z, _ = fields(ctor)
    return bound_arg(s), bound_arg(e), abs_arg(a), t0_arg(z)


def make_range(ctor):
    from fusion_engine_client.utils.time_range import TimeRange
    s, e, a, z, form = fields(ctor)
    Timestamp = _messages()['Timestamp']
    sv, ev, av, zv = [Timestamp(float(x)) if isinstance(x, Timestamp) else x for x in ctor_args(ctor)]   # never share a Timestamp
    passed = [x for x in (sv, ev, zv) if type(x) is Timestamp]
    r = _make_range(ctor, TimeRange, s, e, a, z, form, sv, ev, av, zv, passed)
    if passed:
        how = zlib.crc32(ctor.encode())
        for k, o in enumerate(passed):      # the caller's Timestamps / list live on and change
            scribble_any(o, how + k)
    return r


def _make_range(ctor, TimeRange, s, e, a, z, form, sv, ev, av, zv, passed):
    def given(x):
        return None if x is _OMIT else x
    if form == '':
        kw = {}
        for k, v in (('start', sv), ('end', ev), ('absolute', av), ('p1_t0', zv)):
            if v is not _OMIT:
                kw[k] = v
        return TimeRange(**kw)
    if form == 'p':
        args = [sv, ev, av, zv]
        while args and args[-1] is _OMIT:
            args.pop()
        return TimeRange(*[given(x) for x in args])
    if zv is not _OMIT and zv is not None:
        raise fv.InfraError('parse() forms take no t0: %s' % ctor)
    akw = {} if av is _OMIT else {'absolute': av}
    if form == 'pt':
        return TimeRange.parse((given(sv), given(ev)), **akw)
    if form == 'pl':
        lst = [given(sv), given(ev)]
        passed.append(lst)
        return TimeRange.parse(lst, **akw)
    if form == 'p1':
        if given(ev) is not None:
            raise fv.InfraError('p1 form with an end: %s' % ctor)
        return TimeRange.parse((given(sv),), **akw)
    if form in ('p3', 'p3c'):
        want = canon_abs(a)
        if want == 'N':
            raise fv.InfraError('p3 form needs a type: %s' % ctor)
        kw = {'absolute': want != '1'} if form == 'p3c' else {}
        return TimeRange.parse((given(sv), given(ev), 'abs' if want == '1' else 'rel'), **kw)
    if form == 'po':
        kw = {}
        for k, v in (('start', sv), ('end', ev), ('absolute', av)):
            if v is not _OMIT:
                kw[k] = v
        inner = TimeRange(**kw)
        return TimeRange.parse(inner, **({} if av is _OMIT else {'absolute': inner.absolute}))
    raise fv.InfraError('bad constructor form %r' % form)


def qs(x):
    """float -> quarter-second token (exact)."""
    if x is None:
        return 'N'
    x = float(x)
    if math.isnan(x):
        return 'nan'
    if math.isinf(x):
        return 'inf' if x > 0 else '-inf'
    v = x * 4
    if v != int(v):
        return 'inexact(%r)' % x
    return str(int(v))


def state_str(r):
    t0 = float(r.p1_t0)
    return ','.join([qs(r.start), qs(r.end), '1' if r.absolute else '0', 'N' if math.isnan(t0) else qs(t0),
                     '1' if r._range_specified else '0', '1' if r._in_range_started else '0',
                     '1' if r._in_range_ended else '0'])


def variant_base(events):
    """Which class / construction each message of a sequence is given: a function of the sequence (so that a replay
    builds the same objects) that walks through all of them over a run."""
    return zlib.crc32(','.join(events).encode())


@functools.lru_cache(maxsize=None)
def split_ev(ev):
    """event -> (return_timestamps, message token, explicit variant or None): `t<token>#<k>`."""
    ret_ts = ev.startswith('t')
    tok = ev[1:] if ret_ts else ev
    k = None
    if '#' in tok:
        tok, k = tok.split('#')
        k = int(k)
    return ret_ts, tok, k


def bare(ev):
    return split_ev(ev)[1]


def dev(ev):
    """The event as the driver is given it (which object carries the members is not its business)."""
    return ev if '#' not in ev else ev.split('#')[0]


def check_timestamps(tok, res):
    """The tuple of return_timestamps=True: the result, "the P1 Timestamp extracted from the message if applicable, or
    None otherwise" and "the system timestamp (in ns) ... if applicable, or None otherwise". Returns a text or None."""
    if not (isinstance(res, tuple) and len(res) == 3):
        return 'return_timestamps=True did not return a 3-tuple'
    want = p1_reading(tok)
    p1 = res[1]
    if p1 is not None and not isinstance(p1, _catalogue()['Timestamp']):
        return 'return_timestamps=True: the P1 time is %r' % (p1,)
    got = None if p1 is None or math.isnan(float(p1)) else float(p1) * 4
    if got != want:
        return 'return_timestamps=True: P1 time %s returned for a %s, whose P1 time is %s (quarter seconds)' % (got, describe(tok), want)
    sy = res[2]
    wsys = doc_sys_ns(tok)
    gsys = None if sy is None or (isinstance(sy, float) and math.isnan(sy)) else float(sy)
    if gsys != wsys:
        return 'return_timestamps=True: system time %r ns returned for a %s, whose system time is %r' % (sy, describe(tok), wsys)
    return None


_follow = [None]


def run_real(r, events, lenient=False):
    """Apply events to the real object. Returns (string of 0/1/r, error or None).  One sequence in REUSE_SHARE is run
    on one object per class changed in place (see the module text); when what the range is follows the caller's later
    changes to his message object, that is an error (with lenient=True it is left in _follow[0] for the caller, who
    judges the verdicts first)."""
    out = []
    base = variant_base(events)
    reuse = reuse_mode(base)
    if reuse:
        rng, pool = random.Random(base), {}
    _follow[0] = None
    for i, ev in enumerate(events):
        if ev == 'R':
            r.restart()
            out.append('r')
            continue
        ret_ts, tok, k = split_ev(ev)
        if reuse:
            m = held_message(pool, tok, base if k is None else k, rng)
        else:
            m = message_for(tok, base + i if k is None else k)
        try:
            res = r.is_in_range(m, return_timestamps=True) if ret_ts else r.is_in_range(m)
        except Exception as e:  # noqa
            return ''.join(out), '%s: %s' % (type(e).__name__, e)
        if ret_ts:
            bad = check_timestamps(tok, res)
            if bad:
                return ''.join(out), bad
            res = res[0]
        if not isinstance(res, bool):
            return ''.join(out), 'is_in_range returned %r' % (res,)
        out.append('1' if res else '0')
        if reuse and hasattr(m, '__dict__'):
            if members_of(m) != parse_tok(tok):
                return ''.join(out), 'modifies-message: is_in_range changed the %s it was shown (message %d): members %r, now %r' % (
                    type(m).__name__, i, parse_tok(tok), members_of(m))
            t0 = r.p1_t0
            t0v = t0.seconds
            scribble_message(m, rng)
            if _follow[0] is None and (r.p1_t0 is not t0 or (t0.seconds != t0v and (t0.seconds == t0.seconds or t0v == t0v))):
                _follow[0] = ('caller-object: after is_in_range() on message %d (a %s; verdicts so far %s) the caller changed the times of '
                              'his message object in place: the p1_t0 of the range changed from %s to %s (quarter seconds), now %s' % (
                                  i, type(m).__name__, ''.join(out), qs(t0v), qs(r.p1_t0.seconds), state_str(r)))
    if _follow[0] is not None and not lenient:
        return ''.join(out), _follow[0]
    return ''.join(out), None


def err_sig(err):
    if err.startswith('return_timestamps=True: '):
        return 'C13/is_in_range/returned-timestamps'
    if err.startswith('modifies-message: '):
        return 'C13/is_in_range/modifies-message'
    if err.startswith('caller-object: '):
        return 'C13/is_in_range/follows-caller-object'
    return 'C13/is_in_range/raised'


REUSE_TEXT = ('the messages are ONE object per payload class whose times the caller changes in place between the calls (p1_time += dt / '
              'p1_time.seconds = x / the attribute replaced; for measurements the details fields) and again after every call')


def objects_text(events):
    """The real objects a sequence was run on, for the report."""
    base = variant_base(events)
    if reuse_mode(base):
        return REUSE_TEXT
    return '; '.join('%s = %s' % (bare(ev), describe(bare(ev), base + i if split_ev(ev)[2] is None else split_ev(ev)[2]))
                     for i, ev in enumerate(events) if ev != 'R' and bare(ev)[0] in 'mp')


# ---- the property, restated for the harness (independent of the Lean model) ----------------------------------

@functools.lru_cache(maxsize=None)
def expected_interval(ctor):
    """(start token or N, end token or N, absolute) the constructor arguments describe - from the requested values,
    whatever their spelling."""
    s, e, a, _, _ = fields(ctor)
    (ssp, sv), (esp, ev) = split_bound(s), split_bound(e)
    a = canon_abs(a)
    absolute = (a == '1') if a != 'N' else (ssp == 'T' or esp == 'T')
    sv = 'N' if sv in ('N', 'X') else str(sv)
    ev = 'N' if ev in ('N', 'X') else str(ev)
    if sv == '0' and absolute:       # documented: an absolute start of 0 is the beginning of time
        sv = 'N'
    if ev == 'inf':
        ev = 'N'
    return sv, ev, absolute


def p1_of(tok):
    """The P1 time (quarter seconds) the specification sees in the message, None for a message without."""
    tok = bare(tok)
    if tok in ('b', 'u', 's', 'n'):
        return None
    if tok[0] in 'mp':
        return p1_reading(tok)
    return int(tok)


def segments(events):
    segs = [[]]
    for ev in events:
        if ev == 'R':
            segs.append([])
        else:
            segs[-1].append(spec_tok(bare(ev)))
    return segs


def spec_lines(ctor, events):
    """One trangespec request per segment between restarts; the origin persists across restart()."""
    s, e, absolute = expected_interval(ctor)
    origin = canon_t0(fields(ctor)[3])
    lines = []
    for seg in segments(events):
        if origin == 'N':
            for tok in seg:
                if p1_of(tok) is not None:
                    origin = str(p1_of(tok))
                    break
        lines.append('trangespec %s,%s,%d,%s %s' % (s, e, 1 if absolute else 0, origin, ','.join(seg) or '='))
    return lines


def classify(ctor, events, got, want):
    """Signature of the first differing verdict."""
    s, e, absolute = expected_interval(ctor)
    k = next((i for i, (x, y) in enumerate(zip(got, want)) if x != y), min(len(got), len(want)))
    ev = events[k] if k < len(events) else '?'
    timed = p1_of(ev) is not None if ev not in ('R', '?') else False
    seg_start = max([i for i in range(k) if events[i] == 'R'] + [-1]) + 1
    before = [p1_of(x) for x in events[seg_start:k] if x != 'R']
    feat = []
    feat.append('open-start' if s == 'N' else 'closed-start')
    if e == 'N':
        feat.append('open-end')
    if not timed:
        feat.append('no-p1-seen-yet' if all(b is None for b in before) else 'after-p1')
    if seg_start > 0:
        feat.append('after-restart')
    what = '%s-%s' % ('timed' if timed else 'untimed', 'accepted' if k < len(got) and got[k] == '1' else 'rejected')
    return 'C13/is_in_range/%s/%s/%s' % (what, 'abs' if absolute else 'rel', '-'.join(feat)), k


# ---- generators ------------------------------------------------------------------------------------------

def monotone_seqs(maxlen, grid):
    """All sequences up to maxlen over {U} + grid with non-decreasing P1 times (repeats allowed)."""
    res = [[]]
    frontier = [([], 0)]
    for _ in range(maxlen):
        new = []
        for seq, lo in frontier:
            new.append((seq + ['U'], lo))
            for i in range(lo, len(grid)):
                new.append((seq + [str(grid[i])], i))
        res += [s for s, _ in new]
        frontier = new
    return res


# measurement times that are NOT P1 times (system / sender / GPS clock, quarter seconds): before, among and far beyond
# the P1 times and bounds of the grids (20000 = 5000 s)
FOREIGN_TIMES = [None, 1, 5, 9, 20, 20000]
SYS_NS = [0, 3000000000, 5000000000000]
P_FIELDS = 0.45


def untimed_token(rng):
    """A message without P1 time, by members: a sensor measurement with no details.p1_time whose measurement time is
    in no / system / sender / GPS time, or a P1-timed one whose times are invalid; a payload with a system time only,
    with an invalid P1 time, with none."""
    k = rng.random()
    if k < 0.6:
        return 'm%d.%s.N' % (rng.choice([0, 2, 2, 3, 4]), 'N' if (mt := rng.choice(FOREIGN_TIMES)) is None else mt)
    if k < 0.7:
        return 'm1.N.N'
    if k < 0.8:
        return 'pX.A'
    if k < 0.95:
        return 'pA.%d' % rng.choice(SYS_NS)
    return 'pA.A'


def timed_token(rng, t):
    """A message whose P1 time is t, by members."""
    k = rng.random()
    if k < 0.5:      # details.p1_time filled in, measurement time in another clock
        return 'm%d.%s.%s' % (rng.choice([0, 2, 3, 4]), 'N' if (mt := rng.choice(FOREIGN_TIMES)) is None else mt, t)
    if k < 0.7:      # the measurement time is the P1 time
        return 'm1.%s.N' % t
    if k < 0.8:
        return 'm1.%s.%s' % (t, t)
    return 'p%s.A' % t


def concretise(rng, seq, p_ts=0.1, p_fields=P_FIELDS):
    out = []
    for tok in seq:
        if tok == 'U':
            tok = untimed_token(rng) if rng.random() < p_fields else rng.choice('busn')
        elif rng.random() < p_fields:
            tok = timed_token(rng, tok)
        if rng.random() < p_ts:
            tok = 't' + tok
        out.append(tok)
    return out


def ctor_grid(ctx, starts, ends, t0s):
    res = []
    for s in starts:
        for e in ends:
            ts = s.startswith('T') or e.startswith('T')
            for a in (['N', '0', '1'] if ts else ['0', '1']):
                for z in t0s:
                    res.append('%s,%s,%s,%s' % (s, e, a, z))
    # absolute=None without Timestamp objects: relative
    res += ['N,N,N,N', '4,8,N,N', 'N,8,N,4']
    return res


class Batch:
    """Collects driver requests; answers are handed to the judges afterwards."""

    def __init__(self):
        self.lines = []
        self.index = {}
        self.todo = []

    def ask(self, line):
        i = self.index.get(line)
        if i is None:
            i = len(self.lines)
            self.index[line] = i
            self.lines.append(line)
        return i

    def flush(self, ctx):
        outs = ctx.driver(self.lines)
        for judge, idx, data in self.todo:
            judge(ctx, [outs[i] for i in idx], data)
        self.lines, self.index, self.todo = [], {}, []


def seq_case(ctx, batch, ctor, events):
    try:
        r = make_range(ctor)
    except Exception as e:  # noqa
        ctx.violation('C13/constructor-raised', 'TimeRange(%s) raised %s' % (ctor, e), {'kind': 'seq', 'ctor': ctor, 'events': events})
        return
    bits, err = run_real(r, events, lenient=True)
    follow = _follow[0]
    data = {'kind': 'seq', 'ctor': ctor, 'events': events}
    if err is not None:
        ctx.violation(err_sig(err), 'TimeRange(%s) on %s: %s' % (ctor, events, err), data)
        return
    if reuse_mode(variant_base(events)):
        ctx.count('sequences_on_one_object_per_class_changed_in_place')
    st = state_str(r)
    idx = [batch.ask('trange %s %s' % (dctor(ctor), ','.join(dev(e) for e in events) or '='))]
    idx += [batch.ask(l) for l in spec_lines(ctor, events)]
    batch.todo.append((judge_seq, idx, (data, bits, st, follow)))


def judge_seq(ctx, outs, payload):
    data, bits, st, follow = payload
    ctor, events = data['ctor'], data['events']
    model = outs[0]
    if model != bits + '|' + st:
        ctx.disagree('is_in_range: TimeRange(%s) on %s: impl=%s|%s model=%s' % (ctor, ','.join(events), bits, st, model), data)
    ctx.cov['traces_validated_against_impl'] += 1
    want = 'r'.join(outs[1:])
    spec_ok = all(set(o) <= set('01') for o in outs[1:])
    if not spec_ok:
        raise fv.InfraError('trangespec answered %r' % (outs[1:],))
    nontrivial = len(events) >= 2 and ('0' in bits and '1' in bits)
    ctx.case('%s %s' % (ctor, ','.join(events)), nontrivial=nontrivial)
    if nontrivial and len(events) >= 5 and ctx.cov['evaluations'] % 9973 == 0:
        ctx.sample({'TimeRange(start,end,absolute,p1_t0) [quarter seconds]': ctor, 'events': ','.join(events), 'is_in_range': bits,
                    'final_state': st})
    if bits != want:
        sig, k = classify(ctor, events, bits, want)
        objs = objects_text(events)
        ctx.violation(sig, 'TimeRange(%s) on [%s] gives %s, the interval semantics give %s (first difference at message %d; '
                      'times in quarter seconds)%s' % (ctor, ','.join(events), bits, want, k, '; with ' + objs if objs else ''), data)
    elif follow is not None:
        ctx.violation(err_sig(follow), 'TimeRange(%s) on [%s]: %s' % (ctor, ','.join(events), follow), data)


# ---- intersect / make_absolute -----------------------------------------------------------------------------

def first_p1(seq):
    for tok in seq:
        if p1_of(tok) is not None:
            return p1_of(tok)
    return None


@functools.lru_cache(maxsize=None)
def t0_of(ctor):
    z = canon_t0(fields(ctor)[3])
    return None if z == 'N' else int(z)


def compatible(ca, cb, seq):
    """Mirror of `Compatible` in lean/FeVerif/Props/C13.lean."""
    aa, ab = expected_interval(ca)[2], expected_interval(cb)[2]
    za, zb, f = t0_of(ca), t0_of(cb), first_p1(seq)
    if aa and ab:
        return True
    if not aa and not ab:
        return (za if za is not None else f) == (zb if zb is not None else f)
    if aa and not ab:
        return zb is not None or za == f
    return za is not None or zb == f


def inter_case(ctx, batch, ca, cb, in_place, seqs):
    data = {'kind': 'intersect', 'a': ca, 'b': cb, 'in_place': in_place}
    a, b = make_range(ca), make_range(cb)
    a_before, b_before = state_str(a), state_str(b)
    za, zb = t0_of(ca), t0_of(cb)
    aa, ab = expected_interval(ca)[2], expected_interval(cb)[2]
    must_raise = (aa != ab) and za is None and zb is None
    try:
        res = a.intersect(b, in_place=in_place)
        got = state_str(res)
    except ValueError:
        got = 'err:ValueError'
        res = None
    except Exception as e:  # noqa
        ctx.violation('C13/intersect/raised-' + type(e).__name__, 'TimeRange(%s).intersect(TimeRange(%s)) raised %s' % (ca, cb, e), data)
        return
    ctx.count('intersect_' + ('abs' if aa else 'rel') + 'x' + ('abs' if ab else 'rel'))
    if (res is None) != must_raise:
        ctx.violation('C13/intersect/error-case', 'TimeRange(%s).intersect(TimeRange(%s)): %s, expected %s' % (
            ca, cb, 'raised ValueError' if res is None else 'no error',
            'ValueError (absolute with relative and no t0 known)' if must_raise else 'a range'), data)
        return
    if state_str(b) != b_before:
        ctx.violation('C13/intersect/modifies-other', 'other changed from %s to %s' % (b_before, state_str(b)), data)
    if res is not None:
        if in_place and res is not a:
            ctx.violation('C13/intersect/in-place-returns-copy', 'in_place=True did not return self', data)
        if not in_place and (res is a or state_str(a) != a_before):
            ctx.violation('C13/intersect/copy-modifies-self', 'in_place=False changed self from %s to %s' % (a_before, state_str(a)), data)
        caller_moves_on(ctx, 'C13/intersect', 'TimeRange(%s).intersect(TimeRange(%s), in_place=%s)' % (ca, cb, in_place), data, res,
                        [b] + ([a] if res is not a else []))
    batch.todo.append((judge_state, [batch.ask('trinter %s %s' % (dctor(ca), dctor(cb)))], ('intersect', data, got)))
    ctx.case('inter %s %s' % (ca, cb), nontrivial=res is not None and res._range_specified)
    if res is None:
        return
    # the property: accepted set of the result = intersection of the accepted sets
    for seq in seqs:
        if not compatible(ca, cb, seq):
            ctx.count('intersect_seq_skipped_incompatible_origins')
            continue
        ra, rb, rr = make_range(ca), make_range(cb), copy.deepcopy(res)
        rr.restart()
        ba, e1 = run_real(ra, seq)
        bb, e2 = run_real(rb, seq)
        br, e3 = run_real(rr, seq)
        if e1 or e2 or e3:
            ctx.violation(err_sig(e1 or e2 or e3), str(e1 or e2 or e3), dict(data, seq=seq))
            return
        want = ''.join('1' if x == '1' and y == '1' else '0' for x, y in zip(ba, bb))
        ctx.count('intersect_seq_checked')
        if br != want:
            ctx.violation('C13/intersect/accepted-set-differs/%sx%s' % ('abs' if aa else 'rel', 'abs' if ab else 'rel'),
                          'TimeRange(%s).intersect(TimeRange(%s)) = %s on [%s] gives %s; the two ranges give %s and %s' % (
                              ca, cb, got, ','.join(seq), br, ba, bb), dict(data, seq=seq))
            return


def judge_state(ctx, outs, payload):
    what, data, got = payload
    ctx.cov['traces_validated_against_impl'] += 1
    if outs[0] != got:
        ctx.disagree('%s: %s impl=%s model=%s' % (what, json.dumps(data), got, outs[0]), data)


def mkabs_case(ctx, batch, ctor, p, in_place, seqs):
    data = {'kind': 'mkabs', 'ctor': ctor, 'p': p, 'in_place': in_place}
    r = make_range(ctor)
    before = state_str(r)
    absolute = expected_interval(ctor)[2]
    z = t0_of(ctor)
    if z is None and p not in ('N', 'TX'):
        z = int(p)
    pobj = t0_arg(p)
    try:
        res = r.make_absolute(p1_t0=pobj, in_place=in_place)
        got = state_str(res)
    except ValueError:
        res, got = None, 'err:ValueError'
    except Exception as e:  # noqa
        ctx.violation('C13/make_absolute/raised-' + type(e).__name__, 'TimeRange(%s).make_absolute(%s) raised %s' % (ctor, p, e), data)
        return
    must_raise = (not absolute) and z is None
    if (res is None) != must_raise:
        ctx.violation('C13/make_absolute/error-case', 'TimeRange(%s).make_absolute(%s): %s' % (ctor, p, got), data)
        return
    batch.todo.append((judge_state, [batch.ask('trmkabs %s %s' % (dctor(ctor), 'N' if p == 'TX' else p))], ('make_absolute', data, got)))
    ctx.case('mkabs %s %s' % (ctor, p), nontrivial=not absolute)
    if res is None:
        if state_str(r) != before:
            ctx.violation('C13/make_absolute/raise-modifies-self', '%s -> %s' % (before, state_str(r)), data)
        return
    if not in_place and state_str(r) != before:
        ctx.violation('C13/make_absolute/copy-modifies-self', '%s -> %s' % (before, state_str(r)), data)
    if not res.absolute:
        ctx.violation('C13/make_absolute/result-not-absolute', 'TimeRange(%s).make_absolute(%s) = %s is still relative' % (ctor, p, got), data)
        return
    caller_moves_on(ctx, 'C13/make_absolute', 'TimeRange(%s).make_absolute(%s, in_place=%s)' % (ctor, p, in_place), data, res,
                    [pobj] + ([r] if res is not r else []))
    for seq in seqs:
        f = first_p1(seq)
        if not absolute and (t0_of(ctor) if t0_of(ctor) is not None else f) != z:
            continue   # the range's own origin on this sequence is not the one used for the conversion
        r0, r1 = make_range(ctor), copy.deepcopy(res)
        r1.restart()
        b0, e0 = run_real(r0, seq)
        b1, e1 = run_real(r1, seq)
        if e0 or e1:
            ctx.violation(err_sig(e0 or e1), str(e0 or e1), dict(data, seq=seq))
            return
        if b0 != b1:
            ctx.violation('C13/make_absolute/accepted-set-differs', 'TimeRange(%s) gives %s on [%s]; after make_absolute(%s) = %s it gives %s' % (
                ctor, b0, ','.join(seq), p, got, b1), dict(data, seq=seq))
            return


# ---- operation sequences over one or two range objects ------------------------------------------------------
#
# A script: make A, show it the messages `pa`; (make B, show it `pb`;) apply one operation - A.intersect(B),
# B.intersect(A), A.make_absolute(p), copy.copy(A), copy.deepcopy(A) - optionally restart() the result, then show
# the result the messages `s`.  What the property predicts for the result comes from the requested numbers only:
#   * the origin a range knows is its supplied t0, else the first P1 time it has been shown;
#   * intersect() can only fail when one range is absolute, the other relative and neither knows an origin;
#     make_absolute() only on a relative range that knows none and is given none;
#   * a result that starts a new pass (restart(), or nothing accepted and no P1 time at or beyond the end so far)
#     gives on `s` the conjunction of the two intervals' verdicts, each measured from the origin its range knows, else
#     from the first P1 time of `s` (only judged when those frames agree, as in `Compatible`);
#   * an operation that does not change the accepted set (make_absolute, copies, intersect with a range without
#     bounds) applied in the middle of a pass leaves the pass undisturbed: the verdicts on `s` are the tail of the
#     interval's verdicts on `pa + s`.

def plain(events):
    return [spec_tok(bare(ev)) for ev in events if ev != 'R']


def is_monotone(events):
    ts = [p1_of(e) for e in events if e != 'R' and p1_of(e) is not None]
    return all(x <= y for x, y in zip(ts, ts[1:]))


def known_origin(ctor, prefix):
    z = t0_of(ctor)
    return z if z is not None else first_p1(prefix)


def end_seen(iv, origin, prefix):
    """Has a P1 time at or beyond the end of the interval been shown?"""
    if iv[1] == 'N':
        return False
    for ev in plain(prefix):
        t = p1_of(ev)
        if t is None:
            continue
        if not iv[2]:
            if origin is None:
                continue
            t -= origin
        if t >= int(iv[1]):
            return True
    return False


def ask_spec(batch, iv, origin, events):
    return batch.ask('trangespec %s,%s,%d,%s %s' % (iv[0], iv[1], 1 if iv[2] else 0, 'N' if origin is None else origin,
                                                     ','.join(plain(events)) or '='))


def frames_agree(abs_r, abs_o, o_r, o_o, f):
    """`Compatible` with the origins the two ranges know (receiver, other) on a sequence whose first P1 time is f."""
    if abs_r and abs_o:
        return True
    if not abs_r and not abs_o:
        return (o_r if o_r is not None else f) == (o_o if o_o is not None else f)
    if abs_r:
        return o_o is not None or o_r == f
    return o_r is not None or o_o == f


def script_text(d):
    t = 'A = TimeRange(%s)' % d['a']
    if d['pa']:
        t += ' shown [%s]' % ','.join(d['pa'])
    if d['op'] in ('ab', 'ba'):
        t += '; B = TimeRange(%s)' % d['b']
        if d['pb']:
            t += ' shown [%s]' % ','.join(d['pb'])
        t += '; %s.intersect(%s, in_place=%s)' % ((('A', 'B') if d['op'] == 'ab' else ('B', 'A')) + (d['in_place'],))
    elif d['op'] == 'mk':
        t += '; A.make_absolute(%s, in_place=%s)' % (d['p'], d['in_place'])
    else:
        t += '; copy.%s(A)' % d['op']
    if d['restart']:
        t += '; restart()'
    return t


def script_case(ctx, batch, d):
    d = dict(d, kind='script')
    ca, pa, op, s = d['a'], d['pa'], d['op'], d['s']
    text = script_text(d)
    try:
        A = make_range(ca)
        B = make_range(d['b']) if op in ('ab', 'ba') else None
    except Exception as e:  # noqa
        ctx.violation('C13/constructor-raised', '%s raised %s' % (text, e), d)
        return
    bits_a, err = run_real(A, pa)
    if err is None and B is not None:
        _, err = run_real(B, d['pb'])
    if err is not None:
        ctx.violation(err_sig(err), '%s: %s' % (text, err), d)
        return
    ia, oa = expected_interval(ca), known_origin(ca, pa)
    ctx.count('script_' + op)
    # the same script for the model
    mop = {'ab': 'ab', 'ba': 'ba', 'copy': 'id', 'deepcopy': 'id'}.get(op) or 'mk' + ('N' if d['p'] in ('N', 'TX') else d['p'])
    mline = 'trscript %s %s %s %s %s %s' % (dctor(ca), ','.join(pa) or '=', dctor(d['b']) if B is not None else '-',
                                            (','.join(d['pb']) or '=') if B is not None else '=', mop,
                                            ','.join((['R'] if d['restart'] else []) + s) or '=')
    if op in ('ab', 'ba'):
        ib, ob = expected_interval(d['b']), known_origin(d['b'], d['pb'])
        if op == 'ab':
            recv, other, ir, io, o_r, o_o, pr = A, B, ia, ib, oa, ob, pa
        else:
            recv, other, ir, io, o_r, o_o, pr = B, A, ib, ia, ob, oa, d['pb']
        kinds = '%sx%s' % ('abs' if ir[2] else 'rel', 'abs' if io[2] else 'rel')
        recv_before, other_before = state_str(recv), state_str(other)
        must_raise = ir[2] != io[2] and o_r is None and o_o is None
        try:
            R = recv.intersect(other, in_place=d['in_place'])
        except ValueError:
            R = None
        except Exception as e:  # noqa
            ctx.violation('C13/intersect/raised-' + type(e).__name__, '%s raised %s' % (text, e), d)
            return
        if (R is None) != must_raise:
            ctx.violation('C13/script/intersect/error-case/' + kinds,
                          '%s: %s, expected %s (origins known: receiver %s, other %s; quarter seconds)' % (
                              text, 'raised ValueError' if R is None else 'no error',
                              'ValueError (absolute with relative and no origin known)' if must_raise else 'a range', o_r, o_o), d)
            return
        if state_str(other) != other_before:
            ctx.violation('C13/intersect/modifies-other', '%s: other changed from %s to %s' % (text, other_before, state_str(other)), d)
        if R is not None and d['in_place'] and R is not recv:
            ctx.violation('C13/intersect/in-place-returns-copy', text, d)
        if R is not None and not d['in_place'] and (R is recv or state_str(recv) != recv_before):
            ctx.violation('C13/intersect/copy-modifies-self', '%s: self changed from %s to %s' % (text, recv_before, state_str(recv)), d)
        ctx.case('script ' + json.dumps(d, sort_keys=True), nontrivial=R is not None)
        if R is None:
            batch.todo.append((judge_state, [batch.ask(mline)], ('script', d, 'err:ValueError')))
            return
        caller_moves_on(ctx, 'C13/script/intersect', text, d, R, [other] + ([recv] if R is not recv else []))
        sig = 'C13/script/intersect/accepted-set-differs/' + kinds
        identity = io[0] == 'N' and io[1] == 'N'
    else:
        ir, o_r, pr, io, o_o, recv = ia, oa, pa, None, None, A
        recv_before = state_str(A)
        if op == 'mk':
            pv = None if d['p'] in ('N', 'TX') else int(d['p'])
            must_raise = (not ia[2]) and oa is None and pv is None
            pobj = t0_arg(d['p'])
            try:
                R = A.make_absolute(p1_t0=pobj, in_place=d['in_place'])
            except ValueError:
                R = None
            except Exception as e:  # noqa
                ctx.violation('C13/make_absolute/raised-' + type(e).__name__, '%s raised %s' % (text, e), d)
                return
            if (R is None) != must_raise:
                ctx.violation('C13/script/make_absolute/error-case', '%s: %s (origin known: %s)' % (
                    text, 'raised ValueError' if R is None else 'no error', oa), d)
                return
            ctx.case('script ' + json.dumps(d, sort_keys=True), nontrivial=not ia[2])
            if R is None:
                batch.todo.append((judge_state, [batch.ask(mline)], ('script', d, 'err:ValueError')))
                if state_str(A) != recv_before:
                    ctx.violation('C13/make_absolute/raise-modifies-self', '%s: %s -> %s' % (text, recv_before, state_str(A)), d)
                return
            if d['in_place'] and R is not A:
                ctx.violation('C13/make_absolute/in-place-returns-copy', text, d)
            if not d['in_place'] and (R is A or state_str(A) != recv_before):
                ctx.violation('C13/make_absolute/copy-modifies-self', '%s: %s -> %s' % (text, recv_before, state_str(A)), d)
            if not R.absolute:
                ctx.violation('C13/make_absolute/result-not-absolute', '%s = %s is still relative' % (text, state_str(R)), d)
                return
            if o_r is None:
                o_r = pv
            caller_moves_on(ctx, 'C13/script/make_absolute', text, d, R, [pobj] + ([A] if R is not A else []))
            sig = 'C13/script/make_absolute/accepted-set-differs'
        else:
            R = copy.copy(A) if op == 'copy' else copy.deepcopy(A)
            ctx.case('script ' + json.dumps(d, sort_keys=True), nontrivial=True)
            sig = 'C13/script/%s/accepted-set-differs' % op
        identity = True
    got_state = state_str(R)
    if d['restart']:
        R.restart()
    bits, err = run_real(R, s)
    if err is not None:
        ctx.violation(err_sig(err), '%s, then [%s]: %s' % (text, ','.join(s), err), d)
        return
    batch.todo.append((judge_state, [batch.ask(mline)], ('script', d, ('r' if d['restart'] else '') + bits + '|' + state_str(R))))
    if op in ('copy', 'deepcopy') and not d['restart']:
        bits2, err = run_real(A, s)    # the original, afterwards: the copy's pass must not have touched it
        if err is not None or bits2 != bits:
            ctx.violation('C13/script/%s/shares-state' % op, '%s: the copy gives %s on [%s], then the original gives %s' % (
                text, bits, ','.join(s), err or bits2), d)
            return
    # what the property predicts
    idx = [ask_spec(batch, ir, o_r, pr)]                                  # [0] the receiver's own pass so far
    cont = pr + s
    f_new, f_cont = first_p1(s), first_p1(cont)
    if io is None:
        idx.append(ask_spec(batch, ir, o_r if o_r is not None else f_new, s))      # [1] a new pass
        idx.append(ask_spec(batch, ir, o_r if o_r is not None else f_cont, cont))  # [2] the pass continued
        ok_new = ok_cont = True
    else:
        ok_new = frames_agree(ir[2], io[2], o_r, o_o, f_new)
        ok_cont = frames_agree(ir[2], io[2], o_r, o_o, f_cont)
        idx.append(ask_spec(batch, ir, o_r if o_r is not None else f_new, s))
        idx.append(ask_spec(batch, ir, o_r if o_r is not None else f_cont, cont))
        idx.append(ask_spec(batch, io, o_o if o_o is not None else f_new, s))      # [3] the other interval, new pass
    batch.todo.append((judge_script, idx, (d, text, sig, bits, got_state, ok_new, ok_cont, identity,
                                           end_seen(ir, o_r, pr), is_monotone(cont), len(pr))))


def judge_script(ctx, outs, payload):
    d, text, sig, bits, got_state, ok_new, ok_cont, identity, ended, mono, npre = payload
    if not all(set(o) <= set('01') for o in outs):
        raise fv.InfraError('trangespec answered %r' % (outs,))
    fresh = d['restart'] or npre == 0 or ('1' not in outs[0] and not ended)
    if fresh:
        if not ok_new:
            ctx.count('script_skipped_incompatible_origins')
            return
        want = outs[1] if len(outs) < 4 else ''.join('1' if x == '1' and y == '1' else '0' for x, y in zip(outs[1], outs[3]))
        how = 'a new pass'
    elif identity and mono:
        if not ok_cont:
            ctx.count('script_skipped_incompatible_origins')
            return
        want = outs[2][npre:]
        how = 'the pass continued (the operation does not change the accepted set)'
    else:
        ctx.count('script_not_judged_mid_pass_narrowing')
        return
    ctx.count('script_judged_' + ('new_pass' if fresh else 'continued'))
    if bits != want:
        ctx.violation(sig + ('/after-history' if (d['pa'] or d.get('pb')) else '') + ('' if fresh else '/continued'),
                      '%s = %s, then on [%s] gives %s; the interval semantics give %s (%s; quarter seconds)' % (
                          text, got_state, ','.join(d['s']), bits, want, how), d)


# ---- the time accessors on real messages ---------------------------------------------------------------------

def member_tokens(deep):
    """Every combination of time members: for a sensor measurement every measurement_time_source x measurement_time
    unset / set (several values) x details.p1_time unset / set; for other payloads p1_time absent / invalid / set,
    system_time_ns absent / set."""
    p1s = [0, 8, 12] if not deep else [0, 4, 8, 12, 40]
    mts = [1, 8, 20000] if not deep else [0, 1, 8, 9, 20, 20000]
    res = ['b', 'u', 's', 'n']
    for src in range(5):
        res.append('m%d.N.N' % src)
        for mt in mts:
            res.append('m%d.%d.N' % (src, mt))
            for p1 in p1s:
                res.append('m%d.%d.%d' % (src, mt, p1))
        for p1 in p1s:
            res.append('m%d.N.%d' % (src, p1))
    for p1 in p1s:
        res += [str(p1), 'p%d.A' % p1, 'p%d.3000000000' % p1]
    res += ['pX.A', 'pA.A'] + ['pA.%d' % v for v in SYS_NS]
    return res


def kind_of(tok):
    d = parse_tok(tok)
    if d[0] == 'meas':
        return 'measurement-%s-time-%s-p1-%s' % (SRC_NAMES[d[1]].lower().replace('_', '-'), 'unset' if d[2] is None else 'set',
                                               'unset' if d[3] is None else 'set')
    if d[0] == 'raw':
        return 'raw'
    return 'payload-p1-%s-system-time-%s' % ({'A': 'absent', None: 'invalid'}.get(d[1], 'set'), 'absent' if d[2] == 'A' else 'set')


def accessor_case(ctx, batch, tok, variant):
    """get_p1_time() / get_system_time_ns() / get_system_time_sec() of one real object against the model of the
    accessors and against the documentation of the members."""
    data = {'kind': 'accessor', 'tok': tok, 'variant': variant}
    m = message_for(tok, variant)
    text = describe(tok, variant)
    if parse_tok(tok)[0] == 'raw':
        return
    try:
        got = real_p1(m)
        raw_p1 = m.get_p1_time()
        sy = m.get_system_time_ns()
        sec = m.get_system_time_sec()
    except Exception as e:  # noqa
        ctx.violation('C13/message-time/raised-' + type(e).__name__, '%s: the time accessors raised %s' % (text, e), data)
        return
    ctx.case('accessor %s %d' % (tok, variant % n_variants(tok)), nontrivial=True)
    ctx.count('accessor_' + parse_tok(tok)[0])
    gsys = None if sy is None or (isinstance(sy, float) and math.isnan(sy)) else float(sy)
    # the model's answer
    mp1 = 'none' if raw_p1 is None else 'invalid' if got is None else str(got)
    if sy is None:
        msys = 'none'
    elif isinstance(sy, float) and math.isnan(sy):
        msys = 'nan'
    elif parse_tok(tok)[0] == 'meas':
        q = float(sy) / 1e9 * 4
        msys = 't%d' % q if q == int(q) and int(q) * Q * 1e9 == float(sy) else 'inexact(%r)' % sy
    else:
        msys = 'ns%d' % sy if sy == int(sy) else 'inexact(%r)' % sy
    batch.todo.append((judge_accessor, [batch.ask('trmsg ' + tok)], (data, text, mp1, msys)))
    # the documentation
    cand = candidates(tok)
    if cand is None:
        want = doc_p1(tok)
        if got != want:
            what = 'p1-time-for-message-without' if want is None else 'no-p1-time-for-p1-timed-message' if got is None else 'wrong-p1-time'
            ctx.violation('C13/message-time/get_p1_time/%s/%s' % (what, kind_of(tok)),
                          '%s: get_p1_time() gives %s, the P1 time of the message is %s (quarter seconds; None = no P1 time). '
                          'is_in_range() treats the message accordingly' % (text, got, want), data)
    elif got not in cand:
        ctx.violation('C13/message-time/get_p1_time/not-a-p1-member/' + kind_of(tok),
                      '%s: get_p1_time() gives %s, which is neither of the P1 members %s' % (text, got, list(cand)), data)
    wsys = doc_sys_ns(tok)
    if gsys != wsys:
        ctx.violation('C13/message-time/get_system_time_ns/%s/%s' % ('system-time-for-message-without' if wsys is None else
                                                                       'no-system-time' if gsys is None else 'wrong-system-time', kind_of(tok)),
                      '%s: get_system_time_ns() gives %r, the system time of the message is %r ns' % (text, sy, wsys), data)
    gsec = None if sec is None or (isinstance(sec, float) and math.isnan(sec)) else float(sec)
    if (gsec is None) != (wsys is None) or (gsec is not None and abs(gsec - wsys * 1e-9) > 1e-6 * max(1.0, abs(gsec))):
        ctx.violation('C13/message-time/get_system_time_sec/' + kind_of(tok),
                      '%s: get_system_time_sec() gives %r, the system time of the message is %r ns' % (text, sec, wsys), data)


def judge_accessor(ctx, outs, payload):
    data, text, mp1, msys = payload
    ctx.cov['traces_validated_against_impl'] += 1
    f = outs[0].split('|')
    if len(f) != 5:
        raise fv.InfraError('trmsg answered %r' % outs[0])
    if f[0] != mp1 or f[1] != msys:
        ctx.disagree('time accessors of %s: impl get_p1_time=%s get_system_time_ns=%s, model %s %s' % (text, mp1, msys, f[0], f[1]), data)
    # the harness's reading of the documentation is the Lean specification's (Obj.docP1, Obj.docSys, Obj.unambiguous)
    tok = data['tok']
    wsys = doc_sys_ns(tok)
    d = parse_tok(tok)
    mine = '%s|%s|%d' % ('N' if doc_p1(tok) is None else doc_p1(tok),
                         'none' if wsys is None else ('t%d' % d[2] if d[0] == 'meas' else 'ns%d' % d[2]), 1 if candidates(tok) is None else 0)
    if candidates(tok) is None and '|'.join(f[2:]) != mine:
        raise fv.InfraError('documented times of %s: harness %s, Lean specification %s' % (tok, mine, '|'.join(f[2:])))
    if candidates(tok) is not None and f[4] != '0':
        raise fv.InfraError('members of %s: contradictory for the harness, consistent for the Lean specification' % tok)


def member_sequences(ctx, batch, rng, deep):
    """Every kind of message (by members) x every class of the package that can carry those members, (a) through the
    accessors, (b) mixed with ordinary P1-timed messages under relative and absolute ranges: the message before the
    first P1 time, between P1 times and after them; a P1-timed one takes the place of a P1 time."""
    toks = member_tokens(deep)
    ctx.count('member_configurations', len(toks))
    for tok in toks:
        for v in range(n_variants(tok)):
            accessor_case(ctx, batch, tok, v)
    ranges = ['4,12,0,N', '0,8,0,N', 'N,8,0,N', '4,N,0,N', '4,12,0,8', '4,12,0,0',
              '12,20,1,N', 'T12,T20,N,N', 'N,16,1,N', '12,N,1,N', '12,20,1,8', 'N,N,1,N', 'N,N,0,N']
    if deep:
        ranges += ['6,8,0,N', '8,16,0,4', '0,4,0,N', '9,13,1,N', 'N,12,1,0', '16,inf,1,N']
    grids = [(8, 12, 16, 24)] if not deep else [(8, 12, 16, 24), (0, 4, 12, 12), (8, 8, 20, 28)]
    for tok in toks:
        if parse_tok(tok)[0] == 'raw':
            continue
        nv = n_variants(tok)
        own = p1_reading(tok)
        for a, b, c, d in grids:
            if own is None:
                X = tok
                shapes = [[X, str(a), str(b), str(c), str(d)], [str(a), X, str(b), str(c), X, str(d)], [str(a), str(b), str(c), X, str(d), X],
                          [X, X, str(b), X, str(d)]]
            else:
                # the message is P1-timed at `own`: put it where its time keeps the sequence monotone
                lo = [t for t in (a, b, c, d) if t < own]
                hi = [t for t in (a, b, c, d) if t >= own]
                shapes = [[str(t) for t in lo] + [tok] + [str(t) for t in hi],
                          [str(t) for t in lo] + ['u', tok, 'u'] + [str(t) for t in hi],
                          [tok] + [str(t) for t in hi] if not lo else [str(t) for t in lo] + [tok, tok]]
            for shape in shapes:
                for ctor in ranges:
                    # every class / construction of the kind (thorough), a few drawn ones (quick; all over the run)
                    for k in (range(nv) if deep else rng.sample(range(nv), min(nv, 2))):
                        ev = [e + '#%d' % k if e == tok else e for e in shape]
                        if rng.random() < 0.15:
                            i = rng.randrange(len(ev))
                            ev[i] = 't' + ev[i]
                        seq_case(ctx, batch, ctor, ev)
    batch.flush(ctx)


# ---- parse -------------------------------------------------------------------------------------------------

NUM_TOKENS = ['', '0', '1', '2', '2.5', '0.25', '1.50', '-1', '-0.5', '-0', 'inf', '-inf', '+2', '.5', '1.', '00.75']
# further spellings float() reads (exponents, surrounding blanks, digit separators, names of infinity), at the boundary values
NUM_SPELLINGS = ['0.0', '0e0', '-0.0', '+0', ' 0 ', '0_0', '1e0', '15e-1', '2.5E0', ' 2 ', '\t1.5', '1_0', '+inf', 'Inf', 'INF',
                 'infinity', '+Infinity', '-infinity', '1e400', '-1e400', '1e-400']
BAD_TOKENS = ['x', '1.5.2', '-', '--1', '1,5', '0x10', 'abs', '.']
TYPE_TOKENS = ['abs', 'rel', 'ABS', '', 'x', 'relative']


def expected_parse(s, absolute):
    """The range "[START][:END][:{rel,abs}]" describes: (start, end, absolute) tokens, or 'err'.  Numbers are
    read with float(); a negative bound counts as omitted."""
    parts = s.split(':')
    if len(parts) > 3:
        return 'err'
    if len(parts) == 3:
        if parts[2] not in ('abs', 'rel'):
            return 'err'
        absolute = parts[2] == 'abs'
    vals = []
    for p in (parts + [''])[:2]:
        if p == '':
            vals.append(None)
            continue
        try:
            v = float(p)
        except ValueError:
            return 'err'
        vals.append(None if v < 0 else v)
    absolute = bool(absolute)
    st = 'N' if vals[0] is None else qs(vals[0])
    en = 'N' if vals[1] is None or math.isinf(vals[1]) else qs(vals[1])
    if st == '0' and absolute:
        st = 'N'
    return st, en, absolute


def driver_string(s):
    """The text for the driver, whose number reader knows `[+-]digits[.digits]`, inf and -inf only (float() is external
    to the model): every part float() reads is rewritten in that form, every part it refuses as `x`; None when a
    value is not a multiple of 0.25."""
    out = []
    for i, part in enumerate(s.split(':')):
        if part == '' or i >= 2:
            out.append(part if ' ' not in part and '\t' not in part else 'x')
            continue
        try:
            v = float(part)
        except ValueError:
            out.append('x')
            continue
        if math.isnan(v):
            return None
        if math.isinf(v):
            out.append('inf' if v > 0 else '-inf')
        elif v * 4 != int(v * 4):
            return None
        else:
            out.append(('-' if math.copysign(1.0, v) < 0 else '') + '%.2f' % abs(v))
    return ':'.join(out)


def parse_case(ctx, batch, s, a, seqs):
    from fusion_engine_client.utils.time_range import TimeRange
    data = {'kind': 'parse', 'string': s, 'absolute': a}
    try:
        r = TimeRange.parse(s, absolute=abs_arg(a))
        got = state_str(r)
    except ValueError:
        r, got = None, 'err:ValueError'
    except Exception as e:  # noqa
        ctx.violation('C13/parse/raised-' + type(e).__name__, 'TimeRange.parse(%r) raised %s' % (s, e), data)
        return
    ds = driver_string(s)
    if ds is not None:
        batch.todo.append((judge_state, [batch.ask('trparse %s %s' % (ds, a))], ('parse', data, got)))
    want = expected_parse(s, abs_arg(a))
    ctx.case('parse %s %s' % (s, a), nontrivial=r is not None and r._range_specified)
    ctx.count('parse_error' if r is None else 'parse_ok')
    if (r is None) != (want == 'err'):
        ctx.violation('C13/parse/%s' % ('rejects-valid-text' if r is None else 'accepts-malformed-text'),
                      'TimeRange.parse(%r, absolute=%s) -> %s, the text describes %s' % (s, a, got, want), data)
        return
    if r is None:
        return
    st, en, absolute = want
    # accepted set of the parsed range = the described interval
    idx = []
    realbits = []
    for seq in seqs:
        rr = copy.deepcopy(r)
        bits, err = run_real(rr, seq)
        if err:
            ctx.violation(err_sig(err), err, dict(data, seq=seq))
            return
        f = first_p1(seq)
        idx.append(batch.ask('trangespec %s,%s,%d,%s %s' % (st, en, 1 if absolute else 0, 'N' if f is None else f, ','.join(plain(seq)) or '=')))
        realbits.append((seq, bits))
    batch.todo.append((judge_parse, idx, (data, got, want, realbits)))


def judge_parse(ctx, outs, payload):
    data, got, want, realbits = payload
    for o, (seq, bits) in zip(outs, realbits):
        if o != bits:
            ctx.violation('C13/parse/accepted-set-differs', 'TimeRange.parse(%r, absolute=%s) = %s gives %s on [%s]; the described interval %s gives %s' % (
                data['string'], data['absolute'], got, bits, ','.join(seq), want, o), dict(data, seq=seq))
            return


# ---- spellings ---------------------------------------------------------------------------------------------

def bound_spellings(v):
    """Every way of handing the constructor the bound value v ('N', 'inf' or quarter seconds)."""
    if v == 'N':
        return ['N', 'O', 'TX']
    if v == 'inf':
        return ['inf', 'ginf', 'hinf', 'Tinf']
    res = ['%d' % v, 'g%d' % v, 'h%d' % v, 'T%d' % v]
    if v % 4 == 0:
        res += ['i%d' % v, 'j%d' % v]
    return res


def t0_spellings(v):
    if v == 'N':
        return ['N', 'O', 'TX', 'fnan']
    res = ['%d' % v, 'f%d' % v, 'g%d' % v]
    if v % 4 == 0:
        res.append('i%d' % v)
    return res


ABS_SPELLINGS = {'N': ['N', 'O'], '0': ['0', 'b0', 'i0'], '1': ['1', 'b1', 'i1']}


def respell(rng, ctor):
    """The same requested values in randomly chosen spellings (a Timestamp bound keeps being one only by chance, so
    `absolute` is made explicit first when it was inferred)."""
    s, e, a, z, form = fields(ctor)
    a = canon_abs(a)
    if a == 'N':
        a = '1' if expected_interval(ctor)[2] else rng.choice(['N', '0'])

    def bs(tok):
        v = split_bound(tok)[1]
        return rng.choice(bound_spellings('N' if v == 'X' else v))
    s2, e2 = bs(s), bs(e)
    if a == 'N' and (s2.startswith('T') or e2.startswith('T')):
        a = '0'
    zc = canon_t0(z)
    return '%s,%s,%s,%s' % (s2, e2, rng.choice(ABS_SPELLINGS[a]), rng.choice(t0_spellings('N' if zc == 'N' else int(zc))))


def spelled_ctors(rng, deep):
    """Constructor calls that differ in how the values are written, not (only) in the values."""
    svals = ['N', 0, 4, 6, 'inf'] + ([5, 12] if deep else [])
    evals = ['N', 0, 6, 8, 'inf'] + ([4, 13] if deep else [])
    res = []
    # every spelling of the start x every spelling of the end
    for sv in svals:
        for ev in evals:
            for s in bound_spellings(sv):
                for e in bound_spellings(ev):
                    for a in ('N', '0', '1'):
                        for z in ('N', '8'):
                            res.append('%s,%s,%s,%s' % (s, e, a, z))
    # every spelling of absolute x every spelling of t0, on a few intervals
    for s, e in [('N', 'N'), ('0', '8'), ('4', 'N'), ('N', '6'), ('4', '8'), ('T0', 'T8'), ('T4', 'N'), ('N', 'T6'), ('6', 'inf'),
                 ('g0', 'Tinf'), ('TX', 'j8'), ('i4', 'h6')]:
        for a in sum(ABS_SPELLINGS.values(), []):
            for zv in ('N', 0, 2, 8):
                for z in t0_spellings(zv):
                    res.append('%s,%s,%s,%s' % (s, e, a, z))
    # the other ways of making the object
    base = [c for c in res if canon_t0(fields(c)[3]) == 'N']
    pick = rng.sample(base, 500 if deep else 220)
    for c in pick:
        s, e, a, z, _ = fields(c)
        res.append('%s,%s,%s,%s,p' % (s, e, a, rng.choice(['O', 'N', '8', 'f8', 'TX'])))
        res.append('%s,%s,%s,O,%s' % (s, e, a, rng.choice(['pt', 'pl'])))
        res.append('%s,%s,%s,O,po' % (s, e, a))
        if canon_abs(a) != 'N':
            res.append('%s,%s,%s,O,%s' % (s, e, a, rng.choice(['p3', 'p3c'])))
        if split_bound(e)[1] == 'N':
            res.append('%s,%s,%s,O,p1' % (s, e, a))
    return res


def probe_seqs(rng, grid):
    """A fixed set of short sequences that tell the intervals over the grid apart: everything up to length 2, and
    untimed messages before, between and after every two P1 times."""
    res = monotone_seqs(2, grid)
    for i, a in enumerate(grid):
        for b in grid[i:]:
            res.append(['U', str(a), 'U', str(b), 'U'])
    return [concretise(rng, x, 0.05) for x in res]


def gen_scripts(rng, seqs, deep):
    """Operation sequences (see script_case)."""
    conc = [concretise(rng, x, 0.1) for x in seqs if 1 <= len(x) <= 4]
    lows = [min([p1_of(e) for e in x if p1_of(e) is not None] + [1 << 30]) for x in conc]   # monotone: the first P1 time
    by_first = {}
    for x in conc:
        by_first.setdefault(first_p1(x), []).append(x)
    prefixes = [[]] + [x for x in conc if len(x) <= 3]
    timed_prefixes = [x for x in prefixes if first_p1(x) is not None]
    untimed_prefixes = [x for x in prefixes if x and first_p1(x) is None]
    pool = ['%s,%s,%s,%s' % (s, e, a, z) for s in ['N', '0', '4', '6'] for e in ['N', '6', '8', '12'] for a in '01' for z in ['N', '4', '8']]

    def split(prefix_ok=None):
        x = rng.choice(conc)
        k = rng.randrange(0, len(x) + 1)
        return x[:k], x[k:]

    def new_pass(first):
        """A sequence for a new pass; when an origin is known from what a range was shown, mostly one that starts there."""
        if first is not None and first in by_first and rng.random() < 0.8:
            return rng.choice(by_first[first])
        return rng.choice(conc)

    def two(ca, cb, pa, pb, op, in_place, restart):
        pr = pa if op == 'ab' else pb
        if restart or not pr:
            o = known_origin(ca, pa)
            if o is None:
                o = known_origin(cb, pb)
            s = new_pass(o)
        else:   # continue the receiver's pass
            last = max([p1_of(e) for e in pr if p1_of(e) is not None] + [-1])
            s = rng.choice([x for x, lo in zip(conc, lows) if lo >= last])
        return {'a': ca, 'pa': pa, 'b': cb, 'pb': pb, 'op': op, 'in_place': in_place, 'restart': restart, 's': s}

    # (i) every ordered pair of the pool, the rest drawn
    for ca in pool:
        for cb in pool:
            if rng.random() < 0.15:
                ca2, cb2 = respell(rng, ca), respell(rng, cb)
            else:
                ca2, cb2 = ca, cb
            yield two(ca2, cb2, rng.choice(prefixes), rng.choice(prefixes) if rng.random() < 0.3 else [],
                      rng.choice(['ab', 'ba']), rng.random() < 0.5, rng.random() < 0.6)
    # (ii) every combination of {absolute, relative} x {t0 supplied or not} x {shown nothing, only messages without P1
    #      time, a P1 time} for both ranges x both directions x in place or not x restart or not
    shown = {'nothing': [[]], 'untimed': untimed_prefixes, 'timed': timed_prefixes}
    for _ in range(8 if deep else 3):
        for aa in '01':
            for za in ('N', '4'):
                for sa in shown:
                    for ab in '01':
                        for zb in ('N', '4', '8'):
                            for sb in shown:
                                for op in ('ab', 'ba'):
                                    for in_place in (True, False):
                                        for restart in (True, False):
                                            ca = '%s,%s,%s,%s' % (rng.choice(['N', '0', '4', '6']), rng.choice(['N', '6', '8', '12']), aa, za)
                                            cb = '%s,%s,%s,%s' % (rng.choice(['N', 'N', '0', '4', '6']), rng.choice(['N', 'N', '6', '8', '12']), ab, zb)
                                            yield two(ca, cb, rng.choice(shown[sa]), rng.choice(shown[sb]), op, in_place, restart)
    # (iii) make_absolute and copies in the middle of a pass or before a new one
    for ctor in pool + [respell(rng, c) for c in pool]:
        for p in ['N', '4', '8', 'TX']:
            for in_place in (True, False):
                restart = rng.random() < 0.4
                pa, s = split()
                if restart:
                    s = new_pass(known_origin(ctor, pa))
                yield {'a': ctor, 'pa': pa, 'op': 'mk', 'p': p, 'in_place': in_place, 'restart': restart, 's': s}
        for op in ('copy', 'deepcopy'):
            for restart in (False, True):
                pa, s = split()
                yield {'a': ctor, 'pa': pa, 'op': op, 'restart': restart, 's': s if not restart else rng.choice(conc)}


# ---- driver of the whole check -----------------------------------------------------------------------------

def run(ctx, wide=False):
    rng = ctx.rng
    deep = ctx.thorough or wide
    batch = Batch()
    grid = [0, 4, 8, 12] if not deep else [0, 4, 6, 8, 12]
    maxlen = 6 if deep else 5
    seqs = monotone_seqs(maxlen, grid)
    starts = ['N', '0', '4', '6', 'inf', 'T4', 'TX']
    ends = ['N', '0', '6', '8', 'inf', 'T8', 'TX']
    t0s = ['N', '0', '2', '8']
    ctors = ctor_grid(ctx, starts, ends, t0s)
    main = set(ctors)
    if deep:   # a wider grid of bounds, run on the sequences up to length 4
        ctors += [c for c in ctor_grid(ctx, ['N', '0', '4', '5', '6', '12', 'inf', 'T4', 'T0', 'TX', 'Tinf'],
                                       ['N', '0', '4', '6', '8', '13', 'inf', 'T8', 'TX', 'Tinf'],
                                       ['N', '0', '2', '8', '16', 'TX']) if c not in main]
    ctx.count('ctor_configs', len(ctors))
    ctx.count('monotone_sequences', len(seqs))
    short = [s for s in seqs if len(s) <= 3]
    # (0) real messages of every kind and class: the accessors, and each kind mixed with ordinary P1-timed messages
    member_sequences(ctx, batch, rng, deep)
    # (1) every constructor configuration x every monotone sequence
    for ctor in ctors:
        for seq in seqs:
            if ctor not in main and len(seq) > 4:
                continue
            seq_case(ctx, batch, ctor, concretise(rng, seq))
        # (2) restart() between two independently monotone segments: exhaustive for total length <= 3 ...
        for a in short:
            for b in short:
                if 1 <= len(a) and len(a) + len(b) <= 3:
                    seq_case(ctx, batch, ctor, concretise(rng, a) + ['R'] + concretise(rng, b))
        # ... and sampled beyond
        for _ in range(40 if deep else 12):
            a, b, c = rng.choice(seqs), rng.choice(seqs), rng.choice(short)
            seq_case(ctx, batch, ctor, concretise(rng, a) + ['R'] + concretise(rng, b) + (['R'] + concretise(rng, c) if rng.random() < 0.3 else []))
        if len(batch.lines) > 150000:
            batch.flush(ctx)
    batch.flush(ctx)
    # (1b) the same values in every spelling: each constructor call x the probe sequences
    probes = probe_seqs(rng, grid)
    sp = spelled_ctors(rng, deep)
    ctx.count('spelled_ctor_configs', len(sp))
    for ctor in sp:
        for ev in probes:
            seq_case(ctx, batch, ctor, ev)
        for _ in range(6 if deep else 2):
            a, b = rng.choice(seqs), rng.choice(short)
            seq_case(ctx, batch, ctor, concretise(rng, a) + (['R'] + concretise(rng, b) if rng.random() < 0.4 else []))
        if len(batch.lines) > 150000:
            batch.flush(ctx)
    batch.flush(ctx)
    # (3) random longer sequences: 1-3 independently monotone segments separated by restart()
    times = [0, 1, 2, 3, 4, 5, 6, 8, 9, 12, 13, 16, 40]
    for _ in range(6000 if deep else 1500):
        out = []
        for k in range(rng.choice([1, 1, 2, 3])):
            n = rng.choice([7, 8, 10, 15, 30]) if k == 0 else rng.choice([1, 3, 8])
            g = sorted(rng.choice(times) for _ in range(n))
            if k:
                out.append('R')
            out += concretise(rng, ['U' if rng.random() < 0.4 else str(t) for t in g])
        seq_case(ctx, batch, rng.choice(ctors), out)
    batch.flush(ctx)
    # (4) intersect: all pairs
    istarts = ['N', '0', '4', '6', 'inf'] if not deep else ['N', '0', '4', '5', '6', 'inf', 'T4']
    iends = ['N', '6', '8', 'inf'] if not deep else ['N', '0', '6', '8', '13', 'T8']
    it0 = ['N', '4', '8'] if not deep else ['N', '0', '4', '8']
    pool = ['%s,%s,%s,%s' % (s, e, a, z) for s in istarts for e in iends for a in '01' for z in it0]
    iseqs = [concretise(rng, s, 0.0) for s in seqs if len(s) in (2, 3, 4)]
    for ca in pool:
        for cb in pool:
            inter_case(ctx, batch, ca, cb, rng.random() < 0.5, rng.sample(iseqs, 14 if deep else 6))
    batch.flush(ctx)
    # (5) make_absolute
    for ctor in pool + ctors[:: 3]:
        for p in ['N', '4', '8', 'TX']:
            mkabs_case(ctx, batch, ctor, p, rng.random() < 0.5, rng.sample(iseqs, 8))
    batch.flush(ctx)
    # (5b) operation sequences: is_in_range on one range, then intersect / make_absolute / copy, then further messages
    for d in gen_scripts(rng, seqs, deep):
        script_case(ctx, batch, d)
    batch.flush(ctx)
    # (6) parse
    pseqs = [concretise(rng, s, 0.0) for s in seqs if len(s) == 3] + [concretise(rng, s, 0.0) for s in rng.sample(seqs, 30)]
    strings = set()
    for s in NUM_TOKENS + BAD_TOKENS:
        strings.add(s)
        for e in NUM_TOKENS + BAD_TOKENS:
            strings.add(s + ':' + e)
            for t in TYPE_TOKENS:
                if s in NUM_TOKENS[:8] or e in NUM_TOKENS[:8] or rng.random() < 0.2:
                    strings.add(s + ':' + e + ':' + t)
    strings |= {'1:2:abs:', '1:2:3:4', ':::', '::', '::abs', '::rel', ':', '1:2:rel:abs'}
    for s in NUM_SPELLINGS:
        strings.add(s)
        for e in NUM_TOKENS[:8] + NUM_SPELLINGS:
            for t in ['', ':abs', ':rel']:
                strings.add(s + ':' + e + t)
                strings.add(e + ':' + s + t)
    for s in sorted(strings):
        for a in 'N01':
            parse_case(ctx, batch, s, a, rng.sample(pseqs, 5 if deep else 3))
    batch.flush(ctx)
    check_unmodified(ctx)


def check_unmodified(ctx):
    for tok, k, how, now in messages_unmodified():
        ctx.violation('C13/is_in_range/modifies-message', '%s built with members %r now has %r' % (how, parse_tok(tok), now),
                      {'kind': 'accessor', 'tok': tok, 'variant': k})
    ctx.count('message_objects_built', len(_catalogue()['objects']))
    for kind, classes in _catalogue()['classes'].items():
        ctx.cov['input_distribution']['payload_classes_' + kind] = len(classes)


def search(ctx):
    run(ctx, wide=True)


def check(ctx):
    ctx.cov['rule'] = (
        'every constructor configuration (start, end over None/0/fractions/inf/Timestamp/invalid Timestamp; absolute None/False/True; '
        'p1_t0 None/values) x every message sequence up to length 5 (quick) / 6 (thorough) over '
        '{no P1 time: raw bytes, payload without P1 time, system-timed payload, payload with invalid P1 time} + P1 times from a grid with '
        'repeats, non-decreasing; every message is a REAL object of the package described by its time members and built as each payload '
        'class that can carry them (all classes embedding MeasurementDetails; all with a p1_time member; all with system_time_ns; all '
        'with neither), directly or decoded from its packed form: sensor measurements over every measurement_time_source x '
        'measurement_time unset/set (clock values before, among and far beyond the P1 times) x details.p1_time unset/set, payloads with '
        'p1_time absent/None/invalid/set, system_time_ns absent/set, gps_time set. Whether a message counts as P1-timed(t), system-timed '
        'or untimed is read off the members as documented (harness doc_p1 = Lean Obj.docP1), the Lean model is given the members and '
        'applies its model of get_p1_time(); get_p1_time()/get_system_time_ns()/get_system_time_sec() and the tuple of '
        'return_timestamps=True are compared with both for every class x member combination, and every member combination is run '
        'before/between/after ordinary P1 times under relative and absolute ranges; restart() between independently monotone segments (exhaustive to total length 3, sampled beyond); '
        'random sequences of 7-30 messages; all ordered pairs of a range pool for intersect(), each result run on monotone sequences; '
        'make_absolute over pool x t0 argument; parse over START x END x type strings (incl. exponent, blank-padded, digit-separator and '
        'infinity spellings). The same requested values in every spelling - each bound as float / int / numpy.float64 / float32 / int64 / '
        'Timestamp / None / omitted / invalid Timestamp / inf, all start spellings x all end spellings; absolute as bool / numpy.bool_ / '
        'int / None / omitted x p1_t0 as Timestamp / float / numpy / int / None / omitted / NaN; positional arguments; parse() of tuples, '
        'lists and TimeRange objects - each x a fixed probe set of sequences (all of length <= 2, untimed messages around every two P1 '
        'times) + drawn longer ones; the expected interval is computed from the requested numbers, never from the object. Operation '
        'sequences over two objects: A shown messages, B shown messages, then A.intersect(B) / B.intersect(A) / A.make_absolute(p) / '
        'copy / deepcopy (in place or not), restart() or not, then further messages - all ordered pairs of a pool, and every combination '
        'of {absolute, relative} x {t0 supplied, not} x {shown nothing, untimed only, a P1 time} for both sides; expected: error exactly '
        'when neither side knows an origin (supplied t0 or first P1 time shown), accepted set of the result from the interval spec with '
        'the origins the ranges know. Compared per case: model vs TimeRange (verdict string and all seven attributes; for operation '
        'sequences the whole script is run on the model), TimeRange vs the Lean interval spec. Caller-owned objects: one sequence in 8 (in every '
        'stage that shows messages) is run on ONE object per payload class changed in place between the calls (p1_time += dt / .seconds = x / '
        'attribute replaced, also by None / details fields or the whole details object) and changed again after every call; every Timestamp '
        'passed to the constructor, parse() and make_absolute() is changed in place after the call, after intersect() the p1_t0 of the other '
        'range (with in_place=False also of the receiver) - verdicts and state are judged as before, on the values. non-trivial = verdicts not constant / '
        'range specified; distinct = distinct (configuration, event list)')
    ctx.assumptions += [
        'times are multiples of 0.25 s below 2^20, on which the float comparisons and the subtraction of t0 are exact; the Lean model '
        'and theorems are over the integers (any fixed resolution)',
        'bounds are None, finite, +inf or Timestamp objects; NaN and -inf bounds are outside the model',
        'message sequences have non-decreasing P1 times between restart() calls (out-of-order P1 time is documented as unsupported)',
        'an absolute start of exactly 0 is the open start (constructor normalisation, documented in the source); P1 times are non-negative',
        'float() is external to parse: the model is given the float value class of each part; strings are restricted to '
        '[+-]digits[.digits] multiples of 0.25, inf, -inf and non-numbers',
        'intersect(): the accepted-set equation is checked for pairs whose relative origins agree on the sequence (the hypothesis '
        '`Compatible` of C13_intersect_is_intersection); pairs with different supplied t0 are exercised for model correspondence only',
        'operation sequences: the result of intersect() is judged on a new pass (after restart(), or when the receiver has accepted '
        'nothing and seen no P1 time at or beyond its end), and in the middle of a pass only when the operation leaves the accepted set '
        'unchanged (make_absolute, copies, intersect with a range without bounds); narrowing a range in the middle of a pass is '
        'exercised for model correspondence only - the property does not say which latches it keeps',
        'bound spellings are the declared ones (float, Timestamp, None) and what converts to float exactly (int, numpy scalars)',
        'the P1 time of a message is what the documentation of its members says: the p1_time member; for a sensor measurement '
        'details.p1_time, else details.measurement_time when measurement_time_source is P1_TIME. Where the members contradict each other '
        '(source P1_TIME and a details.p1_time that differs from measurement_time, incl. an invalid measurement_time) the documentation '
        'names no single P1 time: get_p1_time() must return one of the two P1 members and is_in_range is judged with that reading; '
        'None and NaN both count as "no system time"',
    ]
    ctx.prove(MODULES)
    try:
        run(ctx)
    except fv.InfraError:
        if not ctx.proof_failures:
            raise
    return fv.finish(ctx, 'proof', search)


def replay(ctx, path):
    obj = json.load(open(path))
    d = obj['input']
    batch = Batch()
    k = d.get('kind')
    if k == 'seq':
        seq_case(ctx, batch, d['ctor'], d['events'])
    elif k == 'intersect':
        inter_case(ctx, batch, d['a'], d['b'], d['in_place'], [d['seq']] if 'seq' in d else [])
    elif k == 'mkabs':
        mkabs_case(ctx, batch, d['ctor'], d['p'], d['in_place'], [d['seq']] if 'seq' in d else [])
    elif k == 'parse':
        parse_case(ctx, batch, d['string'], d['absolute'], [d['seq']] if 'seq' in d else [])
    elif k == 'script':
        script_case(ctx, batch, d)
    elif k == 'accessor':
        accessor_case(ctx, batch, d['tok'], d['variant'])
    else:
        raise fv.InfraError('replay file has no recognised input kind')
    batch.flush(ctx)
    return fv.finish(ctx, 'proof', None)
