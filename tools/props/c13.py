"""C13 - time-range membership follows the documented interval semantics (TimeRange in utils/time_range.py).

Times are multiples of 0.25 s (exactly representable, float arithmetic on them is exact), written for the Lean
driver as integers in quarter seconds.  Tokens (see lean/FeVerif/Driver/TimeRange.lean):
  bound: N | <int> | inf | T<int> | TX      ctor: start,end,absolute(N/0/1),t0(N/<int>)
  event: b | u | s | n | <int> | R, message tokens optionally prefixed with t (return_timestamps=True)
"""
import copy
import itertools
import json
import math

import fv

MODULES = ['FeVerif.Props.C13']
Q = 0.25

_msg_cache = {}


def _messages():
    if not _msg_cache:
        from fusion_engine_client.messages import (EventNotificationMessage, IMUInput, PoseMessage, ResetRequest,
                                                   SystemTimeSource, Timestamp)
        ev = EventNotificationMessage()
        ev.system_time_ns = 3000000000
        imu_invalid = IMUInput()
        _msg_cache['b'] = [b'\x2e\x31\x00\x00', None]
        _msg_cache['u'] = [ResetRequest()]
        _msg_cache['s'] = [ev]
        _msg_cache['n'] = [PoseMessage(), imu_invalid]
        _msg_cache['Timestamp'] = Timestamp
        _msg_cache['mk'] = (PoseMessage, IMUInput, SystemTimeSource)
    return _msg_cache


def timed_message(q, variant):
    c = _messages()
    key = ('p', q, variant % 3)
    if key not in c:
        Pose, IMU, Src = c['mk']
        Timestamp = c['Timestamp']
        if variant % 3 == 0:
            m = Pose()
            m.p1_time = Timestamp(q * Q)
        elif variant % 3 == 1:      # P1 time carried in MeasurementDetails.p1_time
            m = IMU()
            m.details.p1_time = Timestamp(q * Q)
            m.details.measurement_time = Timestamp(777.0)
            m.details.measurement_time_source = Src.TIMESTAMPED_ON_RECEPTION
        else:                       # measurement time is the P1 time
            m = IMU()
            m.details.measurement_time = Timestamp(q * Q)
            m.details.measurement_time_source = Src.P1_TIME
        c[key] = m
    return c[key]


def message_for(tok, variant):
    c = _messages()
    if tok in ('b', 'u', 's', 'n'):
        v = c[tok]
        return v[variant % len(v)]
    return timed_message(int(tok), variant)


def bound_arg(tok):
    Timestamp = _messages()['Timestamp']
    if tok == 'N':
        return None
    if tok == 'inf':
        return math.inf
    if tok == 'TX':
        return Timestamp()
    if tok == 'Tinf':
        return Timestamp(math.inf)
    if tok.startswith('T'):
        return Timestamp(int(tok[1:]) * Q)
    return int(tok) * Q


def t0_arg(tok):
    Timestamp = _messages()['Timestamp']
    if tok == 'N':
        return None
    if tok == 'TX':
        return Timestamp()
    return Timestamp(int(tok) * Q)


def abs_arg(tok):
    return None if tok == 'N' else (tok == '1')


def dctor(ctor):
    """Constructor token for the driver: an invalid Timestamp as p1_t0 is 'no t0'."""
    s, e, a, z = ctor.split(',')
    return '%s,%s,%s,%s' % (s, e, a, 'N' if z == 'TX' else z)


def make_range(ctor):
    from fusion_engine_client.utils.time_range import TimeRange
    s, e, a, z = ctor.split(',')
    return TimeRange(start=bound_arg(s), end=bound_arg(e), absolute=abs_arg(a), p1_t0=t0_arg(z))


def qs(x):
    """float -> quarter-second token (exact)."""
    if x is None:
        return 'N'
    x = float(x)
    if math.isnan(x):
        return 'nan'
    if math.isinf(x):
        return 'inf' if x > 0 else '-inf'
    v = x * 4
    if v != int(v):
        return 'inexact(%r)' % x
    return str(int(v))


def state_str(r):
    t0 = float(r.p1_t0)
    return ','.join([qs(r.start), qs(r.end), '1' if r.absolute else '0', 'N' if math.isnan(t0) else qs(t0),
                     '1' if r._range_specified else '0', '1' if r._in_range_started else '0',
                     '1' if r._in_range_ended else '0'])


def run_real(r, events):
    """Apply events to the real object. Returns (string of 0/1/r, error or None)."""
    out = []
    n = len(events)
    for i, ev in enumerate(events):
        if ev == 'R':
            r.restart()
            out.append('r')
            continue
        ret_ts = ev.startswith('t')
        tok = ev[1:] if ret_ts else ev
        m = message_for(tok, i + n)
        try:
            res = r.is_in_range(m, return_timestamps=True) if ret_ts else r.is_in_range(m)
        except Exception as e:  # noqa
            return ''.join(out), '%s: %s' % (type(e).__name__, e)
        if ret_ts:
            if not (isinstance(res, tuple) and len(res) == 3):
                return ''.join(out), 'return_timestamps=True did not return a 3-tuple'
            res = res[0]
        if not isinstance(res, bool):
            return ''.join(out), 'is_in_range returned %r' % (res,)
        out.append('1' if res else '0')
    return ''.join(out), None


# ---- the property, restated for the harness (independent of the Lean model) ----------------------------------

def expected_interval(ctor):
    """(start token or N, end token or N, absolute) the constructor arguments describe."""
    s, e, a, _ = ctor.split(',')
    absolute = (a == '1') if a != 'N' else (s.startswith('T') or e.startswith('T'))

    def val(tok):
        if tok in ('N', 'TX'):
            return 'N'
        return tok[1:] if tok.startswith('T') else tok
    s, e = val(s), val(e)
    if s == '0' and absolute:       # documented: an absolute start of 0 is the beginning of time
        s = 'N'
    if e == 'inf':
        e = 'N'
    return s, e, absolute


def p1_of(tok):
    tok = tok[1:] if tok.startswith('t') else tok
    return None if tok in ('b', 'u', 's', 'n') else int(tok)


def segments(events):
    segs = [[]]
    for ev in events:
        if ev == 'R':
            segs.append([])
        else:
            segs[-1].append(ev[1:] if ev.startswith('t') else ev)
    return segs


def spec_lines(ctor, events):
    """One trangespec request per segment between restarts; the origin persists across restart()."""
    s, e, absolute = expected_interval(ctor)
    origin = ctor.split(',')[3]
    if origin == 'TX':
        origin = 'N'
    lines = []
    for seg in segments(events):
        if origin == 'N':
            for tok in seg:
                if p1_of(tok) is not None:
                    origin = str(p1_of(tok))
                    break
        lines.append('trangespec %s,%s,%d,%s %s' % (s, e, 1 if absolute else 0, origin, ','.join(seg) or '='))
    return lines


def classify(ctor, events, got, want):
    """Signature of the first differing verdict."""
    s, e, absolute = expected_interval(ctor)
    k = next((i for i, (x, y) in enumerate(zip(got, want)) if x != y), min(len(got), len(want)))
    ev = events[k] if k < len(events) else '?'
    timed = p1_of(ev) is not None if ev not in ('R', '?') else False
    seg_start = max([i for i in range(k) if events[i] == 'R'] + [-1]) + 1
    before = [p1_of(x) for x in events[seg_start:k] if x != 'R']
    feat = []
    feat.append('open-start' if s == 'N' else 'closed-start')
    if e == 'N':
        feat.append('open-end')
    if not timed:
        feat.append('no-p1-seen-yet' if all(b is None for b in before) else 'after-p1')
    if seg_start > 0:
        feat.append('after-restart')
    what = '%s-%s' % ('timed' if timed else 'untimed', 'accepted' if k < len(got) and got[k] == '1' else 'rejected')
    return 'C13/is_in_range/%s/%s/%s' % (what, 'abs' if absolute else 'rel', '-'.join(feat)), k


# ---- generators ------------------------------------------------------------------------------------------

def monotone_seqs(maxlen, grid):
    """All sequences up to maxlen over {U} + grid with non-decreasing P1 times (repeats allowed)."""
    res = [[]]
    frontier = [([], 0)]
    for _ in range(maxlen):
        new = []
        for seq, lo in frontier:
            new.append((seq + ['U'], lo))
            for i in range(lo, len(grid)):
                new.append((seq + [str(grid[i])], i))
        res += [s for s, _ in new]
        frontier = new
    return res


def concretise(rng, seq, p_ts=0.1):
    out = []
    for tok in seq:
        if tok == 'U':
            tok = rng.choice('busn')
        if rng.random() < p_ts:
            tok = 't' + tok
        out.append(tok)
    return out


def ctor_grid(ctx, starts, ends, t0s):
    res = []
    for s in starts:
        for e in ends:
            ts = s.startswith('T') or e.startswith('T')
            for a in (['N', '0', '1'] if ts else ['0', '1']):
                for z in t0s:
                    res.append('%s,%s,%s,%s' % (s, e, a, z))
    # absolute=None without Timestamp objects: relative
    res += ['N,N,N,N', '4,8,N,N', 'N,8,N,4']
    return res


class Batch:
    """Collects driver requests; answers are handed to the judges afterwards."""

    def __init__(self):
        self.lines = []
        self.index = {}
        self.todo = []

    def ask(self, line):
        i = self.index.get(line)
        if i is None:
            i = len(self.lines)
            self.index[line] = i
            self.lines.append(line)
        return i

    def flush(self, ctx):
        outs = ctx.driver(self.lines)
        for judge, idx, data in self.todo:
            judge(ctx, [outs[i] for i in idx], data)
        self.lines, self.index, self.todo = [], {}, []


def seq_case(ctx, batch, ctor, events):
    try:
        r = make_range(ctor)
    except Exception as e:  # noqa
        ctx.violation('C13/constructor-raised', 'TimeRange(%s) raised %s' % (ctor, e), {'kind': 'seq', 'ctor': ctor, 'events': events})
        return
    bits, err = run_real(r, events)
    data = {'kind': 'seq', 'ctor': ctor, 'events': events}
    if err is not None:
        ctx.violation('C13/is_in_range/raised', 'TimeRange(%s) on %s: %s' % (ctor, events, err), data)
        return
    st = state_str(r)
    idx = [batch.ask('trange %s %s' % (dctor(ctor), ','.join(events) or '='))]
    idx += [batch.ask(l) for l in spec_lines(ctor, events)]
    batch.todo.append((judge_seq, idx, (data, bits, st)))


def judge_seq(ctx, outs, payload):
    data, bits, st = payload
    ctor, events = data['ctor'], data['events']
    model = outs[0]
    if model != bits + '|' + st:
        ctx.disagree('is_in_range: TimeRange(%s) on %s: impl=%s|%s model=%s' % (ctor, ','.join(events), bits, st, model), data)
    ctx.cov['traces_validated_against_impl'] += 1
    want = 'r'.join(outs[1:])
    spec_ok = all(set(o) <= set('01') for o in outs[1:])
    if not spec_ok:
        raise fv.InfraError('trangespec answered %r' % (outs[1:],))
    nontrivial = len(events) >= 2 and ('0' in bits and '1' in bits)
    ctx.case('%s %s' % (ctor, ','.join(events)), nontrivial=nontrivial)
    if nontrivial and len(events) >= 5 and ctx.cov['evaluations'] % 9973 == 0:
        ctx.sample({'TimeRange(start,end,absolute,p1_t0) [quarter seconds]': ctor, 'events': ','.join(events), 'is_in_range': bits,
                    'final_state': st})
    if bits != want:
        sig, k = classify(ctor, events, bits, want)
        ctx.violation(sig, 'TimeRange(%s) on [%s] gives %s, the interval semantics give %s (first difference at message %d; '
                      'times in quarter seconds)' % (ctor, ','.join(events), bits, want, k), data)


# ---- intersect / make_absolute -----------------------------------------------------------------------------

def first_p1(seq):
    for tok in seq:
        if p1_of(tok) is not None:
            return p1_of(tok)
    return None


def t0_of(ctor):
    z = ctor.split(',')[3]
    return None if z in ('N', 'TX') else int(z)


def compatible(ca, cb, seq):
    """Mirror of `Compatible` in lean/FeVerif/Props/C13.lean."""
    aa, ab = expected_interval(ca)[2], expected_interval(cb)[2]
    za, zb, f = t0_of(ca), t0_of(cb), first_p1(seq)
    if aa and ab:
        return True
    if not aa and not ab:
        return (za if za is not None else f) == (zb if zb is not None else f)
    if aa and not ab:
        return zb is not None or za == f
    return za is not None or zb == f


def inter_case(ctx, batch, ca, cb, in_place, seqs):
    data = {'kind': 'intersect', 'a': ca, 'b': cb, 'in_place': in_place}
    a, b = make_range(ca), make_range(cb)
    a_before, b_before = state_str(a), state_str(b)
    za, zb = t0_of(ca), t0_of(cb)
    aa, ab = expected_interval(ca)[2], expected_interval(cb)[2]
    must_raise = (aa != ab) and za is None and zb is None
    try:
        res = a.intersect(b, in_place=in_place)
        got = state_str(res)
    except ValueError:
        got = 'err:ValueError'
        res = None
    except Exception as e:  # noqa
        ctx.violation('C13/intersect/raised-' + type(e).__name__, 'TimeRange(%s).intersect(TimeRange(%s)) raised %s' % (ca, cb, e), data)
        return
    ctx.count('intersect_' + ('abs' if aa else 'rel') + 'x' + ('abs' if ab else 'rel'))
    if (res is None) != must_raise:
        ctx.violation('C13/intersect/error-case', 'TimeRange(%s).intersect(TimeRange(%s)): %s, expected %s' % (
            ca, cb, 'raised ValueError' if res is None else 'no error',
            'ValueError (absolute with relative and no t0 known)' if must_raise else 'a range'), data)
        return
    if state_str(b) != b_before:
        ctx.violation('C13/intersect/modifies-other', 'other changed from %s to %s' % (b_before, state_str(b)), data)
    if res is not None:
        if in_place and res is not a:
            ctx.violation('C13/intersect/in-place-returns-copy', 'in_place=True did not return self', data)
        if not in_place and (res is a or state_str(a) != a_before):
            ctx.violation('C13/intersect/copy-modifies-self', 'in_place=False changed self from %s to %s' % (a_before, state_str(a)), data)
    batch.todo.append((judge_state, [batch.ask('trinter %s %s' % (dctor(ca), dctor(cb)))], ('intersect', data, got)))
    ctx.case('inter %s %s' % (ca, cb), nontrivial=res is not None and res._range_specified)
    if res is None:
        return
    # the property: accepted set of the result = intersection of the accepted sets
    for seq in seqs:
        if not compatible(ca, cb, seq):
            ctx.count('intersect_seq_skipped_incompatible_origins')
            continue
        ra, rb, rr = make_range(ca), make_range(cb), copy.deepcopy(res)
        rr.restart()
        ba, e1 = run_real(ra, seq)
        bb, e2 = run_real(rb, seq)
        br, e3 = run_real(rr, seq)
        if e1 or e2 or e3:
            ctx.violation('C13/is_in_range/raised', str(e1 or e2 or e3), dict(data, seq=seq))
            return
        want = ''.join('1' if x == '1' and y == '1' else '0' for x, y in zip(ba, bb))
        ctx.count('intersect_seq_checked')
        if br != want:
            ctx.violation('C13/intersect/accepted-set-differs/%sx%s' % ('abs' if aa else 'rel', 'abs' if ab else 'rel'),
                          'TimeRange(%s).intersect(TimeRange(%s)) = %s on [%s] gives %s; the two ranges give %s and %s' % (
                              ca, cb, got, ','.join(seq), br, ba, bb), dict(data, seq=seq))
            return


def judge_state(ctx, outs, payload):
    what, data, got = payload
    ctx.cov['traces_validated_against_impl'] += 1
    if outs[0] != got:
        ctx.disagree('%s: %s impl=%s model=%s' % (what, json.dumps(data), got, outs[0]), data)


def mkabs_case(ctx, batch, ctor, p, in_place, seqs):
    data = {'kind': 'mkabs', 'ctor': ctor, 'p': p, 'in_place': in_place}
    r = make_range(ctor)
    before = state_str(r)
    absolute = expected_interval(ctor)[2]
    z = t0_of(ctor)
    if z is None and p not in ('N', 'TX'):
        z = int(p)
    try:
        res = r.make_absolute(p1_t0=t0_arg(p), in_place=in_place)
        got = state_str(res)
    except ValueError:
        res, got = None, 'err:ValueError'
    except Exception as e:  # noqa
        ctx.violation('C13/make_absolute/raised-' + type(e).__name__, 'TimeRange(%s).make_absolute(%s) raised %s' % (ctor, p, e), data)
        return
    must_raise = (not absolute) and z is None
    if (res is None) != must_raise:
        ctx.violation('C13/make_absolute/error-case', 'TimeRange(%s).make_absolute(%s): %s' % (ctor, p, got), data)
        return
    batch.todo.append((judge_state, [batch.ask('trmkabs %s %s' % (dctor(ctor), 'N' if p == 'TX' else p))], ('make_absolute', data, got)))
    ctx.case('mkabs %s %s' % (ctor, p), nontrivial=not absolute)
    if res is None:
        if state_str(r) != before:
            ctx.violation('C13/make_absolute/raise-modifies-self', '%s -> %s' % (before, state_str(r)), data)
        return
    if not in_place and state_str(r) != before:
        ctx.violation('C13/make_absolute/copy-modifies-self', '%s -> %s' % (before, state_str(r)), data)
    if not res.absolute:
        ctx.violation('C13/make_absolute/result-not-absolute', 'TimeRange(%s).make_absolute(%s) = %s is still relative' % (ctor, p, got), data)
        return
    for seq in seqs:
        f = first_p1(seq)
        if not absolute and (t0_of(ctor) if t0_of(ctor) is not None else f) != z:
            continue   # the range's own origin on this sequence is not the one used for the conversion
        r0, r1 = make_range(ctor), copy.deepcopy(res)
        r1.restart()
        b0, e0 = run_real(r0, seq)
        b1, e1 = run_real(r1, seq)
        if e0 or e1:
            ctx.violation('C13/is_in_range/raised', str(e0 or e1), dict(data, seq=seq))
            return
        if b0 != b1:
            ctx.violation('C13/make_absolute/accepted-set-differs', 'TimeRange(%s) gives %s on [%s]; after make_absolute(%s) = %s it gives %s' % (
                ctor, b0, ','.join(seq), p, got, b1), dict(data, seq=seq))
            return


# ---- parse -------------------------------------------------------------------------------------------------

NUM_TOKENS = ['', '0', '1', '2', '2.5', '0.25', '1.50', '-1', '-0.5', '-0', 'inf', '-inf', '+2', '.5', '1.', '00.75']
BAD_TOKENS = ['x', '1.5.2', '-', '--1', '1,5', '0x10', 'abs', '.']
TYPE_TOKENS = ['abs', 'rel', 'ABS', '', 'x', 'relative']


def expected_parse(s, absolute):
    """The range "[START][:END][:{rel,abs}]" describes: (start, end, absolute) tokens, or 'err'.  Numbers are
    read with float(); a negative bound counts as omitted."""
    parts = s.split(':')
    if len(parts) > 3:
        return 'err'
    if len(parts) == 3:
        if parts[2] not in ('abs', 'rel'):
            return 'err'
        absolute = parts[2] == 'abs'
    vals = []
    for p in (parts + [''])[:2]:
        if p == '':
            vals.append(None)
            continue
        try:
            v = float(p)
        except ValueError:
            return 'err'
        vals.append(None if v < 0 else v)
    absolute = bool(absolute)
    st = 'N' if vals[0] is None else qs(vals[0])
    en = 'N' if vals[1] is None or math.isinf(vals[1]) else qs(vals[1])
    if st == '0' and absolute:
        st = 'N'
    return st, en, absolute


def parse_case(ctx, batch, s, a, seqs):
    from fusion_engine_client.utils.time_range import TimeRange
    data = {'kind': 'parse', 'string': s, 'absolute': a}
    try:
        r = TimeRange.parse(s, absolute=abs_arg(a))
        got = state_str(r)
    except ValueError:
        r, got = None, 'err:ValueError'
    except Exception as e:  # noqa
        ctx.violation('C13/parse/raised-' + type(e).__name__, 'TimeRange.parse(%r) raised %s' % (s, e), data)
        return
    batch.todo.append((judge_state, [batch.ask('trparse %s %s' % (s, a))], ('parse', data, got)))
    want = expected_parse(s, abs_arg(a))
    ctx.case('parse %s %s' % (s, a), nontrivial=r is not None and r._range_specified)
    ctx.count('parse_error' if r is None else 'parse_ok')
    if (r is None) != (want == 'err'):
        ctx.violation('C13/parse/%s' % ('rejects-valid-text' if r is None else 'accepts-malformed-text'),
                      'TimeRange.parse(%r, absolute=%s) -> %s, the text describes %s' % (s, a, got, want), data)
        return
    if r is None:
        return
    st, en, absolute = want
    # accepted set of the parsed range = the described interval
    idx = []
    realbits = []
    for seq in seqs:
        rr = copy.deepcopy(r)
        bits, err = run_real(rr, seq)
        if err:
            ctx.violation('C13/is_in_range/raised', err, dict(data, seq=seq))
            return
        f = first_p1(seq)
        idx.append(batch.ask('trangespec %s,%s,%d,%s %s' % (st, en, 1 if absolute else 0, 'N' if f is None else f, ','.join(seq) or '=')))
        realbits.append((seq, bits))
    batch.todo.append((judge_parse, idx, (data, got, want, realbits)))


def judge_parse(ctx, outs, payload):
    data, got, want, realbits = payload
    for o, (seq, bits) in zip(outs, realbits):
        if o != bits:
            ctx.violation('C13/parse/accepted-set-differs', 'TimeRange.parse(%r, absolute=%s) = %s gives %s on [%s]; the described interval %s gives %s' % (
                data['string'], data['absolute'], got, bits, ','.join(seq), want, o), dict(data, seq=seq))
            return


# ---- driver of the whole check -----------------------------------------------------------------------------

def run(ctx, wide=False):
    rng = ctx.rng
    deep = ctx.thorough or wide
    batch = Batch()
    grid = [0, 4, 8, 12] if not deep else [0, 4, 6, 8, 12]
    maxlen = 6 if deep else 5
    seqs = monotone_seqs(maxlen, grid)
    starts = ['N', '0', '4', '6', 'inf', 'T4', 'TX']
    ends = ['N', '0', '6', '8', 'inf', 'T8', 'TX']
    t0s = ['N', '0', '2', '8']
    ctors = ctor_grid(ctx, starts, ends, t0s)
    main = set(ctors)
    if deep:   # a wider grid of bounds, run on the sequences up to length 4
        ctors += [c for c in ctor_grid(ctx, ['N', '0', '4', '5', '6', '12', 'inf', 'T4', 'T0', 'TX', 'Tinf'],
                                       ['N', '0', '4', '6', '8', '13', 'inf', 'T8', 'TX', 'Tinf'],
                                       ['N', '0', '2', '8', '16', 'TX']) if c not in main]
    ctx.count('ctor_configs', len(ctors))
    ctx.count('monotone_sequences', len(seqs))
    short = [s for s in seqs if len(s) <= 3]
    # (1) every constructor configuration x every monotone sequence
    for ctor in ctors:
        for seq in seqs:
            if ctor not in main and len(seq) > 4:
                continue
            seq_case(ctx, batch, ctor, concretise(rng, seq))
        # (2) restart() between two independently monotone segments: exhaustive for total length <= 3 ...
        for a in short:
            for b in short:
                if 1 <= len(a) and len(a) + len(b) <= 3:
                    seq_case(ctx, batch, ctor, concretise(rng, a) + ['R'] + concretise(rng, b))
        # ... and sampled beyond
        for _ in range(40 if deep else 12):
            a, b, c = rng.choice(seqs), rng.choice(seqs), rng.choice(short)
            seq_case(ctx, batch, ctor, concretise(rng, a) + ['R'] + concretise(rng, b) + (['R'] + concretise(rng, c) if rng.random() < 0.3 else []))
        if len(batch.lines) > 150000:
            batch.flush(ctx)
    batch.flush(ctx)
    # (3) random longer sequences: 1-3 independently monotone segments separated by restart()
    times = [0, 1, 2, 3, 4, 5, 6, 8, 9, 12, 13, 16, 40]
    for _ in range(6000 if deep else 1500):
        out = []
        for k in range(rng.choice([1, 1, 2, 3])):
            n = rng.choice([7, 8, 10, 15, 30]) if k == 0 else rng.choice([1, 3, 8])
            g = sorted(rng.choice(times) for _ in range(n))
            if k:
                out.append('R')
            out += concretise(rng, ['U' if rng.random() < 0.4 else str(t) for t in g])
        seq_case(ctx, batch, rng.choice(ctors), out)
    batch.flush(ctx)
    # (4) intersect: all pairs
    istarts = ['N', '0', '4', '6', 'inf'] if not deep else ['N', '0', '4', '5', '6', 'inf', 'T4']
    iends = ['N', '6', '8', 'inf'] if not deep else ['N', '0', '6', '8', '13', 'T8']
    it0 = ['N', '4', '8'] if not deep else ['N', '0', '4', '8']
    pool = ['%s,%s,%s,%s' % (s, e, a, z) for s in istarts for e in iends for a in '01' for z in it0]
    iseqs = [concretise(rng, s, 0.0) for s in seqs if len(s) in (2, 3, 4)]
    for ca in pool:
        for cb in pool:
            inter_case(ctx, batch, ca, cb, rng.random() < 0.5, rng.sample(iseqs, 14 if deep else 6))
    batch.flush(ctx)
    # (5) make_absolute
    for ctor in pool + ctors[:: 3]:
        for p in ['N', '4', '8', 'TX']:
            mkabs_case(ctx, batch, ctor, p, rng.random() < 0.5, rng.sample(iseqs, 8))
    batch.flush(ctx)
    # (6) parse
    pseqs = [concretise(rng, s, 0.0) for s in seqs if len(s) == 3] + [concretise(rng, s, 0.0) for s in rng.sample(seqs, 30)]
    strings = set()
    for s in NUM_TOKENS + BAD_TOKENS:
        strings.add(s)
        for e in NUM_TOKENS + BAD_TOKENS:
            strings.add(s + ':' + e)
            for t in TYPE_TOKENS:
                if s in NUM_TOKENS[:8] or e in NUM_TOKENS[:8] or rng.random() < 0.2:
                    strings.add(s + ':' + e + ':' + t)
    strings |= {'1:2:abs:', '1:2:3:4', ':::', '::', '::abs', '::rel', ':', '1:2:rel:abs'}
    for s in sorted(strings):
        for a in 'N01':
            parse_case(ctx, batch, s, a, rng.sample(pseqs, 5 if deep else 3))
    batch.flush(ctx)


def search(ctx):
    run(ctx, wide=True)


def check(ctx):
    ctx.cov['rule'] = (
        'every constructor configuration (start, end over None/0/fractions/inf/Timestamp/invalid Timestamp; absolute None/False/True; '
        'p1_t0 None/values) x every message sequence up to length 5 (quick) / 6 (thorough) over '
        '{no P1 time: raw bytes, payload without P1 time, system-timed payload, payload with invalid P1 time} + P1 times from a grid with '
        'repeats, non-decreasing; restart() between independently monotone segments (exhaustive to total length 3, sampled beyond); '
        'random sequences of 7-30 messages; all ordered pairs of a range pool for intersect(), each result run on monotone sequences; '
        'make_absolute over pool x t0 argument; parse over START x END x type strings. Compared per case: model vs TimeRange '
        '(verdict string and all seven attributes), TimeRange vs the Lean interval spec. non-trivial = verdicts not constant / range '
        'specified; distinct = distinct (configuration, event list)')
    ctx.assumptions += [
        'times are multiples of 0.25 s below 2^20, on which the float comparisons and the subtraction of t0 are exact; the Lean model '
        'and theorems are over the integers (any fixed resolution)',
        'bounds are None, finite, +inf or Timestamp objects; NaN and -inf bounds are outside the model',
        'message sequences have non-decreasing P1 times between restart() calls (out-of-order P1 time is documented as unsupported)',
        'an absolute start of exactly 0 is the open start (constructor normalisation, documented in the source); P1 times are non-negative',
        'float() is external to parse: the model is given the float value class of each part; strings are restricted to '
        '[+-]digits[.digits] multiples of 0.25, inf, -inf and non-numbers',
        'intersect(): the accepted-set equation is checked for pairs whose relative origins agree on the sequence (the hypothesis '
        '`Compatible` of C13_intersect_is_intersection); pairs with different supplied t0 are exercised for model correspondence only',
    ]
    ctx.prove(MODULES)
    try:
        run(ctx)
    except fv.InfraError:
        if not ctx.proof_failures:
            raise
    return fv.finish(ctx, 'proof', search)


def replay(ctx, path):
    obj = json.load(open(path))
    d = obj['input']
    batch = Batch()
    k = d.get('kind')
    if k == 'seq':
        seq_case(ctx, batch, d['ctor'], d['events'])
    elif k == 'intersect':
        inter_case(ctx, batch, d['a'], d['b'], d['in_place'], [d['seq']] if 'seq' in d else [])
    elif k == 'mkabs':
        mkabs_case(ctx, batch, d['ctor'], d['p'], d['in_place'], [d['seq']] if 'seq' in d else [])
    elif k == 'parse':
        parse_case(ctx, batch, d['string'], d['absolute'], [d['seq']] if 'seq' in d else [])
    else:
        raise fv.InfraError('replay file has no recognised input kind')
    batch.flush(ctx)
    return fv.finish(ctx, 'proof', None)
