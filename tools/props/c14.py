"""C14 - the C++ RTCM framer dispatches exactly the CRC-valid RTCM 3 frames (any stream, chunking, capacity),
counts them, and stays inside its buffer.

Stage A  tools/c14_crc_extract.py regenerates lean/FeVerif/Generated/Crc24.lean from rtcm_framer.cc.
Stage B  FeVerif.Props.C14 (theorems about the literal model Model/RtcmFramer.lean and the scan Spec/Rtcm.lean).
Stage C  cxx/c14_harness.cc (compiled from $FE_REPO/src under ASan/UBSan) vs the model: per call the callbacks,
         return value and private state must be identical text.
Stage D  the scan (`rtcmscan`, i.e. Cfg.run cfgRtcm) vs the callbacks of the real framer; decoded count; return
         values; callback pointer; sanitizer reports.
         Requests `M ...` keep 2-3 framer objects alive in one process and interleave their operations; every framer is
         judged on its own stream exactly like a lone one (model text, scan, direct statements) and against itself run
         alone (signature C14/framer-depends-on-another-instance): framer objects share no state.
         Requests `L ...` are long runs of one framer object (tens of thousands of frames generated inside the harness from
         a seed): at every report the number of callbacks, GetNumDecodedMessages(), the sum of OnData() returns and a digest
         of all callbacks must be what the scan of the same stream (regenerated here, scanned window by window) demands.
"""
import json
import os
import re
import subprocess

import c14_crc_extract
import fv
import gen

MODULES = ['FeVerif.Props.C14']
FNV_OFF, FNV_PRIME, M64 = 0xcbf29ce484222325, 0x100000001b3, (1 << 64) - 1


# ---- own RTCM 3 packer (independent of the repository) ------------------------------------------------------
def crc24q(data):
    crc = 0
    for b in data:
        crc ^= b << 16
        for _ in range(8):
            crc <<= 1
            if crc & 0x1000000:
                crc ^= 0x1864CFB
    return crc & 0xFFFFFF


def crc24q_table():
    t = []
    for i in range(256):
        c = i << 16
        for _ in range(8):
            c <<= 1
            if c & 0x1000000:
                c ^= 0x1864CFB
        t.append(c & 0xFFFFFF)
    return t


def rtcm_frame(payload, reserved=0):
    assert len(payload) <= 1023
    h = bytes([0xD3, ((reserved & 0x3F) << 2) | (len(payload) >> 8), len(payload) & 0xFF]) + payload
    return h + crc24q(h).to_bytes(3, 'big')


def rtcm_msg(rng, msgnum, n):
    """Frame whose payload of n bytes starts (when n >= 2) with the 12-bit message number."""
    body = bytearray(rng.randrange(256) for _ in range(n))
    if n >= 2:
        body[0] = (msgnum >> 4) & 0xFF
        body[1] = ((msgnum & 0xF) << 4) | (body[1] & 0x0F)
    elif n == 1:
        body[0] = (msgnum >> 4) & 0xFF
    return rtcm_frame(bytes(body))


def fnv64(b):
    h = FNV_OFF
    for x in b:
        h = ((h ^ x) * FNV_PRIME) & M64
    return h


MSGNUMS = [1005, 1077, 1087, 1097, 1127, 1230, 4095, 0, 1]
SIZES = [0, 0, 1, 2, 3, 4, 8, 13, 19, 40, 90, 200, 500, 1022, 1023]
TOKENS = 'VVVZCCTSSNMHFFJJXD'


def token(rng, kind, cap, seqs):
    if kind == 'V':
        return rtcm_msg(rng, rng.choice(MSGNUMS), rng.choice(SIZES))
    if kind == 'Z':
        return rtcm_frame(b'')
    if kind == 'C':   # one flipped bit anywhere (header, payload or CRC)
        m = bytearray(rtcm_msg(rng, rng.choice(MSGNUMS), rng.choice(SIZES[:12])))
        i = rng.randrange(len(m))
        m[i] ^= 1 << rng.randrange(8)
        return bytes(m)
    if kind == 'T':
        m = rtcm_msg(rng, rng.choice(MSGNUMS), rng.choice(SIZES[:12]))
        return m[:rng.randrange(1, len(m))]
    if kind == 'S':
        return b'\xd3' * rng.choice([1, 1, 2, 3, 5])
    if kind == 'N':   # valid frame whose payload holds a complete valid frame
        inner = rtcm_msg(rng, rng.choice(MSGNUMS), rng.choice(SIZES[:9]))
        pre = bytes(rng.randrange(256) for _ in range(rng.choice([0, 2, 5])))
        return rtcm_frame(pre + inner + bytes(rng.randrange(256) for _ in range(rng.choice([0, 1, 4]))))
    if kind == 'M':   # corrupted outer frame with valid frames inside: resync has to find them
        inner = b''.join(rtcm_msg(rng, rng.choice(MSGNUMS), rng.choice(SIZES[:8])) for _ in range(rng.choice([1, 2, 3])))
        pre = bytes(rng.randrange(256) for _ in range(rng.choice([0, 1, 3])))
        m = bytearray(rtcm_frame(pre + inner + bytes(rng.choice([0, 2]))))
        m[-1] ^= 0x55
        return bytes(m)
    if kind == 'H':   # false header announcing a long frame
        return bytes([0xD3, rng.choice([0x03, 0x02, 0xFF, 0x01]), rng.choice([0xFF, 0x00, 0x80])])
    if kind == 'F':   # interleaved FusionEngine message (may contain 0xD3 bytes)
        return gen.token(rng, rng.choice('VVUZW'), seqs)
    if kind == 'J':
        return bytes(rng.choice([rng.randrange(256), rng.randrange(256), 0xD3, 0x00]) for _ in range(rng.choice([1, 2, 3, 7, 20])))
    if kind == 'X':   # reserved bits set: the framer masks them, the CRC covers them
        return rtcm_frame(bytes(rng.randrange(256) for _ in range(rng.choice(SIZES[:10]))), reserved=rng.choice([1, 0x3F, 0x20]))
    if kind == 'D':   # frame sized around the capacity of this case
        n = max(0, min(1023, cap - 6 + rng.choice([-2, -1, 0, 0, 1, 2, 3, 4])))
        return rtcm_msg(rng, rng.choice(MSGNUMS), n)
    raise ValueError(kind)


def make_stream(rng, ntok, cap, alphabet=TOKENS):
    seqs = {'n': rng.choice([0, 7])}
    kinds = [rng.choice(alphabet) for _ in range(ntok)]
    return b''.join(token(rng, k, cap, seqs) for k in kinds), ''.join(kinds)


CAPS = [6, 7, 8, 9, 10, 11, 12, 13, 16, 19, 25, 31, 48, 64, 100, 208, 300, 520, 1028, 1029, 1030, 1032, 1033, 1500, 2048]


def pick_spec(rng):
    return rng.choice(['i', 'i', 'u0', 'u1', 'u2', 'u3', 'u1', 'u2', 'u3', 'u5', 'u6', 'u7'])


def chunkings(rng, data, thorough):
    n = len(data)
    res = [[data]]
    if n <= 700 or thorough:
        res.append([data[i:i + 1] for i in range(n)])
    for _ in range(3 if thorough else 1):
        cuts = sorted(rng.randrange(n + 1) for _ in range(rng.choice([1, 2, 5, 9]))) if n else []
        parts, prev = [], 0
        for c in cuts + [n]:
            parts.append(data[prev:c])
            prev = c
        res.append(parts)
    k = rng.choice([2, 3, 5, 6, 7, 64])
    res.append([data[i:i + k] for i in range(0, n, k)])
    return res


def with_resets(rng, chunks):
    """Insert Reset()/WarnOnError()/SetBuffer() at random points."""
    ops = []
    for c in chunks:
        ops.append(c.hex() or '-')
        r = rng.random()
        if r < 0.25:
            ops.append('R')
        elif r < 0.32:
            ops.append(rng.choice('Qq'))
        elif r < 0.40:
            ops.append('B%s:%d' % (rng.choice(['i', 'u0', 'u1', 'u2', 'u3']), rng.choice([0, 3, 5, 6, 7, 9, 30, 200, 1100])))
    return ops


def interleave(rng, counts):
    """A random schedule over framers with `counts[i]` operations each: digit i = next operation of framer i.  Mostly
    fine-grained alternation (runs of 1-3 operations), so that the framers are in the middle of frames at the same time."""
    left = list(counts)
    out = []
    while any(left):
        i = rng.choice([k for k, c in enumerate(left) if c])
        r = min(left[i], rng.choice([1, 1, 1, 2, 3]))
        out.append(str(i) * r)
        left[i] -= r
    return ''.join(out)


def fine_chunks(rng, data):
    """Divisions with boundaries inside frames: bytewise, small fixed blocks, random small pieces."""
    how = rng.randrange(4)
    if how == 0 and len(data) <= 700:
        return [data[i:i + 1] for i in range(len(data))]
    if how <= 1:
        k = rng.choice([2, 3, 5, 6, 7, 11])
        return [data[i:i + k] for i in range(0, len(data), k)]
    parts, i = [], 0
    while i < len(data):
        k = rng.choice([1, 2, 3, 4, 5, 8, 13, 30, 100])
        parts.append(data[i:i + k])
        i += k
    return parts


def multi_case(j, rng, thorough):
    """2-3 framers alive at once: different streams, capacities and buffer kinds, operations interleaved."""
    n = rng.choice([2, 2, 2, 3])
    parts, kinds_all = [], []
    for _ in range(n):
        cap = rng.choice(CAPS) if rng.random() < 0.8 else rng.randrange(6, 2049)
        data, kinds = make_stream(rng, rng.choice([1, 2, 3, 4, 6]), cap, alphabet='VVVVZCTSNMHJXD')
        ch = fine_chunks(rng, data)
        ops = with_resets(rng, ch) if rng.random() < 0.25 else [c.hex() or '-' for c in ch]
        parts.append((pick_spec(rng), cap, ops))
        kinds_all.append(kinds)
    j.add_multi(parts, interleave(rng, [len(o) for _, _, o in parts]), '+'.join(kinds_all))


# ---- running the implementation ---------------------------------------------------------------------------------
def compile_harness(ctx):
    exe = os.path.join(fv.BUILD, 'c14_harness')
    src = os.path.join(fv.VERIF, 'cxx', 'c14_harness.cc')
    rsrc = os.path.join(fv.REPO, 'src')
    cmd = ['clang++', '-std=c++14', '-O1', '-g', '-Wall', '-fsanitize=address,undefined', '-fno-sanitize-recover=all',
           '-I' + rsrc, src, os.path.join(rsrc, 'point_one', 'rtcm', 'rtcm_framer.cc'),
           os.path.join(rsrc, 'point_one', 'fusion_engine', 'common', 'logging.cc'), '-o', exe]
    rc, out = fv.sh(cmd, timeout=300)
    if rc != 0:
        raise fv.InfraError('harness does not compile: ' + out[-1500:])
    warn = [l for l in out.split('\n') if 'warning:' in l and 'rtcm_framer' in l]
    if warn:
        ctx.notes.append('compiler warnings in rtcm_framer: ' + '; '.join(warn[:5]))
    return exe


def run_harness(exe, lines):
    """Returns a list of (answer text or None, sanitizer report or None) per request line."""
    res = [None] * len(lines)
    start = 0
    env = dict(os.environ, ASAN_OPTIONS='detect_leaks=1:abort_on_error=0:allocator_may_return_null=1',
               UBSAN_OPTIONS='print_stacktrace=1')
    while start < len(lines):
        p = subprocess.run([exe], input='\n'.join(lines[start:]) + '\n', stdout=subprocess.PIPE, stderr=subprocess.PIPE,
                           text=True, env=env, timeout=1200)
        outs = p.stdout.split('\n')
        if outs and outs[-1] == '':
            outs.pop()
        for i, o in enumerate(outs[:len(lines) - start]):
            res[start + i] = (o, None)
        done = start + min(len(outs), len(lines) - start)
        if done >= len(lines):
            if p.returncode != 0:
                # every request was answered; the report is about process exit (e.g. a leak)
                res[len(lines) - 1] = (res[len(lines) - 1][0], excerpt(p.stderr) or 'exit code %d' % p.returncode)
            break
        # the request at index `done` killed the process
        res[done] = (None, excerpt(p.stderr) or 'exit code %d without a report' % p.returncode)
        start = done + 1
    return res


def excerpt(stderr):
    """The head of the sanitizer report (kind of error, access, first stack), without the shadow-byte dump."""
    i = stderr.find('==ERROR')
    if i < 0:
        i = max(0, stderr.find('runtime error') - 200)
    return stderr[i:i + 3000]


def sanitizer_kind(report):
    m = re.search(r'AddressSanitizer: ([a-zA-Z-]+)', report)
    if m:
        return m.group(1)
    if 'runtime error' in report:
        m = re.search(r'runtime error: ([a-z -]+?)( of| for| to|:|$)', report)
        return 'ubsan-' + (m.group(1).strip().replace(' ', '-') if m else 'error')
    if 'LeakSanitizer' in report:
        return 'leak'
    return 'crash'


# ---- judging one request ------------------------------------------------------------------------------------------
def parse_records(text):
    recs = []
    for r in text.split(';'):
        f = r.split('|')
        if f[0] == 'D':
            cbs = [tuple(int(x) for x in c.split(':')) for c in f[1].split('/')] if f[1] else []
            recs.append({'op': 'D', 'cbs': cbs, 'ret': int(f[2]), 'st': [int(x) for x in f[3:]]})
        else:
            recs.append({'op': f[0], 'st': [int(x) for x in f[1:]]})
    return recs


def segments(spec, capacity, ops, recs):
    """Split the operation list where the framer forgets its history (Reset, successful SetBuffer).
    Yields (capacity_bytes_ in force, bytes fed, callbacks made, records of the segment)."""
    cur = {'cap': recs[0]['st'][1], 'has': recs[0]['st'][0], 'data': b'', 'cbs': [], 'recs': []}
    out = []
    for op, rec in zip(ops, recs[1:]):
        if rec['op'] == 'D':
            cur['data'] += b'' if op == '-' else bytes.fromhex(op)
            cur['cbs'] += rec['cbs']
            cur['recs'].append(rec)
        elif rec['op'] == 'R' or (rec['op'] == 'B' and int(op.split(':')[1]) >= 6):
            out.append(cur)
            cur = {'cap': rec['st'][1], 'has': rec['st'][0], 'data': b'', 'cbs': [], 'recs': []}
        # Q/q and a refused SetBuffer change nothing
    out.append(cur)
    return out


def expected_capacity(spec_or_op, requested, got, has):
    """capacity_bytes_ for a buffer request: what the documentation promises."""
    if spec_or_op == 'n':
        return has == 0
    if spec_or_op.startswith('i'):
        return True     # checked by the caller (constructor adds 3, SetBuffer does not)
    k = int(spec_or_op[1:])
    return has == 1 and got == requested - ((-k) % 4)


class Judge:
    def __init__(self, ctx):
        self.ctx = ctx
        self.lines = []      # driver requests
        self.pending = []

    def add(self, spec, capacity, ops, tokens=''):
        self.pending.append({'spec': spec, 'capacity': capacity, 'ops': ops, 'tokens': tokens})

    def add_multi(self, parts, sched, tokens=''):
        """Several framer objects alive in one process, their operations interleaved as `sched` says (digit i = the
        next operation of framer i).  parts = [(spec, capacity, ops)].  Each framer is judged exactly as if it were alone
        (model, scan, direct statements), and its answer must equal that of the same framer run on its own."""
        parts = [{'spec': sp, 'capacity': c, 'ops': list(o)} for sp, c, o in parts]
        self.pending.append({'multi': {'parts': parts, 'sched': sched}, 'tokens': tokens})
        for q in parts:   # the same framers, each alone in its request
            self.pending.append(dict(q, tokens=tokens, companion=True))

    def run(self, exe):
        ctx = self.ctx

        def single(q):
            return '%s %d %s' % (q['spec'], q['capacity'], ','.join(q['ops']) or '=')
        # requests to the harness (one per pending entry) and units (one per framer object)
        hreqs, units = [], []
        for n, p in enumerate(self.pending):
            if 'multi' in p:
                m = p['multi']
                hreqs.append('M %d %s %s' % (len(m['parts']), m['sched'] or '-', ' '.join(single(q) for q in m['parts'])))
                for k, q in enumerate(m['parts']):
                    units.append((n, k, dict(q, tokens=p['tokens'], multi=dict(m, unit=k))))
            else:
                hreqs.append(single(p))
                units.append((n, None, p))
        hres = run_harness(exe, hreqs)
        reqs = [single(p) for _, _, p in units]
        model = ctx.driver(['rtcm ' + r for r in reqs])
        impl = []
        alone = {}
        for (n, k, p) in units:
            ans, rep = hres[n]
            if k is None:
                impl.append((ans, rep))
                if ans is not None and rep is None:
                    alone[single(p)] = ans
            else:
                texts = ans.split('\t') if ans is not None else []
                a = texts[k] if len(texts) == len(p['multi']['parts']) else None
                if ans is not None and a is None:
                    raise fv.InfraError('harness answered %d texts for %d framers: %s' % (len(texts), len(p['multi']['parts']), ans[:200]))
                impl.append((a, rep if k == 0 else None))    # a sanitizer report is filed once per request
                if a is None and k > 0:
                    impl[-1] = (None, 'skip')
        scan_reqs, scan_idx = [], []
        parsed = [None] * len(units)
        for i, ((n, k, p), (ans, rep)) in enumerate(zip(units, impl)):
            replay = dict(p)
            if rep == 'skip':
                continue
            if rep is not None:
                kind = sanitizer_kind(rep)
                ctx.violation('C14/sanitizer-' + kind, 'sanitizer report while running `%s` (%d operations): %s'
                              % (hreqs[n][:60], len(p['ops']), ' | '.join(x.strip() for x in rep.strip().split('\n')[:4])[:500]),
                              dict(replay, sanitizer_report=rep))
                if any(r['st'][-1] for r in parse_records(model[i])):
                    ctx.count('model_fault_flag_set_on_sanitizer_report')
                if ans is None:
                    continue
            text, _, extra = ans.partition(' ')
            if extra != 'ok':
                ctx.violation('C14/' + extra.split(',')[0], 'harness complaint: ' + extra, replay)
            if text != model[i]:
                ctx.disagree('framer != model for `%s %d`%s: impl=%s model=%s'
                             % (p['spec'], p['capacity'], '' if k is None else ' (framer %d of %d alive at the same time)' % (k, len(p['multi']['parts'])),
                                first_diff(text, model[i]), first_diff(model[i], text)), replay)
            if k is not None:
                ctx.count('framers_run_next_to_another')
                solo = alone.get(reqs[i])
                if solo is not None and solo != ans:
                    ctx.violation('C14/framer-depends-on-another-instance',
                                  'framer %d of %d framers alive at the same time (`%s %d`, operations interleaved %s) answers %s; the same '
                                  'framer with the same operations alone in the process answers %s'
                                  % (k, len(p['multi']['parts']), p['spec'], p['capacity'], p['multi']['sched'][:40],
                                     first_diff(ans, solo), first_diff(solo, ans)), replay)
            ctx.cov['traces_validated_against_impl'] += 1
            recs = parse_records(text)
            if len(recs) != len(p['ops']) + 1:
                raise fv.InfraError('harness answered %d records for %d operations' % (len(recs), len(p['ops'])))
            segs = segments(p['spec'], p['capacity'], p['ops'], recs)
            if rep is None:
                parsed[i] = segs
            for kk, sg in enumerate(segs):
                if sg['has']:
                    scan_reqs.append('rtcmscan %d %s' % (sg['cap'], sg['data'].hex() or '-'))
                    scan_idx.append((i, kk))
            self.direct_checks(p, recs, replay)
        scans = ctx.driver(scan_reqs)
        for (i, kk), sc in zip(scan_idx, scans):
            if parsed[i] is None:
                continue
            self.oracle(units[i][2], parsed[i][kk], sc)
        for i, (n, k, p) in enumerate(units):
            if parsed[i] is None or p.get('companion'):
                continue
            n_cb = sum(len(sg['cbs']) for sg in parsed[i])
            err = any(r['st'][6] for sg in parsed[i] for r in sg['recs'][-1:])
            ctx.case(reqs[i] if k is None else '%d@%s' % (k, hreqs[n]), nontrivial=bool(n_cb) or err)
            ctx.count('callbacks', n_cb)
            if n_cb and len(ctx.cov['samples']) < 4 and len(reqs[i]) < 400 and k is None:
                ctx.sample({'request': reqs[i], 'impl_and_model': impl[i][0]})
        self.pending = []

    def direct_checks(self, p, recs, replay):
        """Statements of the property that need no scan."""
        ctx = self.ctx
        spec, cap = p['spec'], p['capacity']
        st0 = recs[0]['st']
        if spec == 'i':
            ok = (st0[0] == 0) if cap + 3 < 6 else (st0[0] == 1 and cap <= st0[1] <= cap + 3)
        elif spec == 'n':
            ok = st0[0] == 0
        else:
            ok = (st0[0] == 0) if cap < 6 else expected_capacity(spec, cap, st0[1], st0[0])
        if not ok:
            ctx.violation('C14/capacity-after-construction', 'spec %s capacity %d: buffer=%d capacity_bytes_=%d' % (spec, cap, st0[0], st0[1]), replay)
        decoded = 0
        for op, rec in zip(p['ops'], recs[1:]):
            if rec['op'] == 'D':
                decoded += len(rec['cbs'])
                if rec['ret'] != sum(c[1] for c in rec['cbs']):
                    ctx.violation('C14/return-value', 'OnData returned %d, dispatched sizes %s' % (rec['ret'], [c[1] for c in rec['cbs']][:10]), replay)
                    return
                if not rec['st'][0] and (rec['cbs'] or rec['ret']):
                    ctx.violation('C14/dispatch-without-buffer', 'callbacks without a buffer', replay)
            elif rec['op'] == 'R':
                decoded = 0
            elif rec['op'] == 'B':
                c = int(op.split(':')[1])
                if c >= 6:
                    decoded = 0
                    which = op[1:].split(':')[0]
                    good = (rec['st'][0] == 1 and c - 3 <= rec['st'][1] <= c) if which == 'i' else expected_capacity(which, c, rec['st'][1], rec['st'][0])
                    if not good:
                        ctx.violation('C14/capacity-after-SetBuffer', '%s: buffer=%d capacity_bytes_=%d' % (op, rec['st'][0], rec['st'][1]), replay)
            if rec['st'][5] != decoded % (1 << 32):
                ctx.violation('C14/decoded-count', 'GetNumDecodedMessages() = %d after %d callbacks since Reset' % (rec['st'][5], decoded), replay)
                return
            if rec['st'][0] and not (rec['st'][3] <= rec['st'][1]):
                ctx.violation('C14/next-index-beyond-capacity', 'next_byte_index_ %d capacity %d' % (rec['st'][3], rec['st'][1]), replay)

    def oracle(self, p, sg, scan_out):
        ctx = self.ctx
        msgs, restlen, off = scan_out.split('|')
        want = [tuple(int(x) for x in m.split(':')) for m in msgs.split(',')] if msgs else []
        got = sg['cbs']
        replay = dict(p, segment_stream=sg['data'].hex(), capacity_bytes=sg['cap'])
        w3 = [(t, n, h) for (_, n, t, h) in want]
        if got != w3:
            gl, wl = [c[1] for c in got], [c[1] for c in w3]
            if gl != wl:
                kind = 'missing-frame' if len(gl) < len(wl) else ('extra-frame' if len(gl) > len(wl) else 'different-frames')
            elif [c[2] for c in got] != [c[2] for c in w3]:
                kind = 'wrong-bytes'
            else:
                kind = 'wrong-message-number'
            ctx.violation('C14/callbacks-differ-from-scan/' + kind,
                          'capacity_bytes_=%d, %d stream bytes: framer dispatched (type,len) %s, the scan accepts (offset,len,type) %s'
                          % (sg['cap'], len(sg['data']), [c[:2] for c in got][:12], [(o, n, t) for (o, n, t, _) in want][:12]), replay)
            return
        # the bytes are those of the stream at the accepted offsets (computed here, not in Lean)
        for (o, n, t, h) in want:
            fr = sg['data'][o:o + n]
            if fnv64(fr) != h or (n >= 5 and t != ((fr[3] << 8 | fr[4]) >> 4)):
                raise fv.InfraError('scan digest / message number differs from the Python computation')
            if fr[0] != 0xD3 or ((fr[1] & 3) << 8 | fr[2]) + 6 != n or crc24q(fr[:-3]) != int.from_bytes(fr[-3:], 'big') or n > sg['cap']:
                raise fv.InfraError('the scan accepted something that is not a CRC-valid frame')
        # pending bytes: what the framer still holds is the unjudged tail (minus leading non-preamble bytes)
        if sg['recs']:
            st = sg['recs'][-1]['st']
            tail = sg['data'][int(off):]
            i = 0
            while i < len(tail) and tail[i] != 0xD3:
                i += 1
            if st[3] != len(tail) - i:
                ctx.violation('C14/pending-bytes', 'framer holds %d bytes, the scan has %d unjudged (after skipping non-preamble bytes)'
                              % (st[3], len(tail) - i), replay)


def first_diff(a, b):
    i = 0
    while i < min(len(a), len(b)) and a[i] == b[i]:
        i += 1
    return '...' + a[max(0, i - 40):i + 60]


# ---- long runs: one framer object, tens of thousands of frames, no Reset (or one in the middle) -------------------
XS_MUL = 0x2545F4914F6CDD1D
LONG_WINDOW = 200        # items per report / per scan request (the Lean scan is quadratic in the stream length)


def xs_picks(seed, n_alphabet, count):
    """xorshift64* as in cxx/c14_harness.cc (struct XorShift): the item indices of a long run."""
    x, out = seed, []
    for _ in range(count):
        x ^= x >> 12
        x ^= (x << 25) & M64
        x ^= x >> 27
        out.append((((x * XS_MUL) & M64) >> 32) % n_alphabet)
    return out


def long_cap_bytes(spec, cap):
    return cap + 3 if spec == 'i' else cap - ((-int(spec[1:])) % 4)


def scan_idle(data, scan_out):
    """True when the scan has judged every byte (nothing but non-preamble bytes after its offset)."""
    off = int(scan_out.split('|')[2])
    return 0xD3 not in data[off:]


def long_alphabet(ctx, rng, spec, cap):
    """At most 16 short items (repeats = weights), about 7 of 8 picks a valid frame.  Every item on its own is judged
    completely by the scan at this capacity (no pending candidate at its end), so that reports can be asked for at any
    item boundary; items that are not (e.g. a stray preamble when the buffer could hold the 774-byte frame it seems to
    announce) are left out.  Returns (items, frames the scan accepts in each)."""
    cb = long_cap_bytes(spec, cap)
    z = rtcm_frame(b'')
    valid = [z, rtcm_msg(rng, rng.choice(MSGNUMS), rng.choice([0, 1, 2])), rtcm_msg(rng, rng.choice(MSGNUMS), rng.choice([2, 3, 4])),
             rtcm_frame(bytes(rng.randrange(256) for _ in range(rng.choice([0, 1, 2]))), reserved=rng.choice([1, 0x3F, 0x20]))]
    bad = bytearray(rng.choice(valid))
    bad[-1 - rng.randrange(3)] ^= 1 << rng.randrange(8)
    hdr = bytearray(rng.choice(valid))
    hdr[rng.choice([1, 2])] ^= 1 << rng.randrange(8)
    other = [bytes(bad), bytes(hdr), b'\xd3' + rng.choice(valid), b'\xd3\xd3\xd3' + z, b'\xd3\xff\xff', b'\xd3\xff\xff' + z,
             bytes(rng.choice([0, 1, 0x55, 0xD2, 0xFF, rng.randrange(256)]) for _ in range(rng.choice([1, 2, 3, 7]))),
             b'\xd3\x00\x01' + bytes([rng.randrange(0xD3)]) + b'\x00\x00\x00', bytes(bad) + z, z[:rng.randrange(1, 6)] + z]
    cands = valid + other
    scans = ctx.driver(['rtcmscan %d %s' % (cb, c.hex()) for c in cands])
    keep = [(c, len([m for m in sc.split('|')[0].split(',') if m])) for c, sc in zip(cands, scans) if scan_idle(c, sc)]
    v = [x for x in keep if x[0] in valid and x[1] == 1]
    o = [x for x in keep if x[0] not in valid]
    if not v:
        raise fv.InfraError('no valid minimal frame fits capacity %d' % cb)
    rng.shuffle(o)
    o = o[:2]
    items = o + [v[i % len(v)] for i in range(16 - len(o))]
    rng.shuffle(items)
    return [c for c, _ in items], [k for _, k in items]


def make_long(ctx, rng, spec, cap, frames, reset_frames=(), marks=()):
    """A long run that reaches `frames` accepted frames; Reset() after about `reset_frames` frames; reports every
    LONG_WINDOW items and when the count reaches each of `marks`."""
    if long_cap_bytes(spec, cap) < 6:
        cap += 4
    items, per = long_alphabet(ctx, rng, spec, cap)
    seed, chunkseed = rng.randrange(1, 1 << 63), rng.randrange(1, 1 << 63)
    picks = xs_picks(seed, len(items), frames * 2 + 64)
    cum, total = [0], 0
    for k in picks:
        total += per[k]
        cum.append(total)
        if total >= frames:
            break
    n_items = len(cum) - 1
    import bisect
    ev = {n: False for n in range(LONG_WINDOW, n_items, LONG_WINDOW)}
    ev[n_items] = False
    for m in marks:
        if 0 < m <= total:
            ev.setdefault(bisect.bisect_left(cum, m), False)
    for m in reset_frames:
        if 0 < m < total:
            ev[bisect.bisect_left(cum, m)] = True
    events = ['%s%d' % ('R' if ev[n] else '', n) for n in sorted(ev) if n > 0]
    return {'spec': spec, 'capacity': cap, 'seed': seed, 'chunkseed': chunkseed,
            'maxchunk': rng.choice([1, 5, 6, 7, 64, 300, 4096]), 'events': events, 'items': [c.hex() for c in items]}


def long_line(q):
    return 'L %s %d %d %d %d %s %s' % (q['spec'], q['capacity'], q['seed'], q['chunkseed'], q['maxchunk'], ','.join(q['events']), ':'.join(q['items']))


def judge_long(ctx, exe, qs):
    """Runs the long requests and judges every report against the scan of the generated stream.  The stream is scanned by
    the Lean specification window by window (one window per report); a window boundary is only used when the scan of the
    window has judged every byte of it, so the scan of the whole stream is the concatenation of the window scans."""
    if not qs:
        return
    hres = run_harness(exe, [long_line(q) for q in qs])
    frame_ok, todo = {}, []
    for q, (ans, rep) in zip(qs, hres):
        replay = {'long': q, 'tokens': 'long'}
        line = long_line(q)
        if rep is not None:
            ctx.violation('C14/sanitizer-' + sanitizer_kind(rep), 'sanitizer report while running `%s`: %s'
                          % (line[:60], ' | '.join(x.strip() for x in rep.strip().split('\n')[:4])[:500]), dict(replay, sanitizer_report=rep))
        if ans is None:
            continue
        text, _, extra = ans.partition(' ')
        if text == 'bad-args':
            raise fv.InfraError('harness refuses ' + line[:200])
        if extra != 'ok':
            ctx.violation('C14/' + extra.split(',')[0], 'harness complaint in a long run: ' + extra, replay)
        recs = [r.split('|') for r in text.split(';')]
        st0 = [int(x) for x in recs[0][1:]]
        cb = long_cap_bytes(q['spec'], q['capacity'])
        if st0[0] != 1 or (st0[1] != cb and not (q['spec'] == 'i' and q['capacity'] <= st0[1] <= cb)):
            ctx.violation('C14/capacity-after-construction', 'spec %s capacity %d: buffer=%d capacity_bytes_=%d' % (q['spec'], q['capacity'], st0[0], st0[1]), replay)
            continue
        cb = st0[1]
        items = [bytes.fromhex(x) for x in q['items']]
        evs = [(e.startswith('R'), int(e.lstrip('R'))) for e in q['events']]
        if len(recs) != len(evs) + 1:
            raise fv.InfraError('harness answered %d records for %d events' % (len(recs) - 1, len(evs)))
        picks = xs_picks(q['seed'], len(items), evs[-1][1])
        windows, prev = [], 0
        for _, n in evs:
            windows.append(b''.join(items[k] for k in picks[prev:n]))
            prev = n
        todo.append((q, replay, line, cb, evs, windows, recs))
    # one driver call for the windows of all runs (the driver spreads request lines over processes)
    all_scans = ctx.driver(['rtcmscan %d %s' % (cb, w.hex() or '-') for (_, _, _, cb, _, windows, _) in todo for w in windows])
    pos = 0
    for (q, replay, line, cb, evs, windows, recs) in todo:
        scans = all_scans[pos:pos + len(windows)]
        pos += len(windows)
        tot = since = lens = 0
        digest = FNV_OFF
        fed = 0
        for (reset, n), w, sc, rec in zip(evs, windows, scans, recs[1:]):
            if not scan_idle(w, sc):
                raise fv.InfraError('long run: the scan has a pending candidate at an item boundary (item %d)' % n)
            for m in sc.split('|')[0].split(','):
                if not m:
                    continue
                o, ln, t, h = (int(x) for x in m.split(':'))
                fr = w[o:o + ln]
                if fr not in frame_ok:
                    frame_ok[fr] = (fnv64(fr), fr[0] == 0xD3 and ((fr[1] & 3) << 8 | fr[2]) + 6 == ln == len(fr)
                                    and crc24q(fr[:-3]) == int.from_bytes(fr[-3:], 'big'))
                if frame_ok[fr] != (h, True) or ln > cb or (ln >= 5 and t != ((fr[3] << 8 | fr[4]) >> 4)):
                    raise fv.InfraError('the scan accepted something that is not a CRC-valid frame (long run)')
                for x in (t, ln, h):
                    digest = ((digest ^ x) * FNV_PRIME) & M64
                tot += 1
                since += 1
                lens += ln
            fed += len(w)
            if reset:
                since = 0
            g = [int(x) for x in rec[1:]]
            g_items, g_cbs, g_since, g_ret, g_len, g_digest, st = g[0], g[1], g[2], g[3], g[4], g[5], g[6:]
            where = 'after %d items (%d bytes, pieces of 1..%d bytes, capacity_bytes_=%d%s)' % (n, fed, q['maxchunk'], cb, ', Reset() just called' if reset else '')
            rp = dict(replay, event=('R' if reset else '') + str(n))
            if rec[0] != ('R' if reset else 'K') or g_items != n:
                raise fv.InfraError('long run: report %s for event %s%d' % (rec[:2], 'R' if reset else '', n))
            if g_cbs != tot or g_digest != digest or g_len != lens:
                kind = 'missing-frame' if g_cbs < tot else 'extra-frame' if g_cbs > tot else 'different-frames'
                ctx.violation('C14/callbacks-differ-from-scan/' + kind,
                              'long run %s: %d callbacks (lengths sum %d, digest %d); the scan accepts %d frames (lengths sum %d, digest %d)'
                              % (where, g_cbs, g_len, g_digest, tot, lens, digest), rp)
                break
            if g_ret != lens:
                ctx.violation('C14/return-value', 'long run %s: OnData() returns sum to %d, dispatched sizes sum to %d' % (where, g_ret, lens), rp)
                break
            if g_since != since:
                raise fv.InfraError('long run: harness counts %d callbacks since Reset, expected %d' % (g_since, since))
            if st[5] != since % (1 << 32):
                ctx.violation('C14/decoded-count', 'long run %s: GetNumDecodedMessages() = %d after %d callbacks since %s (%d frames accepted by the scan)'
                              % (where, st[5], g_since, 'Reset' if since != tot or reset else 'construction', since), rp)
                break
            if st[3] != 0 or st[2] != 0:
                ctx.violation('C14/pending-bytes', 'long run %s: framer holds %d bytes in state %d, the scan has judged every byte' % (where, st[3], st[2]), rp)
                break
            if st[3] > st[1]:
                ctx.violation('C14/next-index-beyond-capacity', 'next_byte_index_ %d capacity %d' % (st[3], st[1]), rp)
                break
        else:
            ctx.cov['traces_validated_against_impl'] += 1
        ctx.case(line, nontrivial=tot > 0)
        ctx.count('callbacks', tot)
        ctx.count('long_run_frames', tot)
        ctx.count('long_runs')
        if any(r for r, _ in evs):
            ctx.count('long_runs_with_reset')


def long_runs(ctx, exe, rng, thorough):
    P16 = 1 << 16
    marks = [1, 255, 256, 257, (1 << 15) - 1, 1 << 15, (1 << 15) + 1, P16 - 1, P16, P16 + 1, P16 + 256, (1 << 17) - 1, 1 << 17, (1 << 17) + 1]
    caps = [6, 7, 9, 12, 13, 16, 25, 31, 64, 100, 300, 520, 700]
    qs = [make_long(ctx, rng, pick_spec(rng), rng.choice(caps), 70000, marks=marks),
          # Reset() in the middle: the count restarts and is the number of callbacks since then
          make_long(ctx, rng, pick_spec(rng), rng.choice(caps), 70000 + 36000, reset_frames=[rng.choice([36000, 34000 + rng.randrange(2000)])], marks=marks)]
    if thorough:
        qs.append(make_long(ctx, rng, 'i', 1029, (1 << 17) + 3000, marks=marks))
        qs.append(make_long(ctx, rng, pick_spec(rng), rng.choice(caps), (1 << 17) + 70000, reset_frames=[P16 + rng.randrange(5), (1 << 17) + 10], marks=marks))
        for _ in range(4):
            qs.append(make_long(ctx, rng, pick_spec(rng), rng.choice(caps + [1029, 2048]), rng.choice([P16 + 300, 70000, (1 << 17) + 300]),
                                reset_frames=rng.choice([[], [rng.randrange(1, P16)], [P16, P16 + 1]]), marks=marks))
    judge_long(ctx, exe, qs)
    return qs


# ---- case generation -------------------------------------------------------------------------------------------------
def table_check(ctx):
    """The literal table of the source against this file's own polynomial computation (concrete witness for a
    damaged table; the Lean theorem C14_crc24_table_correct states the same for the generated file)."""
    try:
        vals, consts, _ = c14_crc_extract.generate(fv.REPO, fv.LEAN)
    except c14_crc_extract.ExtractError as e:
        ctx.proof_failures.append('translator: %s' % e)
        return
    if c14_crc_extract.HOW['table'] != 'literal':
        ctx.notes.append('CRC table obtained by ' + c14_crc_extract.HOW['table'])
    want = crc24q_table()
    bad = [i for i in range(min(len(vals), 256)) if vals[i] != want[i]]
    if len(vals) != 256 or bad:
        i = bad[0] if bad else 0
        data = bytes([i])
        ctx.violation('C14/crc-table-entry', 'RTCM_CRC24Q has %d entries; entry %d is 0x%06X, polynomial 0x1864CFB gives 0x%06X'
                      % (len(vals), i, vals[i] if i < len(vals) else -1, want[i]),
                      {'spec': 'i', 'capacity': 64, 'ops': [rtcm_frame(data).hex()], 'table_index': i})
    expect = {'RTCM3_PREAMBLE': 0xD3, 'RTCM_HEADER_BYTES': 3, 'RTCM_CRC_BYTES': 3, 'RTCM_MAX_PAYLOAD': 1023, 'RTCM_LENGTH_MASK': 0x3FF}
    for k, v in expect.items():
        if consts.get(k) != v:
            ctx.notes.append('source constant %s = %s (RTCM 3: %s)' % (k, consts.get(k), v))


def run(ctx, budget):
    rng = ctx.rng
    exe = compile_harness(ctx)
    j = Judge(ctx)
    # CRC agreement on its own: frames of every payload size class, via the crc24 driver command
    crc_lines, crc_data = [], []
    for n in list(range(0, 40)) + [100, 255, 256, 257, 1000, 1026]:
        d = bytes(rng.randrange(256) for _ in range(n))
        crc_lines.append('crc24 ' + (d.hex() or '-'))
        crc_data.append(d)
    for d, o in zip(crc_data, ctx.driver(crc_lines)):
        a, b = o.split('|')
        if int(b) != crc24q(d):
            raise fv.InfraError('Lean crc24q differs from the Python bit-serial CRC-24Q on %s' % d.hex())
        if int(a) != crc24q(d):
            ctx.disagree('CRC-24Q with the source table differs from the polynomial on %s' % d.hex(), {'data': d.hex()})
    # fixed corpus
    f1, f2, z = rtcm_msg(rng, 1005, 19), rtcm_msg(rng, 1077, 60), rtcm_frame(b'')
    corpus = [
        (b'', 'empty'), (b'\xd3', 'preamble'), (b'\xd3\xd3\xd3\xd3\xd3\xd3\xd3\xd3', 'preambles'), (z, 'Z'), (z * 5, 'ZZZZZ'),
        (f1 + f2, 'VV'), (b'\xd3' + f1, 'SV'), (b'\xd3\x00' + f1 + b'\xd3\x00\x00' + f2, 'stray-headers'),
        (b'\xd3\x03\xff' + f1 + f2 + z, 'HVVZ'), (f1[:-1] + bytes([f1[-1] ^ 1]) + f2, 'CV'),
        (rtcm_frame(b'\x00' + f1 + b'\x00'), 'N'), (rtcm_frame(f1 + f2)[:-1] + b'\x00' + z, 'MZ'),
        (bytes(rng.randrange(256) for _ in range(300)), 'rand300'), (rtcm_msg(rng, 4095, 1023), 'max'),
        (rtcm_msg(rng, 1, 1023) * 2, 'maxmax'), (b'\xd3\x00\x02' + f1, 'short-false-header'),
    ]
    for data, name in corpus:
        for spec in ('i', 'u0', 'u1', 'u2', 'u3'):
            for cap in (6, 8, 9, 28, 31, 66, 1029, 1033, 2048):
                j.add(spec, cap, [data.hex() or '-'], name)
                if len(data) < 200:
                    j.add(spec, cap, [data[i:i + 1].hex() for i in range(len(data))], name)
    # tiny and degenerate capacities, every alignment: construction, a frame, a reset
    for cap in range(0, 14):
        for spec in ('i', 'u0', 'u1', 'u2', 'u3', 'n'):
            j.add(spec, cap, [(b'\xd3\x00' + z + b'\xd3\xd3' + z).hex(), 'R', z.hex()], 'tiny')
            j.add(spec, cap, [x.to_bytes(1, 'big').hex() for x in b'\xd3\xd3\x00\xd3\x00\x00' + z[3:]] + ['Bu%d:%d' % (cap % 4, 6 + cap % 5), z.hex()], 'tiny')
    # several framers alive at once, fed alternately: frames with different message numbers and lengths, cut at every
    # position of the header and inside the payload / CRC
    a = [rtcm_msg(rng, m, n) for m, n in ((1005, 19), (1077, 60), (4095, 0), (1, 1), (1230, 2))]
    b = [rtcm_msg(rng, m, n) for m, n in ((1006, 19), (1087, 33), (0, 2), (1127, 1), (1097, 8))]
    sa, sb = b''.join(a), b'\xd3' + b''.join(b)
    for k1, k2 in ((1, 1), (1, 3), (2, 5), (4, 4), (5, 1), (7, 6), (len(sa), len(sb))):
        o1 = [sa[i:i + k1].hex() for i in range(0, len(sa), k1)]
        o2 = [sb[i:i + k2].hex() for i in range(0, len(sb), k2)]
        for s1, c1, s2, c2 in (('i', 1029, 'i', 1029), ('u1', 70, 'i', 48), ('u0', 2048, 'u3', 64)):
            alt = ''.join('01' for _ in range(max(len(o1), len(o2))))
            j.add_multi([(s1, c1, o1), (s2, c2, o2)], alt, 'alternating')
            j.add_multi([(s1, c1, o1), (s2, c2, o2), ('u2', 31, o1)], interleave(rng, [len(o1), len(o2), len(o1)]), 'alternating3')
    j.run(exe)
    # long histories of one framer object (counters, state after tens of thousands of frames)
    for q in long_runs(ctx, exe, rng, ctx.thorough):
        # the first items of each long stream also go through the ordinary path (literal model text per call + scan)
        items = [bytes.fromhex(x) for x in q['items']]
        pre = b''.join(items[k] for k in xs_picks(q['seed'], len(items), 300))
        k = rng.choice([1, 5, 7, 64])
        j.add(q['spec'], q['capacity'], [pre[i:i + k].hex() for i in range(0, len(pre), k)], 'long-prefix')
    # random streams
    for it in range(budget):
        if it % 4 == 0:
            multi_case(j, rng, ctx.thorough)
        cap = rng.choice(CAPS) if rng.random() < 0.8 else rng.randrange(6, 2049)
        spec = pick_spec(rng)
        ntok = rng.choice([1, 2, 3, 4, 6, 9, 14])
        data, kinds = make_stream(rng, ntok, cap)
        for t in kinds:
            ctx.count('token_' + t)
        ctx.count('cap_%s' % ('lt16' if cap < 16 else 'lt128' if cap < 128 else 'lt1029' if cap < 1029 else 'ge1029'))
        ctx.count('buffer_' + ('internal' if spec == 'i' else 'user_mod4_%d' % (int(spec[1:]) % 4)))
        chs = chunkings(rng, data, ctx.thorough)
        if len(data) <= (120 if ctx.thorough else 48):
            chs += [[data[:i], data[i:]] for i in range(len(data) + 1)]
        for ch in chs:
            j.add(spec, cap, [c.hex() or '-' for c in ch], kinds)
        # the same stream with Reset()/SetBuffer()/WarnOnError() in between, and with another capacity
        j.add(spec, cap, with_resets(rng, rng.choice(chs[1:])), kinds)
        cap2 = rng.choice(CAPS)
        j.add(pick_spec(rng), cap2, [c.hex() or '-' for c in chs[0]], kinds)
        if len(j.pending) > 1500:
            j.run(exe)
    j.run(exe)


def search(ctx):
    ctx.notes.append('stage E: widened search')
    run(ctx, 1500)


def check(ctx):
    ctx.cov['rule'] = ('streams of 1-14 tokens over {valid RTCM frame (payload 0..1023), empty-payload frame, frame with one flipped bit, '
                       'truncated frame, stray 0xD3 bytes, frame nested in a valid frame, valid frames inside a corrupted frame, false long '
                       'header, FusionEngine message, junk, reserved bits set, frame sized capacity-2..capacity+4} + a fixed corpus; x '
                       'chunkings (one call, bytewise, random cuts, fixed k, all (prefix,rest) pairs of short streams) x capacities 0..13 '
                       'exhaustively and 6..2048 sampled x buffer {internal, caller buffer at base+0..7 as exact-size heap block} x '
                       'Reset()/SetBuffer()/WarnOnError() at random points; + 2-3 framer objects alive in one process (different '
                       'streams, capacities, buffer kinds), their operations interleaved (strict alternation and random runs of 1-3 '
                       'operations; divisions bytewise / small blocks), each judged as if alone and compared with itself run alone; '
                       '+ long runs of ONE framer object: 70 000 (thorough: up to 2^17 + 70 000) accepted frames without Reset() and with '
                       'Reset() in the middle, stream generated inside the harness from a seed (16 short items: minimal valid frames, '
                       'CRC failures, stray preambles, junk), fed in pieces of 1..k bytes, reports every 200 items and where the count '
                       'reaches 2^8, 2^15, 2^16, 2^17 (+-1): callbacks so far / GetNumDecodedMessages() / sum of OnData() returns / '
                       'digest of all callbacks vs the Lean scan of the same stream; '
                       'real framer under ASan/UBSan vs literal Lean model (text of '
                       'callbacks, return, private state per call) vs the scan Cfg.run cfgRtcm; non-trivial = a callback or an error '
                       'counted; distinct = distinct request line')
    ctx.assumptions += [
        'the compiled framer performs the buffer accesses the model records (validated under ASan/UBSan with exact-size heap buffers, not proved)',
        'operator new returns 4-byte aligned memory (so capacity_bytes_ of an internal buffer is the requested capacity + 3)',
        'a callback is installed and does not re-enter the framer',
        'fewer than 2^32 dispatches between Resets matter only modulo 2^32 (the counter is uint32_t; the theorem is stated modulo 2^32)',
        'long runs: the scan of the whole stream is taken to be the concatenation of the scans of its windows (a window ends only where '
        'the scan has judged every byte of it; each window is scanned by the Lean specification)',
        'table-driven CRC-24Q with the polynomial-derived table is taken as the definition of CRC-24Q; it is compared with a bit-serial '
        'Python implementation on the generated inputs']
    table_check(ctx)
    ctx.prove(MODULES)
    try:
        run(ctx, 6000 if ctx.thorough else 1500)
    except fv.InfraError:
        if not ctx.proof_failures:
            raise
    return fv.finish(ctx, 'proof', search)


def replay(ctx, path):
    obj = json.load(open(path))
    r = obj['input']
    exe = compile_harness(ctx)
    table_check(ctx)
    j = Judge(ctx)
    if r.get('long'):
        judge_long(ctx, exe, [r['long']])
    elif r.get('multi'):
        m = r['multi']
        j.add_multi([(q['spec'], q['capacity'], q['ops']) for q in m['parts']], m['sched'], r.get('tokens', ''))
    else:
        j.add(r['spec'], r['capacity'], r['ops'], r.get('tokens', ''))
    j.run(exe)
    return fv.finish(ctx, 'proof', None)
