"""C15 - time alignment yields equal-length, time-matched series without altering data.

Real code: DataLoader.time_align_data (python/fusion_engine_client/analysis/data_loader.py) called on dicts of
MessageData built from real message objects.  Model/spec: lean/FeVerif/Model/Align.lean through the driver commands
`align` / `alignspec` / `alignseq` / `alignseqspec` / `npunique` / `npisect`.

BOUNDARY SIZES (sized_cases / sized_histories): besides the small grids and random dicts, alignments whose number of result epochs
(INSERT union, DROP intersection) or number of messages of one type is exactly 2^k-1 .. 2^k+2 (k = 7, 8; thorough also 15, 16),
judged by the same oracle (object identity and content at every position) and the same Lean model / spec.

Besides single calls the harness drives HISTORIES on one dict: numeric conversions that keep the messages
(DataLoader.to_numpy(data, keep_messages=True) / MessageData.to_numpy()) before and between one or more
time_align_data() calls with different modes / type lists, also starting from read(time_align=..., return_numpy=...).
Every call of a history is judged on its own: the property (oracle) and the Lean model/spec of ONE alignment applied
to the message lists found immediately before the call (C15_history_refines_spec: a history is nothing but that).

HISTORIES OF read() CALLS ON ONE LOADER (run_read_histories): 2-4 reads with different type lists, alignment modes,
aligned_message_types, return_numpy / keep_messages, return_bytes / return_message_index, ignore_cache, max_messages, with
and without an index file.  Every read of a history is judged on its own by the same oracle and the same Lean model / spec of
ONE alignment, applied to what a loader that never aligns and never serves from its cache reads for the same types: what an
aligning read returns must not depend on how earlier reads left the loader's cache.

DATA READ FROM A FILE IS JUDGED BY ITS WIRE TIMESTAMPS.  Every stage that reads a log (read_case, the read histories, the
directed wire grids) writes the P1 time of every message itself, as the two 32-bit integers (seconds, nanoseconds) of the wire
format, on 1 s / 0.1 s / 1 ms / 1 ns grids, into payloads of every P1-time class the package can decode - the classes and
their timestamp DECODER FAMILY (which functions of messages/timestamp.py a class's unpack() runs) are discovered, not listed.
The abstract time of the Lean model is the wire value seconds * 10^9 + nanoseconds: two messages written with the same wire
timestamp are at the same epoch whatever float each decoder makes of it; an inserted default's time is the wire time of the
real messages whose float it equals exactly (WireClock).  Nothing in these stages assumes that a time is an exactly
representable float.
"""
import enum
import itertools
import json
import os
import struct
import sys

import numpy as np

import canon
import fv

MODULES = ['FeVerif.Props.C15']

GRID = [1.0, 2.0, 3.0, 4.0]          # exactly representable; float == is integer ==
NAN = None                           # an invalid Timestamp (float() gives NaN)


def classes():
    from fusion_engine_client.messages import (PoseMessage, GNSSInfoMessage, PoseAuxMessage, IMUOutput,
                                               EventNotificationMessage, RawIMUOutput, VersionInfoMessage,
                                               GNSSSatelliteMessage)
    p1 = [PoseMessage, GNSSInfoMessage, PoseAuxMessage, IMUOutput, GNSSSatelliteMessage]
    nop1 = [EventNotificationMessage, RawIMUOutput, VersionInfoMessage]
    for c in p1:
        if 'p1_time' not in c().__dict__:
            raise fv.InfraError('%s has no p1_time any more' % c.__name__)
    for c in nop1:
        if 'p1_time' in c().__dict__:
            raise fv.InfraError('%s now has p1_time' % c.__name__)
    return p1, nop1


_BY_NAME = None


def by_name(name):
    global _BY_NAME
    if _BY_NAME is None:
        from fusion_engine_client.messages import message_type_to_class
        p1, nop1 = classes()
        _BY_NAME = {c.__name__: c for c in message_type_to_class.values()}
        _BY_NAME.update({c.__name__: c for c in p1 + nop1})
    return _BY_NAME[name]


def has_p1(cls, cache={}):
    """The selection predicate of the code itself, evaluated on a default instance of the real class."""
    if cls not in cache:
        cache[cls] = 'p1_time' in cls().__dict__
    return cache[cls]


# ---- logs whose P1 times are WIRE values written by the harness --------------------------------------------------------------
# A wire time is the integer seconds * 10^9 + nanoseconds (None: the invalid timestamp 0xFFFFFFFF/0xFFFFFFFF).  The harness puts
# the two 32-bit integers into the payload itself, so what "the same timestamp" means does not pass through any float.
NS = 10 ** 9
MAX_PER_TYPE = 64           # messages of one type in one log (the serial that identifies a message must fit every class)
MAX_WIRE_SEC = 2 ** 20      # below 2^53 ns by far: every decoder formula in use is strictly monotone on these values


class Unknown(object):
    """The time of an entry whose float is the time of no message of the log."""
    def __init__(self, f):
        self.f = f

    def __repr__(self):
        return 'not-a-time-of-the-log(%r)' % self.f


class FileClass(object):
    def __init__(self, cls, p1, off, family, field, setter, getter):
        self.cls, self.p1, self.off, self.family, self.field, self.set_serial, self.get_serial = cls, p1, off, family, field, setter, getter


def _serial_fields(default):
    """Candidate fields to carry a small serial number: (name, setter, getter)."""
    from fusion_engine_client.messages import Timestamp
    for k, v in vars(default).items():
        if k == 'p1_time' or isinstance(v, (bool, enum.Enum)):
            continue
        if isinstance(v, Timestamp):
            yield k, (lambda m, s, k=k: setattr(m, k, Timestamp(1000.0 + s))), (lambda m, k=k: float(getattr(m, k)) - 1000.0)
        elif isinstance(v, (int, np.integer)):
            yield k, (lambda m, s, k=k: setattr(m, k, int(s))), (lambda m, k=k: getattr(m, k))
        elif isinstance(v, float):
            yield k, (lambda m, s, k=k: setattr(m, k, float(s))), (lambda m, k=k: getattr(m, k))
        elif isinstance(v, np.ndarray) and v.dtype.kind == 'f' and v.size:
            def st(m, s, k=k):
                a = getattr(m, k).copy()
                a.flat[0] = float(s)
                setattr(m, k, a)
            yield k, st, (lambda m, k=k: float(getattr(m, k).flat[0]))


def _timestamp_functions_run_by_unpack(cls, payload):
    """Which functions of messages/timestamp.py the class's unpack() runs: the decoder family of the class."""
    import fusion_engine_client.messages.timestamp as tsmod
    tsfile = tsmod.__file__
    seen = set()

    def prof(frame, event, arg):
        if event == 'call' and frame.f_code.co_filename == tsfile:
            seen.add(frame.f_code.co_qualname)
    m = cls()
    sys.setprofile(prof)
    try:
        m.unpack(payload)
    finally:
        sys.setprofile(None)
    return m, seen


_FILE_CLASSES = None


def file_classes():
    """Every message class of the package that can go through a log in these stages, discovered on the real classes:
    a default instance packs and unpacks; some field carries every serial 1..MAX_PER_TYPE through pack()/unpack() exactly (it
    identifies the written message whatever its time decodes to); for a class with p1_time (the code's own predicate) the
    8 bytes of the payload that hold it are located by packing two times and verified by decoding a wire value written
    there.  family: the timestamp functions its unpack() runs, '+'-joined (constructors left out)."""
    global _FILE_CLASSES
    if _FILE_CLASSES is not None:
        return _FILE_CLASSES
    from fusion_engine_client.messages import message_type_to_class, Timestamp
    res = {}
    for _, cls in sorted(message_type_to_class.items(), key=lambda kv: int(kv[0])):
        try:
            d = cls()
            base = d.pack()
            p1 = has_p1(cls)
        except Exception:       # noqa
            continue
        found = None
        for k, st, gt in _serial_fields(d):
            try:
                ok = True
                for sn in range(1, MAX_PER_TYPE + 1):
                    m = cls()
                    st(m, sn)
                    m2 = cls()
                    m2.unpack(m.pack())
                    if not gt(m2) == sn:
                        ok = False
                        break
                v0 = gt(cls())
                if ok and not (v0 == v0 and 1 <= v0 <= MAX_PER_TYPE):
                    found = (k, st, gt)
                    break
            except Exception:       # noqa
                continue
        if found is None:
            continue
        off, family = None, None
        if p1:
            try:
                a, b = cls(), cls()
                a.p1_time, b.p1_time = Timestamp(1.25), Timestamp(2.5)
                ba, bb = a.pack(), b.pack()
                diff = [i for i in range(min(len(ba), len(bb))) if ba[i] != bb[i]]
                if not diff or len(ba) != len(bb) or diff[-1] - (diff[0] - diff[0] % 4) >= 8:
                    continue
                off = diff[0] - diff[0] % 4
                pl = bytearray(base)
                pl[off: off + 8] = struct.pack('<II', 7, 250000000)
                m, fns = _timestamp_functions_run_by_unpack(cls, bytes(pl))
                if float(m.p1_time) != 7.25:
                    continue
                pl[off: off + 8] = struct.pack('<II', 0xFFFFFFFF, 0xFFFFFFFF)
                m = cls()
                m.unpack(bytes(pl))
                if float(m.p1_time) == float(m.p1_time):
                    continue
                family = '+'.join(sorted(f for f in fns if not f.endswith('__init__'))) or 'none'
            except Exception:       # noqa
                continue
        res[cls.__name__] = FileClass(cls, p1, off, family, *found)
    fams = file_families(res)
    if len(fams) < 2:
        raise fv.InfraError('fewer than two timestamp decoder families among the P1-time classes: %s' % sorted(fams))
    _FILE_CLASSES = res
    return res


def file_families(fcs=None):
    """{family: [class names]} of the P1-time classes that can go through a log."""
    fcs = file_classes() if fcs is None else fcs
    fams = {}
    for n, fc in fcs.items():
        if fc.p1:
            fams.setdefault(fc.family, []).append(n)
    return fams


def write_wire_log(path, written, order):
    """written: [[class name, [wire time | None, ...]], ...]; order: for every message of the file the position in `written`
    of its type.  The k-th message of a type carries the serial k (from 1) and, if the class has P1 time, the k-th wire time."""
    from fusion_engine_client.messages import MessageHeader
    fcs = file_classes()
    queues = []
    for name, times in written:
        fc = fcs[name]
        if len(times) > MAX_PER_TYPE:
            raise fv.InfraError('more than %d messages of one type' % MAX_PER_TYPE)
        q = []
        for sn, w in enumerate(times, 1):
            m = fc.cls()
            fc.set_serial(m, sn)
            payload = bytearray(m.pack())
            if fc.p1:
                if w is not None and not (0 <= w < MAX_WIRE_SEC * NS):
                    raise fv.InfraError('wire time %r outside the range of the harness' % (w,))
                payload[fc.off: fc.off + 8] = struct.pack('<II', *((0xFFFFFFFF, 0xFFFFFFFF) if w is None else divmod(w, NS)))
            q.append(bytes(payload))
        queues.append(q)
    with open(path, 'wb') as f:
        for seq, qi in enumerate(order):
            cls = fcs[written[qi][0]].cls
            h = MessageHeader(cls.MESSAGE_TYPE)
            h.message_version = cls().get_version()
            h.sequence_number = seq
            f.write(h.pack(payload=queues[qi].pop(0)))
    return path


class WireClock(object):
    """Message -> abstract time, for one written log.  A message of the log (known by its serial) has the wire time the
    harness wrote for it.  Any other object (a default inserted by the code) has the wire time of the messages of the log whose
    decoded float equals its float exactly - the property asks an inserted message to carry the timestamp of that epoch - and
    Unknown if there is none."""
    def __init__(self, written):
        self.wire = {n: list(ts) for n, ts in written}
        self.floats = {}
        self.problems = []

    def serial(self, m):
        name = type(m).__name__
        fc = file_classes().get(name)
        if fc is None or name not in self.wire:
            return None
        try:
            v = fc.get_serial(m)
            if v == v and v == int(v) and 1 <= int(v) <= len(self.wire[name]):
                return int(v)
        except Exception:       # noqa
            pass
        return None

    def learn(self, messages, complete_for=None):
        """Registers the floats that the decoders made of the wire times (messages: decoded messages of the log, of one type).
        complete_for: the class name if `messages` is to be every written message of that type, in order."""
        for i, m in enumerate(messages):
            sn = self.serial(m)
            if sn is None or (complete_for is not None and sn != i + 1):
                self.problems.append('%s message %d of the unaligned read is not the written message (serial %r)' % (type(m).__name__, i, sn))
                continue
            if not has_p1(type(m)):
                continue
            w = self.wire[type(m).__name__][sn - 1]
            f = float(m.p1_time)
            if (w is None) != (f != f):
                self.problems.append('%s: wire time %r decoded as %r' % (type(m).__name__, w, f))
            elif w is not None and self.floats.setdefault(f, w) != w:
                self.problems.append('the wire times %r and %r decode to the same float %r' % (self.floats[f], w, f))
        if complete_for is not None and len(messages) != len(self.wire.get(complete_for, [])):
            self.problems.append('%s: %d messages written, %d read' % (complete_for, len(self.wire.get(complete_for, [])), len(messages)))

    def of_float(self, f):
        if f != f:
            return None
        return self.floats.get(f, Unknown(f))

    def __call__(self, m):
        if not has_p1(type(m)):
            return None
        sn = self.serial(m)
        if sn is not None:
            return self.wire[type(m).__name__][sn - 1]
        return self.of_float(float(m.p1_time))


GRIDS = [('1s', NS), ('0.1s', NS // 10), ('1ms', NS // 1000), ('1ns', 1)]


def to_wire(types, rng, grid=None, base=None):
    """Maps the small non-negative integers that stand for times in a generated case onto a grid of wire times:
    k -> base + k * step (order and equality preserved).  Returns (types, grid name)."""
    name, step = grid if grid is not None else rng.choice(GRIDS + GRIDS[1:])
    if base is None:
        sec = rng.choice([0, 0, rng.randrange(0, 1000), rng.randrange(0, MAX_WIRE_SEC - 1000)])
        if step == NS:
            ns = rng.choice([0, 0, rng.randrange(0, 10) * (NS // 10), rng.randrange(0, NS)])
        elif step == 1:
            ns = rng.choice([0, rng.randrange(0, NS - 1000)])
        else:
            ns = 0
        base = sec * NS + ns
    out = [[n, [None if t is None else base + abs(int(t)) * step for t in ts]] for n, ts in types]
    return out, name


def count_wire(ctx, written, req=None):
    """Coverage counters of one written log."""
    fcs = file_classes()
    al = [n for n, _ in written if fcs[n].p1 and (req is None or n in req)]
    fams = set(fcs[n].family for n in al)
    ctx.count('file_logs_aligned_types_from_%d_decoder_families' % len(fams))
    ws = [w for n, ts in written if fcs[n].p1 for w in ts if w is not None]
    inexact = sum(1 for w in set(ws) if w % NS % 5 ** 9)         # ns / 10^9 is a dyadic fraction iff 5^9 divides ns
    if inexact:
        ctx.count('file_logs_with_times_that_no_float_represents_exactly')
    ctx.count('file_wire_times_that_no_float_represents_exactly', inexact)


# ---- one case -------------------------------------------------------------------------------------------------------
# case = {'mode': 'drop'|'insert', 'req': None | [class names], 'req_form': 'type'|'class'|'mixed',
#         'types': [[class name, [time|None, ...]], ...]}          (None = invalid P1 time; for classes without P1 time the
#                                                                    entries only give the number of messages)

def tkey(t, scale=1):
    if isinstance(t, Unknown):
        return 'x%r' % t.f
    return 'n' if t is None else str(int(t * scale))


def model_line(cmd, case):
    def ent(name, times):
        cls = by_name(name)
        p = has_p1(cls)
        ts = ','.join(tkey(t, case.get('scale', 1)) if p else 'n' for t in times)
        return '%d:%s:%s' % (int(cls.MESSAGE_TYPE), 'p' if p else 'x', ts)
    req = case['req']
    if req is None:
        r = '*'
    elif not req:
        r = '-'
    else:
        r = ','.join(str(int(by_name(n).MESSAGE_TYPE)) for n in req)
    d = ';'.join(ent(n, ts) for n, ts in case['types']) or '-'
    return '%s %s %s %s' % (cmd, case['mode'], r, d)


def build(case):
    from fusion_engine_client.analysis.data_loader import MessageData
    from fusion_engine_client.messages import Timestamp
    data = {}
    serial = 0
    for name, times in case['types']:
        cls = by_name(name)
        md = MessageData(cls.MESSAGE_TYPE, None)
        p = has_p1(cls)
        for t in times:
            m = cls()
            serial += 1
            if p and t is not None:
                m.p1_time = Timestamp(float(t))
            # make every object's content distinct so that a swapped / copied object is visible in the snapshot
            if 'gps_time' in m.__dict__:
                m.gps_time = Timestamp(1000.0 + serial)
            elif 'system_time_ns' in m.__dict__:
                m.system_time_ns = serial
            else:
                for k, v in vars(m).items():
                    if isinstance(v, np.ndarray) and v.dtype.kind == 'f' and v.size:
                        a = v.copy()
                        a.flat[0] = float(serial)
                        setattr(m, k, a)
                        break
            md.messages.append(m)
        md.num_messages = len(md.messages)
        data[cls.MESSAGE_TYPE] = md
    return data


def ftime(m):
    f = float(m.p1_time)
    return None if f != f else f


def run_impl(case):
    """Runs the real code.  Returns a dict describing everything the oracle and the correspondence need."""
    return call_align(build(case), case)


def call_align(data, case, snap_cache=None, timeof=None):
    """One time_align_data() call on `data` in whatever state it is.  The 'input objects' are the messages listed
    immediately before the call.  snap_cache: {id(object): content snapshot} known to be current (taken after the previous
    call of a history, nothing ran in between).  timeof: message -> abstract time (default: its float; data read from a
    log: its wire time, WireClock)."""
    from fusion_engine_client.analysis.data_loader import DataLoader, TimeAlignmentMode
    keys = list(data.keys())
    mds = [data[k] for k in keys]
    originals = [list(md.messages) for md in mds]            # keeps every input object alive: id() stays meaningful
    ids = [{id(m): i for i, m in enumerate(lst)} for lst in originals]
    if snap_cache:
        snaps = [[snap_cache.get(id(m)) or repr(canon.canon(m)) for m in lst] for lst in originals]
    else:
        snaps = [[repr(canon.canon(m)) for m in lst] for lst in originals]
    meta = [(md.message_type, md.message_class) for md in mds]
    req = case['req']
    if req is not None:
        form = case.get('req_form', 'type')
        r = []
        for i, n in enumerate(req):
            c = by_name(n)
            use_cls = form == 'class' or (form == 'mixed' and i % 2 == 0)
            r.append(c if use_cls else c.MESSAGE_TYPE)
        if case.get('req_container') == 'set':
            r = set(r)
        elif case.get('req_container') == 'tuple':
            r = tuple(r)
        req = r
    mode = TimeAlignmentMode.DROP if case['mode'] == 'drop' else TimeAlignmentMode.INSERT
    err = None
    ret = None
    try:
        ret = DataLoader.time_align_data(data, mode, message_types=req)
    except Exception as e:      # noqa
        err = '%s: %s' % (type(e).__name__, e)
    return {'data': data, 'keys': keys, 'mds': mds, 'originals': originals, 'ids': ids, 'snaps': snaps, 'meta': meta,
            'ret': ret, 'err': err, 'timeof': timeof}


def impl_text(case, r):
    """The result in the driver's answer format."""
    out = []
    timeof = r.get('timeof') or ftime
    for k, (name, _) in enumerate(case['types']):
        cls = by_name(name)
        p = has_p1(cls)
        items = []
        for m in r['mds'][k].messages:
            i = r['ids'][k].get(id(m))
            t = tkey(timeof(m), case.get('scale', 1)) if p else 'n'
            items.append(('o%d@%s' % (i, t)) if i is not None else ('f@%s' % t))
        out.append('%d:%s' % (int(cls.MESSAGE_TYPE), ','.join(items)))
    return ';'.join(out)


def default_snapshot(cls, cache={}):
    if cls not in cache:
        d = cls()
        v = dict(vars(d))
        v.pop('p1_time', None)
        cache[cls] = repr(canon.canon(v))
    return cache[cls]


def oracle(ctx, case, r, prefix='C15/', replay=None, note=''):
    """The property statement, evaluated on the real objects.  Returns True if it holds.  `case` describes the call
    (mode, message_types, the P1 times listed before the call); `replay` is what reproduces it (the whole history)."""
    site = prefix + case['mode']

    def bad(sig, desc):
        ctx.violation(site + '-' + sig, note + desc, case if replay is None else replay)
        return False

    if r['err'] is not None:
        return bad('raised', 'time_align_data raised ' + r['err'])
    data = r['data']
    if r['ret'] is not data:
        return bad('return-not-data', 'the returned object is not the dict passed in')
    if list(data.keys()) != r['keys'] or any(data[k] is not md for k, md in zip(r['keys'], r['mds'])):
        return bad('dict-changed', 'keys / MessageData objects of the dict changed')
    req = case['req']
    aligned = []
    for k, (name, times) in enumerate(case['types']):
        cls = by_name(name)
        md = r['mds'][k]
        if (md.message_type, md.message_class) != r['meta'][k]:
            return bad('entry-meta-changed', '%s: message_type/message_class changed' % name)
        if has_p1(cls) and (req is None or name in req):
            aligned.append(k)
        else:
            # excluded from alignment or lacking P1 time: untouched
            if len(md.messages) != len(r['originals'][k]) or any(a is not b for a, b in zip(md.messages, r['originals'][k])):
                return bad('unaligned-type-modified', '%s (%s) was not to be aligned but its message list changed: %d -> %d entries'
                           % (name, 'no p1_time' if not has_p1(cls) else 'not requested', len(r['originals'][k]), len(md.messages)))
    # no input object was altered, whether it survived or not (results of read() are matched with the reference objects BY
    # content: an entry with altered content has no match and is judged below as an object that is not an original)
    for k, (name, _) in enumerate(case['types'] if not r.get('matched_by_content') else []):
        for i, m in enumerate(r['originals'][k]):
            if repr(canon.canon(m)) != r['snaps'][k][i]:
                return bad('original-content-changed', '%s message %d: field values changed' % (name, i))
    r['content_verified'] = True        # every snapshot in r['snaps'] is the object's content after the call too
    if not aligned:
        return True
    valid_sets = [set(t for t in case['types'][k][1] if t is not None) for k in aligned]
    any_nan = any(t is None for k in aligned for t in case['types'][k][1])
    if case['mode'] == 'drop':
        expect = sorted(set.intersection(*valid_sets))
    else:
        expect = sorted(set.union(*valid_sets))
    all_ids = {}
    for k in range(len(case['types'])):
        for i in r['ids'][k]:
            all_ids[i] = k
    first_len = None
    timeof = r.get('timeof') or ftime
    for k in aligned:
        name, times = case['types'][k]
        cls = by_name(name)
        msgs = r['mds'][k].messages
        got = [timeof(m) for m in msgs]
        for pos, t in enumerate(got):
            if isinstance(t, Unknown):
                # (data read from a log) the entry is no message of the log and its time is the decoded time of none
                return bad('inserted-time-is-no-time-of-the-data', '%s: position %d carries the time %r; no message of the aligned '
                           'types has this time (times of the log, as decoded: %s)'
                           % (name, pos, t.f, sorted(set(f for kk in aligned for f in map(ftime, r['originals'][kk]) if f is not None))[:40]))
        gv = [t for t in got if t is not None]
        if first_len is None:
            first_len = len(msgs)
        elif len(msgs) != first_len:
            return bad('aligned-lengths-differ', '%s has %d entries, %s has %d' % (case['types'][aligned[0]][0], first_len, name, len(msgs)))
        if any(not (a < b) for a, b in zip(gv, gv[1:])):
            return bad('not-ascending', '%s: times %s' % (name, got))
        if gv != expect:
            what = 'times-not-intersection' if case['mode'] == 'drop' else 'times-not-union'
            return bad(what, '%s: times %s, expected %s' % (name, got, expect))
        # NaN (outside the property's quantifier): behaviour pinned to the proved model - DROP never keeps one,
        # INSERT ends every aligned type with exactly one fabricated NaN entry iff some aligned type had one
        nn = len(got) - len(gv)
        want_nn = 1 if (any_nan and case['mode'] == 'insert') else 0
        if nn != want_nn or (nn and got[-1] is not None):
            return bad('nan-entries', '%s: times %s' % (name, got))
        seen = set()
        first_with_time = {}                # time -> index of the first input message with that time (times.index, in one pass)
        for i0, t0 in enumerate(times):
            first_with_time.setdefault(t0, i0)
        for pos, m in enumerate(msgs):
            t = got[pos]
            if id(m) in seen:
                return bad('object-listed-twice', '%s: position %d repeats an object' % (name, pos))
            seen.add(id(m))
            i = r['ids'][k].get(id(m))
            if i is not None:
                # a surviving original: identical object (by construction of i), its own time, the first with that time
                if times[i] != t or t is None:
                    return bad('survivor-time-mismatch', '%s: input message %d (time %s) listed at time %s' % (name, i, times[i], t))
                if first_with_time[t] != i:
                    return bad('survivor-not-first-occurrence', '%s: time %s shows input message %d, the first with that time is %d'
                               % (name, t, i, first_with_time[t]))
            else:
                if id(m) in all_ids:
                    return bad('foreign-object', '%s: position %d holds an object of another type' % (name, pos))
                if case['mode'] == 'drop':
                    return bad('survivor-not-original-object', '%s: position %d (time %s) is not one of the input objects' % (name, pos, t))
                if t is not None and t in first_with_time:
                    return bad('inserted-although-present', '%s: position %d of %d: time %s has an input message (number %d of %d) but a '
                               'new object is listed' % (name, pos, len(msgs), t, first_with_time[t], len(times)))
                if type(m) is not cls:
                    return bad('inserted-wrong-class', '%s: inserted object is a %s' % (name, type(m).__name__))
                v = dict(vars(m))
                if 'p1_time' not in v:
                    return bad('inserted-without-time', '%s: inserted object has no p1_time' % name)
                v.pop('p1_time')
                if repr(canon.canon(v)) != default_snapshot(cls):
                    return bad('inserted-not-default', '%s: inserted object at %s is not default-valued' % (name, t))
                if not isinstance(m.p1_time, type(cls().p1_time)):
                    ctx.count('observation_inserted_p1_time_is_' + type(m.p1_time).__name__)
    # an inserted entry is a message of its own: its (mutable) p1_time object belongs to no other entry of the result, of this or
    # of any other type - otherwise `entry.p1_time += dt` on one series moves an entry of another series, whose timestamps then are
    # no longer the ones the alignment gave it (the series would be equal only until the caller touches one of them)
    owner = {}
    for k in aligned:
        for pos, m in enumerate(r['mds'][k].messages):
            t = getattr(m, 'p1_time', None)
            if t is None or isinstance(t, (int, float, str, bytes, tuple, frozenset, np.floating, np.integer)):
                continue
            inserted = id(m) not in r['ids'][k]
            prev = owner.get(id(t))
            if prev is not None and (inserted or prev[2]) and prev[3] is not m:
                return bad('entries-share-one-time-object', '%s position %d and %s position %d carry the same %s object as p1_time '
                           '(%s): changing the time of one entry in place changes the other'
                           % (case['types'][prev[0]][0], prev[1], case['types'][k][0], pos, type(t).__name__,
                              'both inserted' if inserted and prev[2] else 'one of them inserted'))
            owner.setdefault(id(t), (k, pos, inserted, m))
    # pairwise equal timestamps: at every position the aligned types carry the same float (real and inserted entries alike)
    rows = [[ftime(m) for m in r['mds'][k].messages] for k in aligned]
    for pos in range(first_len or 0):
        col = [row[pos] for row in rows]
        if any(c != col[0] for c in col[1:]):
            return bad('timestamps-at-one-position-differ', 'position %d: %s' % (pos, ', '.join(
                '%s %r (%s)' % (case['types'][k][0], c, 'a message of the input' if id(r['mds'][k].messages[pos]) in r['ids'][k] else 'inserted')
                for k, c in zip(aligned, col))))
    return True


def nontrivial(case):
    al = [ts for n, ts in case['types'] if has_p1(by_name(n)) and (case['req'] is None or n in case['req'])]
    return len(al) >= 2 and any(ts for ts in al)


def classify(ctx, case):
    al = [set(t for t in ts if t is not None) for n, ts in case['types'] if has_p1(by_name(n)) and (case['req'] is None or n in case['req'])]
    ctx.count('mode_' + case['mode'])
    ctx.count('aligned_types_%d' % len(al))
    if al:
        if any(not s for s in al):
            ctx.count('some_aligned_type_empty')
        if len(al) >= 2:
            inter = set.intersection(*al)
            uni = set.union(*al)
            if not inter and uni:
                ctx.count('disjoint_or_empty_intersection')
            elif all(s == al[0] for s in al):
                ctx.count('identical_sets')
            elif any(all(s <= o for o in al) for s in al):
                ctx.count('nested')
            else:
                ctx.count('overlapping')
    if case['req'] is not None:
        ctx.count('explicit_message_types')
        if any(not has_p1(by_name(n)) for n in case['req']):
            ctx.count('requested_type_without_p1')
    if any(not has_p1(by_name(n)) for n, _ in case['types']):
        ctx.count('has_type_without_p1')
    for n, ts in case['types']:
        if has_p1(by_name(n)):
            v = [t for t in ts if t is not None]
            if len(v) != len(set(v)):
                ctx.count('duplicate_times_in_a_type')
                break
    if any(t is None for n, ts in case['types'] if has_p1(by_name(n)) for t in ts):
        ctx.count('nan_times')
    for n, ts in case['types']:
        if has_p1(by_name(n)):
            v = [t for t in ts if t is not None]
            if v != sorted(v):
                ctx.count('unsorted_input')
                break


# A list of times may be given in run-length form, {'ranges': [[a, b], ...]}: the floats a, a+1, ..., b-1 of every run, one run
# after the other (the boundary-size cases of the thorough tier have tens of thousands of epochs per type and a handful of runs).
def expand_times(ts):
    if isinstance(ts, dict):
        return [float(t) for a, b in ts['ranges'] for t in range(a, b)]
    return ts


def expand_case(case):
    if not any(isinstance(ts, dict) for _, ts in case['types']):
        return case
    return dict(case, types=[[n, expand_times(ts)] for n, ts in case['types']])


def to_ranges(ts):
    """Run-length form of a list of integer times (each run ascending by 1)."""
    runs = []
    for t in ts:
        t = int(t)
        if runs and runs[-1][1] == t:
            runs[-1][1] = t + 1
        else:
            runs.append([t, t + 1])
    return {'ranges': runs}


def run_cases(ctx, cases, workers=0):
    """case['lean'] ('both' | 'spec' | 'model', default both): which of the Lean functions answer for the case (the model's
    executable form is quadratic; model = spec is proved).  workers > 0: every case's requests go to a driver process of their
    own, up to `workers` at a time, while the real code runs the following cases."""
    jobs, pending = [], []
    pool = None
    if workers:
        from concurrent.futures import ThreadPoolExecutor
        pool = ThreadPoolExecutor(max_workers=workers)
    lines = []
    try:
        for case in cases:
            full = expand_case(case)
            r = run_impl(full)
            classify(ctx, full)
            ok = oracle(ctx, full, r, replay=case)
            txt = impl_text(full, r) if r['err'] is None else 'error:' + r['err'].split(':')[0]
            del r
            which = case.get('lean', 'both')
            mine = []
            if which in ('both', 'model'):
                mine.append(model_line('align', full))
            if which in ('both', 'spec'):
                mine.append(model_line('alignspec', full))
            ctx.case(model_line('align', full) if which == 'spec' else mine[0], nontrivial=nontrivial(full))
            if pool is not None:
                jobs.append([pool.submit(ctx.driver, [l]) for l in mine])
            else:
                jobs.append((len(lines), len(mine)))
                lines += mine
            pending.append((case, txt, ok, which))
        if pool is None:
            outs = ctx.driver(lines)
            answers = [outs[a: a + n] for a, n in jobs]
        else:
            answers = [[f.result()[0] for f in fs] for fs in jobs]
    finally:
        if pool is not None:
            pool.shutdown(wait=True)
    for (case, txt, ok, which), ans in zip(pending, answers):
        mo = ans[0] if which in ('both', 'model') else None
        so = ans[-1] if which in ('both', 'spec') else None
        if mo is not None and txt != mo:
            ctx.disagree('time_align_data != model: %s' % first_difference(txt, mo), case)
        if so is not None and ok and txt != so:
            # stage D through the Lean specification
            ctx.violation('C15/%s-differs-from-spec' % case['mode'], first_difference(txt, so, 'spec'), case)
        if mo is not None and so is not None and mo != so:
            ctx.disagree('model != spec (contradicts the proved refinement): %s' % first_difference(mo, so, 'spec', 'model'), case)
        ctx.cov['traces_validated_against_impl'] += 1
    for case, txt, ok, _ in pending[:: max(1, len(pending) // 3)][:3]:
        ctx.sample({'case': case, 'result': txt if len(txt) < 2000 else txt[:1000] + ' ... ' + txt[-1000:]})


def first_difference(a, b, bname='model', aname='impl'):
    """Both texts if they are short, else the surroundings of the first place where they differ."""
    if len(a) <= 300 and len(b) <= 300:
        return '%s=%s %s=%s' % (aname, a, bname, b)
    k = next((i for i, (x, y) in enumerate(zip(a, b)) if x != y), min(len(a), len(b)))
    lo = max(0, k - 120)
    return 'first difference at character %d: %s=...%s... %s=...%s...' % (k, aname, a[lo: k + 120], bname, b[lo: k + 120])


# ---- histories: several operations on the same dict ------------------------------------------------------------------
# history = {'types': [...] as in a case, 'ops': [op, ...], optional 'scale'}
# op = {'op': 'align', 'mode': 'drop'|'insert', 'req': None | [class names], optional 'req_form', 'req_container'}
#    | {'op': 'numpy', 'remove_nan': bool, 'on': None (DataLoader.to_numpy(data, keep_messages=True))
#                                               | [class names] (MessageData.to_numpy() of these entries only)}
# A numeric conversion that keeps the messages does not change the message lists, so it is the identity of the model
# state; everything it attaches to the entry (p1_time, ... arrays) is outside the state time_align_data may depend on.

def op_text(op):
    if op['op'] == 'numpy':
        return 'to_numpy(%s%s)' % ('dict' if op.get('on') is None else '+'.join(op['on']), '' if op.get('remove_nan', True) else ',keep-nan')
    return '%s(%s)' % (op['mode'].upper(), '*' if op['req'] is None else ','.join(op['req']))


def do_numpy(data, op):
    from fusion_engine_client.analysis.data_loader import DataLoader
    if op.get('on') is None:
        DataLoader.to_numpy(data, remove_nan_times=op.get('remove_nan', True), keep_messages=True)
    else:
        for n in op['on']:
            md = data.get(by_name(n).MESSAGE_TYPE)
            if md is not None:
                try:
                    md.to_numpy(remove_nan_times=op.get('remove_nan', True), keep_messages=True)
                except ValueError:
                    pass            # documented: the class has no numeric form


def run_history(ctx, data, names, ops, replay, scale=1, prefix='C15/history-', first_step=0, before=(), timeof=None):
    """Applies `ops` to `data` in place.  Every time_align_data() call is judged by oracle() against the lists found
    immediately before it.  Returns (steps, complete): steps = [(step case, result text, ok)] for the calls made,
    complete = every operation was carried out and judged correct (then the final lists are meaningful)."""
    mds = list(data.values())
    alive = []                      # every object ever listed stays alive: id() stays meaningful
    steps = []
    done = list(before)
    cache = {}
    for j, op in enumerate(ops):
        pre = [list(md.messages) for md in mds]
        alive.append(pre)
        if op['op'] != 'align':
            cache = {}
        if op['op'] == 'numpy':
            err = None
            try:
                do_numpy(data, op)
            except Exception as e:      # noqa
                err = '%s: %s' % (type(e).__name__, e)
            post = [md.messages for md in mds]
            if err is not None:
                # not a statement of C15; the lists must still be what they were
                ctx.count('observation_to_numpy_raised')
            if list(data.values()) != mds or any(len(a) != len(b) or any(x is not y for x, y in zip(a, b)) for a, b in zip(pre, post)):
                ctx.disagree('to_numpy(keep_messages=True) changed the message lists after [%s] (the harness models it as the '
                             'identity on the lists)' % ' '.join(done), replay)
                return steps, False
            done.append(op_text(op))
            ctx.count('history_numpy_ops')
            continue
        step = {'mode': op['mode'], 'req': op['req'], 'req_form': op.get('req_form', 'type'),
                'req_container': op.get('req_container', 'list'), 'scale': scale,
                'types': [[n, [(timeof or ftime)(m) if has_p1(by_name(n)) else None for m in lst]] for n, lst in zip(names, pre)]}
        had_numpy = [isinstance(md.__dict__.get('p1_time'), np.ndarray) for md in mds]
        r = call_align(data, step, cache, timeof=timeof)
        classify(ctx, step)
        note = 'call %d of the history [%s] -> %s: ' % (first_step + len(steps) + 1, ' '.join(done), op_text(op))
        ok = oracle(ctx, step, r, prefix=prefix, replay=replay, note=note)
        txt = impl_text(step, r) if r['err'] is None else 'error:' + r['err'].split(':')[0]
        steps.append((step, txt, ok, note))
        ctx.case(model_line('align', step), nontrivial=nontrivial(step))
        if done:
            ctx.count('calls_after_earlier_operations')
        if any(had_numpy):
            ctx.count('calls_on_entries_with_numpy_members')
            # observed, outside the property: the numpy members are not realigned with the messages
            for md, h in zip(mds, had_numpy):
                if h and len(md.p1_time) != len(md.messages):
                    ctx.count('observation_numpy_members_not_realigned')
                    break
        if any(len(a) != len(md.messages) or any(x is not y for x, y in zip(a, md.messages)) for a, md in zip(pre, mds)):
            ctx.count('calls_that_changed_a_list')
        if not ok or r['err'] is not None:
            return steps, False
        cache = {}
        if r.get('content_verified'):
            for lst, sn in zip(r['originals'], r['snaps']):
                for m, x in zip(lst, sn):
                    cache[id(m)] = x
        done.append(op_text(op))
    return steps, True


def history_line(cmd, hist):
    first = {'mode': 'drop', 'req': None, 'types': hist['types'], 'scale': hist.get('scale', 1)}
    d = model_line(cmd, first).split(' ')[3]
    parts = [cmd, d]
    for op in hist['ops']:
        if op['op'] == 'align':
            parts += model_line(cmd, {'mode': op['mode'], 'req': op['req'], 'types': []}).split(' ')[1:3]
    return ' '.join(parts)


def judge_steps(ctx, steps, outs, replay, what='time_align_data'):
    """outs: driver answers, (align, alignspec) per step."""
    for j, (step, txt, ok, note) in enumerate(steps):
        mo, so = outs[2 * j], outs[2 * j + 1]
        if txt != mo:
            ctx.disagree('%s != model, %simpl=%s model=%s' % (what, note, txt[:300], mo[:300]), replay)
        if ok and txt != so:
            ctx.violation('C15/history-%s-differs-from-spec' % step['mode'], '%simpl=%s spec=%s' % (note, txt[:300], so[:300]), replay)
        if mo != so:
            ctx.disagree('model != spec (contradicts the proved refinement): %s vs %s' % (mo[:200], so[:200]), replay)
        ctx.cov['traces_validated_against_impl'] += 1


def run_histories(ctx, hists):
    lines, pending = [], []
    for hist in hists:
        data = build(hist)
        names = [n for n, _ in hist['types']]
        mds = list(data.values())
        first = [list(md.messages) for md in mds]
        ids = [{id(m): i for i, m in enumerate(lst)} for lst in first]
        steps, complete = run_history(ctx, data, names, hist['ops'], hist, scale=hist.get('scale', 1))
        ncalls = sum(1 for op in hist['ops'] if op['op'] == 'align')
        ctx.count('history_with_%d_calls' % ncalls)
        kinds = [op['op'] for op in hist['ops']]
        if 'numpy' in kinds and 'align' in kinds[kinds.index('numpy'):]:
            ctx.count('history_numpy_before_a_call')
        final = None
        if complete and ncalls:
            # the whole history against alignSeq / specAlignSeq (objects named by their place in the FIRST lists)
            out = []
            for k, n in enumerate(names):
                p = has_p1(by_name(n))
                items = []
                for m in mds[k].messages:
                    i = ids[k].get(id(m))
                    t = tkey(ftime(m), hist.get('scale', 1)) if p else 'n'
                    items.append(('o%d@%s' % (i, t)) if i is not None else ('f@%s' % t))
                out.append('%d:%s' % (int(by_name(n).MESSAGE_TYPE), ','.join(items)))
            final = ';'.join(out)
        base = len(lines)
        for step, _, _, _ in steps:
            lines.append(model_line('align', step))
            lines.append(model_line('alignspec', step))
        if final is not None:
            lines.append(history_line('alignseq', hist))
            lines.append(history_line('alignseqspec', hist))
        pending.append((hist, steps, final, base))
    outs = ctx.driver(lines)
    for hist, steps, final, base in pending:
        judge_steps(ctx, steps, outs[base: base + 2 * len(steps)], hist)
        if final is not None:
            mo, so = outs[base + 2 * len(steps)], outs[base + 2 * len(steps) + 1]
            if final != mo or mo != so:
                ctx.disagree('history != alignSeq: impl=%s model=%s spec=%s' % (final[:300], mo[:300], so[:300]), hist)
            ctx.cov['traces_validated_against_impl'] += 1
    for hist, steps, final, _ in pending[:: max(1, len(pending) // 2)][:2]:
        ctx.sample({'history': hist, 'calls': [t for _, t, _, _ in steps], 'final': final})


# ---- generators -----------------------------------------------------------------------------------------------------
def subsets(grid):
    for mask in range(1 << len(grid)):
        yield [g for i, g in enumerate(grid) if mask >> i & 1]


def exhaustive(ctx):
    p1, nop1 = classes()
    A, B, C = [c.__name__ for c in p1[:3]]
    X = nop1[0].__name__
    Y = nop1[1].__name__
    cases = []
    subs = list(subsets(GRID))
    # two types with P1 time + one without: every pair of subsets x both modes x every choice of message_types
    reqs2 = [None, [], [A], [B], [A, B], [X], [A, X], [A, B, X], [B, A]]
    for sa, sb in itertools.product(subs, subs):
        for mode in ('drop', 'insert'):
            for req in (reqs2 if ctx.thorough else [None, reqs2[1 + (len(cases) % (len(reqs2) - 1))]]):
                cases.append({'mode': mode, 'req': req, 'types': [[A, sa], [X, [None, None]], [B, sb]]})
    # three types with P1 time: every triple of subsets x both modes; message_types None and one rotating choice
    reqs3 = [[A, B], [B, C], [A, C], [A, B, C, X], [C], [], [X, Y], [C, B, A]]
    n = 0
    for sa, sb, sc in itertools.product(subs, subs, subs):
        n += 1
        for mi, mode in enumerate(('drop', 'insert')):
            rs = [None] + (reqs3 if ctx.thorough else [reqs3[(n // 2) % len(reqs3)]] if (n + mi) % 2 == 0 else [])
            for req in rs:
                types = [[A, sa], [B, sb], [X, [None]], [C, sc]] if (n // 3) % 2 else [[X, []], [C, sc], [A, sa], [B, sb]]
                cases.append({'mode': mode, 'req': req, 'types': types})
    return cases


def sequences(ctx):
    """Bounded-exhaustive over SEQUENCES (order, duplicates, NaN): two types, all lists of length <= 3 over {1,2,NaN}
    and a sample of the lists over {1,2,3,NaN}."""
    p1, nop1 = classes()
    A, B = p1[0].__name__, p1[3].__name__
    seqs = [list(s) for n in range(4) for s in itertools.product([1.0, 2.0, None], repeat=n)]
    cases = []
    for sa, sb in itertools.product(seqs, seqs):
        if ctx.thorough or ctx.rng.random() < 0.35:
            for mode in ('drop', 'insert'):
                cases.append({'mode': mode, 'req': None, 'types': [[A, sa], [B, sb]]})
    return cases


def random_case(rng, p1names=None, nop1names=None):
    """p1names / nop1names: the classes to draw from (default: classes())."""
    if p1names is None:
        p1, nop1 = classes()
        p1names, nop1names = [c.__name__ for c in p1], [c.__name__ for c in nop1]
    ntypes = rng.choice([1, 2, 2, 3, 3, 4, 4, 5])
    pool = list(p1names) + list(nop1names)
    names = rng.sample(pool, min(ntypes, len(pool)))
    if not any(has_p1(by_name(n)) for n in names) and rng.random() < 0.8:
        names[0] = p1names[0]
    span = rng.choice([3, 6, 12, 40])
    style = rng.choice(['sets', 'sets', 'dups', 'unsorted', 'wild'])
    base = sorted(rng.sample(range(0, span * 2), min(span, rng.randrange(1, span + 1))))
    types = []
    for n in names:
        kind = rng.choice(['sub', 'sub', 'sub', 'empty', 'all', 'other', 'single'])
        if kind == 'empty':
            ts = []
        elif kind == 'all':
            ts = list(base)
        elif kind == 'single':
            ts = [rng.choice(base)]
        elif kind == 'other':
            ts = sorted(rng.sample(range(100, 100 + span), rng.randrange(0, min(span, 4) + 1)))
        else:
            ts = [t for t in base if rng.random() < rng.choice([0.3, 0.6, 0.9])]
        ts = [float(t) + rng.choice([0.0, 0.0, 0.0, 0.5]) * (style == 'wild') for t in ts]
        if style in ('dups', 'wild') and ts:
            for _ in range(rng.randrange(1, 4)):
                ts.insert(rng.randrange(len(ts) + 1), rng.choice(ts))
        if style in ('unsorted', 'wild'):
            rng.shuffle(ts)
        if style == 'wild' and rng.random() < 0.5:
            for _ in range(rng.randrange(1, 3)):
                ts.insert(rng.randrange(len(ts) + 1), None)
        if style == 'wild' and rng.random() < 0.3 and ts:
            ts = [(-t if t is not None and rng.random() < 0.3 else t) for t in ts]
        types.append([n, ts])
    r = rng.random()
    if r < 0.4:
        req = None
    else:
        req = [n for n in names if rng.random() < 0.6]
        if rng.random() < 0.3:
            req.append(rng.choice(pool))      # possibly a type that is not in the dict at all
        req = list(dict.fromkeys(req))
    case = {'mode': rng.choice(['drop', 'insert']), 'req': req, 'types': types,
            'req_form': rng.choice(['type', 'class', 'mixed']), 'req_container': rng.choice(['list', 'set', 'tuple'])}
    return case


def scale_case(case):
    """Half-integer times are given to the model doubled (order and equality are preserved)."""
    if any(t is not None and t != int(t) for _, ts in case['types'] for t in ts):
        case['scale'] = 2
    return case


# ---- boundary sizes ---------------------------------------------------------------------------------------------------
# The number of epochs of the result, and the number of messages of a type, are quantities an implementation may count, index or
# store in a machine type.  These cases put exactly such a quantity AT 2^k - 1, 2^k, 2^k + 1, 2^k + 2:
#   at = 'union'   INSERT, the union of the aligned types has exactly N epochs
#   at = 'common'  DROP, exactly N epochs are common to all aligned types (every type has others besides)
#   at = 'count'   one aligned type has exactly N messages, the union is a little larger (either mode)
# over different shapes of the sets (a type that has every epoch - at any place in the dict -, types with a few holes incl. the
# first / last epoch, leading / trailing parts, single epochs, no complete type at all).  Judged like every other case: the
# property oracle on the real objects (which input OBJECT sits at every position, content before / after, default content of
# every inserted one) and the Lean model / spec.
SIZE_EXPONENTS_QUICK = [7, 8]
SIZE_EXPONENTS_THOROUGH = [15, 16]
EXPLICIT_LIMIT = 1000           # above: run-length times, cheap classes, few runs per type


def boundary_sizes(exps):
    return sorted(set(2 ** k + d for k in exps for d in ((-1, 0, 1, 2) if k < 16 else (-1, 0, 1))))


def cheap_p1_classes(cache=[]):
    """The P1-time classes ordered by the size of their content snapshot (the cost of looking at every message of a large case)."""
    if not cache:
        p1, _ = classes()
        cache.extend(c.__name__ for c in sorted(p1, key=lambda c: len(repr(canon.canon(c())))))
    return cache


def _part(rng, E, kind, big):
    """A sub-list of the epochs E (ascending)."""
    n = len(E)
    if kind == 'full':
        return list(E)
    if kind == 'holes':
        cand = {0, n - 1} if rng.random() < 0.5 else set()
        holes = set(rng.sample(range(n), min(n, rng.randrange(1, 6)))) | set(x for x in cand if rng.random() < 0.5)
        return [e for i, e in enumerate(E) if i not in holes]
    if kind == 'head':
        return list(E[:rng.randrange(1, n)])
    if kind == 'tail':
        return list(E[rng.randrange(1, n):])
    if kind == 'single':
        return [rng.choice([E[0], E[-1], E[-1], rng.choice(E)])]
    if kind == 'ends':
        return [E[0], E[-1]]
    if kind == 'empty':
        return []
    pr = rng.choice([0.3, 0.6, 0.9])            # 'random' (explicit sizes only)
    return [e for e in E if rng.random() < pr]


def sized_case(rng, N, at, shape, big=False):
    p1, nop1 = classes()
    names = cheap_p1_classes()[:3] if big else [c.__name__ for c in p1]
    k = 2 if big else rng.choice([2, 3, 3, 4])
    names = rng.sample(names, min(k, len(names)))
    k = len(names)
    base = rng.choice([0, 1, 1000, 10 ** 6])
    kinds = ['holes', 'holes', 'head', 'tail', 'single', 'ends', 'full'] + ([] if big else ['random', 'random', 'empty'])
    if at == 'union':
        mode = 'insert'
        E = list(range(base, base + N))
        if shape == 'complete':
            sets = [list(E)] + [_part(rng, E, rng.choice(kinds), big) for _ in range(k - 1)]
        elif shape == 'ends':
            sets = [list(E)] + [_part(rng, E, rng.choice(['single', 'ends']), big) for _ in range(k - 1)]
        else:
            # no type has every epoch: overlapping leading / trailing parts; explicit sizes: also a random cover
            if big or rng.random() < 0.5:
                m1 = rng.randrange(1, N - 1)
                m2 = rng.randrange(m1 + 1, N)
                sets = [E[:m2], E[m1:]] + [_part(rng, E, rng.choice(['holes', 'head', 'tail', 'single']), big) for _ in range(k - 2)]
            else:
                sets = [[] for _ in range(k)]
                for i, e in enumerate(E):
                    own = [j for j in range(k) if rng.random() < 0.6] or [rng.randrange(k)]
                    if len(own) == k:
                        own.remove(i % k)
                    for j in own:
                        sets[j].append(e)
    elif at == 'common':
        mode = 'drop'
        extra = rng.randrange(0, 7)
        U = list(range(base, base + N + extra))
        xs = set(rng.sample(U, extra))
        if extra and rng.random() < 0.5:
            xs = set(list(xs)[1:]) | {rng.choice([U[0], U[-1]])}
        sets = [[] for _ in range(k)]
        for e in U:
            if e in xs:
                own = rng.sample(range(k), rng.randrange(0, k))          # a proper subset of the types
            else:
                own = range(k)
            for j in own:
                sets[j].append(e)
    else:
        mode = rng.choice(['drop', 'insert'])
        extra = rng.randrange(1, 7)
        U = list(range(base, base + N + extra))
        gone = set(rng.sample(U, extra))
        sets = [[e for e in U if e not in gone]] + [_part(rng, U, rng.choice(kinds), big) for _ in range(k - 1)]
    order = list(range(k))
    rng.shuffle(order)                                  # the complete / counted type at any place in the dict
    types = [[names[j], sets[j]] for j in order]
    if not big:
        r = rng.random()
        if r < 0.15:
            j = rng.randrange(k)
            rng.shuffle(types[j][1])                    # stored out of order
        elif r < 0.3 and at != 'count':
            j = rng.randrange(k)
            if types[j][1]:
                for _ in range(rng.randrange(1, 4)):    # a repeated epoch
                    types[j][1].insert(rng.randrange(len(types[j][1]) + 1), rng.choice(types[j][1]))
    types = [[n, to_ranges(ts) if big else [float(t) for t in ts]] for n, ts in types]
    if rng.random() < 0.3:
        types.insert(rng.randrange(len(types) + 1), [rng.choice(nop1).__name__, [None] * rng.randrange(0, 3)])
    req = None if rng.random() < 0.6 else [n for n, _ in types]
    return {'mode': mode, 'req': req, 'types': types, 'req_form': rng.choice(['type', 'class', 'mixed']),
            'req_container': rng.choice(['list', 'set', 'tuple']), 'size': {'N': N, 'at': at, 'shape': shape}}


def sized_cases(ctx, exps, big=False, plan=None):
    rng = ctx.rng
    plan = plan or [('union', 'complete'), ('union', 'complete'), ('union', 'ends'), ('union', 'cover'), ('common', '-'), ('common', '-'),
                    ('count', '-'), ('count', '-')]
    cases = []
    for N in boundary_sizes(exps):
        for at, shape in (plan(N) if callable(plan) else plan):
            case = sized_case(rng, N, at, shape, big)
            if big:
                case['lean'] = 'spec' if case['mode'] == 'insert' else 'model'      # the cheaper of the two proved-equal functions
            cases.append(case)
            ctx.count('boundary_size_cases_%s' % at)
    return cases


def big_plan(N):
    """Thorough tier, 2^15 / 2^16: every size INSERT with a type that has every epoch; DROP and INSERT without a complete type at
    fewer of them (a case costs seconds: every message's content is looked at before and after)."""
    plan = [('union', 'complete')]
    if N < 2 ** 16 - 1 or N == 2 ** 16 + 1:
        plan.append(('common', '-'))
    if N in (2 ** 15 + 1, 2 ** 16):
        plan.append(('union', 'cover'))
    return plan


def sized_histories(ctx, exps):
    """Histories at the boundary sizes: [conversion,] INSERT, then a second alignment of the now equal series (every type then
    has every epoch), with conversions in between."""
    rng = ctx.rng
    hists = []
    for N in boundary_sizes(exps):
        case = sized_case(rng, N, 'union', rng.choice(['complete', 'cover']))
        calls = [{'op': 'align', 'mode': 'insert', 'req': case['req']},
                 {'op': 'align', 'mode': rng.choice(['insert', 'insert', 'drop']), 'req': None}]
        if rng.random() < 0.3:
            calls.insert(0, {'op': 'align', 'mode': 'drop', 'req': [n for n, _ in case['types']][:1]})
        hists.append({'types': case['types'], 'ops': with_numpy(calls, rng.choice(NUMPY_PLACES), rng)})
        ctx.count('boundary_size_histories')
    return hists


# ---- generators of histories ----------------------------------------------------------------------------------------
NUMPY_PLACES = ['none', 'before', 'between', 'both']


def with_numpy(calls, place, rng=None):
    """Interleaves numeric conversions with the calls: before the first call, between the calls, both, or nowhere."""
    def conv():
        if rng is None or rng.random() < 0.6:
            return {'op': 'numpy', 'remove_nan': True, 'on': None}
        return {'op': 'numpy', 'remove_nan': rng.random() < 0.5, 'on': None}
    ops = []
    for j, c in enumerate(calls):
        if (j == 0 and place in ('before', 'both')) or (j > 0 and place in ('between', 'both')):
            ops.append(conv())
        ops.append(c)
    return ops


def history_grid(ctx):
    """Three types with P1 time over the subsets of a 3-point grid (+ one type without), every ordered pair of calls from
    {DROP, INSERT} x {all types, each pair of types} x where the numeric conversions are made (sampled, see below)."""
    p1, nop1 = classes()
    A, B, C = [c.__name__ for c in p1[:3]]
    X = nop1[0].__name__
    subs = list(subsets([1.0, 2.0, 3.0]))
    calls = [{'op': 'align', 'mode': m, 'req': r} for m in ('drop', 'insert') for r in (None, [A, B], [B, C], [A, C])]
    # thorough: every history whose conversion precedes the first call, a sample of the other placements
    keep = {'before': 1.0, 'none': 0.1, 'between': 0.15, 'both': 0.15} if ctx.thorough else \
           {'before': 0.04, 'none': 0.01, 'between': 0.02, 'both': 0.02}
    hists = []
    for sa, sb, sc in itertools.product(subs, subs, subs):
        for c1, c2 in itertools.product(calls, calls):
            for place in NUMPY_PLACES:
                if keep[place] < 1.0 and ctx.rng.random() >= keep[place]:
                    continue
                hists.append({'types': [[A, sa], [X, [None]], [B, sb], [C, sc]], 'ops': with_numpy([dict(c1), dict(c2)], place)})
    return hists


def random_history(rng):
    """Random dict (as random_case: duplicates, unsorted, NaN, ...) and 1-4 calls with random type lists, numeric
    conversions of the dict or of single entries anywhere."""
    base = scale_case(random_case(rng))
    names = [n for n, _ in base['types']]
    p1, nop1 = classes()
    pool = [c.__name__ for c in p1] + [c.__name__ for c in nop1]
    ops = []
    ncalls = rng.choice([1, 2, 2, 2, 3, 3, 4])
    pn = rng.choice([0.0, 0.3, 0.6, 1.0])
    for j in range(ncalls):
        if rng.random() < pn:
            on = None if rng.random() < 0.6 else [n for n in names if rng.random() < 0.6]
            ops.append({'op': 'numpy', 'remove_nan': rng.random() < 0.7, 'on': on})
        if j == 0:
            req, form, cont = base['req'], base['req_form'], base['req_container']
            mode = base['mode']
        else:
            mode = rng.choice(['drop', 'insert'])
            if rng.random() < 0.35:
                req = None
            else:
                req = [n for n in names if rng.random() < 0.6]
                if rng.random() < 0.2:
                    req.append(rng.choice(pool))
                req = list(dict.fromkeys(req))
            form, cont = rng.choice(['type', 'class', 'mixed']), rng.choice(['list', 'set', 'tuple'])
        ops.append({'op': 'align', 'mode': mode, 'req': req, 'req_form': form, 'req_container': cont})
    if rng.random() < 0.2:
        ops.append({'op': 'numpy', 'remove_nan': True, 'on': None})
    h = {'types': base['types'], 'ops': ops}
    if 'scale' in base:
        h['scale'] = base['scale']
    return h


def history_sequences(ctx, n):
    """Order, duplicates and NaN inside the lists: three types with lists of length <= 3 over {1,2,3,NaN}, two or three calls."""
    p1, nop1 = classes()
    A, B, C = p1[0].__name__, p1[3].__name__, p1[2].__name__
    rng = ctx.rng
    vals = [1.0, 2.0, 3.0, None]
    hists = []
    for _ in range(n):
        types = [[nm, [rng.choice(vals) for _ in range(rng.randrange(0, 4))]] for nm in (A, B, C)]
        calls = [{'op': 'align', 'mode': rng.choice(['drop', 'insert']), 'req': rng.choice([None, [A, B], [B, C], [A, C], [A]])}
                 for _ in range(rng.choice([2, 2, 3]))]
        hists.append({'types': types, 'ops': with_numpy(calls, rng.choice(NUMPY_PLACES), rng)})
    return hists


def numpy_model(ctx, n):
    """np.unique / np.intersect1d(return_indices=True) against their Lean models, directly."""
    rng = ctx.rng
    lines, exp = [], []

    def arr(k):
        vals = [rng.choice([float(rng.randrange(-3, 6)), float('nan')] if rng.random() < 0.2 else [float(rng.randrange(-3, 6))])
                for _ in range(k)]
        return vals

    def txt(a):
        return ','.join('n' if x != x else str(int(x)) for x in a) or '-'
    for _ in range(n):
        a, b = arr(rng.randrange(0, 9)), arr(rng.randrange(0, 9))
        u = np.unique(np.array(a, dtype=float))
        lines.append('npunique ' + txt(a))
        exp.append(txt(u) if len(u) else '')
        v, ia, ib = np.intersect1d(np.array(a, dtype=float), np.array(b, dtype=float), return_indices=True)
        lines.append('npisect %s %s' % (txt(a), txt(b)))
        exp.append('%s|%s|%s' % (txt(v) if len(v) else '', ','.join(map(str, ia)), ','.join(map(str, ib))))
    outs = ctx.driver(lines)
    for l, e, o in zip(lines, exp, outs):
        ctx.cov['traces_validated_against_impl'] += 1
        if e != o:
            ctx.disagree('numpy != model for "%s": numpy=%s model=%s' % (l, e, o), {'numpy_line': l})
    ctx.count('numpy_function_cases', len(lines))


# ---- through DataLoader.read(time_align=...) on real files ----------------------------------------------------------
def file_pool(rng):
    """Names for one random log: P1-time classes of every decoder family (two of each, if there are) and one more, and up
    to three classes without P1 time."""
    fcs = file_classes()
    p1 = []
    for fam, names in sorted(file_families().items()):
        p1 += rng.sample(names, min(2, len(names)))
    rest = [n for n, fc in fcs.items() if fc.p1 and n not in p1]
    if rest:
        p1.append(rng.choice(rest))
    rng.shuffle(p1)
    nop1 = [n for n, fc in sorted(fcs.items()) if not fc.p1]
    return p1, rng.sample(nop1, min(3, len(nop1)))


def random_file_case(rng, limit=12):
    """random_case over the classes that can go through a log, its times mapped onto a grid of wire times."""
    while True:
        p1, nop1 = file_pool(rng)
        case = random_case(rng, p1, nop1)
        pool = set(p1 + nop1)
        case['types'] = [[nm, ts[:limit]] for nm, ts in case['types'] if nm in pool]
        if case['req'] is not None:
            case['req'] = [nm for nm in case['req'] if nm in file_classes()]
        if case['types']:
            break
    case['types'], case['grid'] = to_wire(case['types'], rng)
    return case


def read_case(ctx, case, workdir, tag):
    """Writes the messages of `case` (wire times) to a log, reads it unaligned and aligned with fresh loaders, and judges the
    aligned result by the property oracle and the Lean model/spec applied to the WRITTEN wire times (objects matched by
    content with the unaligned read; every message is distinct).
    case['read_numpy']: the aligned read also converts (return_numpy=True, keep_messages=True); case['read_align'] False:
    the second read does not align either (the alignment is then made by the operations); case['ops']: operations applied
    afterwards to the dict read() returned (a history that starts with the alignment made by read())."""
    import os
    from fusion_engine_client.analysis.data_loader import DataLoader, TimeAlignmentMode
    rng = ctx.rng
    written = case['types']
    order = case.get('order')
    if order is None:
        order = file_order(rng, written)
    path = write_wire_log(os.path.join(workdir, 'c15_%s.p1log' % tag), written, order)
    cls_list = [by_name(n) for n, _ in written]
    req = None if case['req'] is None else [by_name(n) for n in case['req']]
    mode = TimeAlignmentMode.DROP if case['mode'] == 'drop' else TimeAlignmentMode.INSERT
    by_read = case.get('read_align', True)
    nt = case.get('threads')        # None: the indexer's default worker pool (slow to start); 1: indexed in this process
    seen = {'mode': case['mode'], 'req': case['req'], 'via': 'read', 'written': written, 'order': order, 'grid': case.get('grid'),
            'read_numpy': bool(case.get('read_numpy')), 'read_align': by_read, 'ops': case.get('ops', []), 'threads': nt}
    site = 'C15/read-%s' % case['mode']
    try:
        r0 = DataLoader(path, num_threads=nt).read(message_types=cls_list, show_progress=False)
        kw = {'time_align': mode, 'aligned_message_types': req} if by_read else {}
        if case.get('read_numpy'):
            r1 = DataLoader(path, num_threads=nt).read(message_types=cls_list, show_progress=False, return_numpy=True,
                                                       keep_messages=True, **kw)
            ctx.count('through_read_time_align_return_numpy')
        else:
            r1 = DataLoader(path, num_threads=nt).read(message_types=cls_list, show_progress=False, **kw)
    except Exception as e:      # noqa
        ctx.violation(site + '-raised', 'read(time_align=...) raised %s: %s' % (type(e).__name__, e), seen)
        return None
    if list(r0.keys()) != list(r1.keys()):
        ctx.violation(site + '-dict-changed', 'aligned read returns different keys', seen)
        return None
    keys = list(r0.keys())
    names = [r0[k].message_class.__name__ for k in keys]
    clock = WireClock(written)
    for n, k in zip(names, keys):
        clock.learn(r0[k].messages, complete_for=n)
    if clock.problems or sorted(names) != sorted(n for n, _ in written):
        ctx.disagree('an unaligned read of a written log does not show the written messages (the harness relies on it): %s'
                     % '; '.join(clock.problems[:3] or ['types %s' % names]), seen)
        return None
    count_wire(ctx, written, case['req'])
    # one alignment of the written times; without read_align the read is the alignment of no type
    step = {'mode': case['mode'], 'req': case['req'] if by_read else [],
            'types': [[n, [clock(m) for m in r0[k].messages]] for n, k in zip(names, keys)]}
    seen['types'] = step['types']
    originals = [list(r0[k].messages) for k in keys]
    snaps = [[repr(canon.canon(m)) for m in lst] for lst in originals]
    views = []
    for k, lst, sn in zip(keys, originals, snaps):
        idx = {}
        for i, x in enumerate(sn):
            idx.setdefault(x, i)
        views.append(_Listed(r1[k], [lst[i] if i is not None else m for m, i in ((m, idx.get(repr(canon.canon(m)))) for m in r1[k].messages)]))
    data = dict(zip(keys, views))
    r = {'data': data, 'ret': data, 'keys': keys, 'mds': views, 'originals': originals,
         'ids': [{id(m): i for i, m in enumerate(lst)} for lst in originals], 'snaps': snaps,
         'meta': [(r0[k].message_type, r0[k].message_class) for k in keys], 'err': None, 'matched_by_content': True,
         'timeof': clock}
    how = 'read(time_align=%s%s)' % (op_text({'op': 'align', 'mode': case['mode'], 'req': case['req']}),
                                     ',return_numpy' if seen['read_numpy'] else '') if by_read else 'read()'
    ok = oracle(ctx, step, r, prefix='C15/read-', replay=seen, note=how + ' of a log with the wire times "written": ')
    txt = impl_text(step, r)
    steps = []
    if ok and seen['ops']:
        ctx.count('through_read_then_more_operations')
        steps, _ = run_history(ctx, r1, names, seen['ops'], seen, prefix='C15/read-history-', first_step=1, before=[how], timeof=clock)
    return seen, step, txt, steps, ok


def run_read_cases(ctx, cases):
    import shutil
    import tempfile
    workdir = tempfile.mkdtemp(prefix='c15_', dir=fv.BUILD)
    lines, pending = [], []
    try:
        for j, case in enumerate(cases):
            res = read_case(ctx, case, workdir, str(j))
            for f in os.listdir(workdir):
                os.remove(os.path.join(workdir, f))
            if res is None:
                continue
            seen, step, txt, steps, ok = res
            classify(ctx, step)
            ctx.count('through_read_time_align' if seen['read_align'] else 'through_time_align_data_on_a_read_dict')
            ctx.count('file_grid_%s' % seen.get('grid'))
            base = len(lines)
            lines.append(model_line('align', step))
            lines.append(model_line('alignspec', step))
            ctx.case('read ' + lines[-2], nontrivial=nontrivial(step))
            for st, _, _, _ in steps:
                lines.append(model_line('align', st))
                lines.append(model_line('alignspec', st))
            pending.append((seen, step, txt, steps, ok, base))
    finally:
        shutil.rmtree(workdir, ignore_errors=True)
    outs = ctx.driver(lines)
    for seen, step, txt, steps, ok, base in pending:
        judge_read(ctx, seen, txt, steps, ok, outs[base: base + 2 + 2 * len(steps)])
    for seen, step, txt, steps, ok, _ in pending[:: max(1, len(pending) // 2)][:2]:
        ctx.sample({'read_case': seen, 'result': txt})


def random_read_cases(ctx, n):
    cases = []
    for j in range(n):
        case = random_file_case(ctx.rng)
        case['threads'] = None if j % 8 == 0 else 1
        names = [nm for nm, _ in case['types']]
        # every other case goes on after read(): numeric conversion by read() itself or afterwards, further calls
        if j % 2:
            case['read_numpy'] = ctx.rng.random() < 0.5
            more = random_history(ctx.rng)['ops']
            for op in more:
                if op['op'] == 'align' and op['req'] is not None:
                    op['req'] = [nm for nm in names if ctx.rng.random() < 0.6]
                if op['op'] == 'numpy' and op['on'] is not None:
                    op['on'] = [nm for nm in names if ctx.rng.random() < 0.6]
            if not case['read_numpy'] and ctx.rng.random() < 0.7:
                more.insert(0, {'op': 'numpy', 'remove_nan': True, 'on': None})
            case['ops'] = more
        elif j % 4 == 0:
            # the alignment is made by time_align_data() on the dict an unaligned read returned (objects known by id())
            case['read_align'] = False
            case['ops'] = [{'op': 'align', 'mode': case['mode'], 'req': case['req'], 'req_form': case['req_form'],
                            'req_container': case['req_container']}]
        cases.append(case)
    return cases


def wire_grid(ctx):
    """Directed: every P1-time class that can go through a log, with a partner from EVERY decoder family (rotating; all
    partners in the thorough tier) and now and then a third type, 20 epochs k = 1..20 of a grid with different holes per
    type, both modes on the 0.1 s grid from 0 and one more grid / base (all grids in the thorough tier), aligned by
    read(time_align=...) or by time_align_data() on the dict of an unaligned read."""
    rng = ctx.rng
    fams = file_families()
    p1 = sorted(n for ns in fams.values() for n in ns)
    cases = []
    n = 0
    for X in p1:
        for fam in sorted(fams):
            partners = [y for y in fams[fam] if y != X]
            if not partners:
                continue
            for Y in (partners if ctx.thorough else [partners[(p1.index(X) + n) % len(partners)]]):
                n += 1
                plans = [('drop', GRIDS[1], 0), ('insert', GRIDS[1], 0)]
                extra = [(m, g, None) for m in ('drop', 'insert') for g in GRIDS]
                plans += extra if ctx.thorough else [extra[n % len(extra)]]
                for mode, grid, base in plans:
                    ks = list(range(1, 21))
                    types = [[X, [k for k in ks if k not in rng.sample(ks, 2)]], [Y, [k for k in ks if k not in rng.sample(ks, 3)]]]
                    if rng.random() < 0.4:
                        Z = rng.choice([z for z in p1 if z not in (X, Y)])
                        types.append([Z, [k for k in ks if rng.random() < 0.8]])
                    if rng.random() < 0.3:
                        types[0][1].insert(rng.randrange(len(types[0][1])), rng.choice(types[0][1]))     # a repeated epoch
                    if rng.random() < 0.3:
                        rng.shuffle(types[1][1])
                    rng.shuffle(types)
                    wt, gname = to_wire(types, rng, grid, base)
                    case = {'mode': mode, 'req': None if rng.random() < 0.7 else [X, Y], 'types': wt, 'grid': gname, 'threads': 1}
                    if n % 3 == 0:
                        case['read_align'] = False
                        case['ops'] = [{'op': 'align', 'mode': mode, 'req': case['req']}]
                    cases.append(case)
    return cases


def judge_read(ctx, seen, txt, steps, ok, outs):
    mo, so = outs[0], outs[1]
    if txt != mo:
        ctx.disagree('read(time_align) != model: impl=%s model=%s' % (txt[:300], mo[:300]), seen)
    if ok and txt != so:
        ctx.violation('C15/read-%s-differs-from-spec' % seen['mode'], 'impl=%s spec=%s' % (txt[:300], so[:300]), seen)
    ctx.cov['traces_validated_against_impl'] += 1
    judge_steps(ctx, steps, outs[2:], seen, what='time_align_data after read(time_align)')


# ---- HISTORIES OF read() CALLS ON ONE LOADER ----------------------------------------------------------------------------
# The DataLoader keeps what it read, per message type, together with the arguments of the call; read(time_align=...) aligns
# those very objects in place.  What a read returns therefore depends on how earlier reads on the same loader left the
# cache - unless the code makes sure it does not.  The property speaks about the result of EVERY aligning read, so every
# read of a history is judged on its own: the property oracle and the Lean model / spec of ONE alignment applied to what a
# FRESH loader's unaligned read of the same types (same max_messages) contains.  Objects are matched by content (every
# written message is distinct); a read without alignment must return exactly the fresh lists.
#
# read-history = {'via': 'read-history', 'written': [[class name, [time|None, ...]], ...], 'order': [position in 'written' of
#                 the type of the k-th message of the file, ...], 'index_file': 'none' | 'saved' | 'existing',
#                 'threads': 1 | None, 'reads': [rd, ...]}
# rd = {'types': [class names], 'types_form': 'class'|'type'|'mixed'|'single', 'align': 'none'|'drop'|'insert',
#       'req': None | [class names], 'req_form', 'req_container', 'numpy': bool, 'keep': bool, 'remove_nan': bool,
#       'bytes': bool, 'index': bool, 'ignore_cache': bool, 'max': None | int}
ABSENT = ['GNSSSatelliteMessage', 'VersionInfoMessage', 'CalibrationStatus', 'DeviceIDMessage']    # requested now and then when not in the file
RD_DEFAULT = {'types_form': 'class', 'align': 'none', 'req': None, 'req_form': 'class', 'req_container': 'list', 'numpy': False,
              'keep': False, 'remove_nan': True, 'bytes': False, 'index': False, 'ignore_cache': False, 'max': None}


def rd_make(types, align='none', req=None, **kw):
    d = dict(RD_DEFAULT)
    d.update(types=list(types), align=align, req=None if req is None else list(req))
    d.update(kw)
    return d


def type_list(names, form, container='list'):
    cl = [by_name(n) for n in names]
    if form == 'single' and len(cl) == 1:
        return cl[0]
    r = [(c if (form == 'class' or form == 'single' or (form == 'mixed' and i % 2 == 0)) else c.MESSAGE_TYPE) for i, c in enumerate(cl)]
    return set(r) if container == 'set' else tuple(r) if container == 'tuple' else r


def read_text(rd):
    s = 'read(%s' % '+'.join(rd['types'])
    if rd['align'] != 'none':
        s += ',%s' % op_text({'op': 'align', 'mode': rd['align'], 'req': rd['req']})
    elif rd['req'] is not None:
        s += ',aligned=%s' % ','.join(rd['req'])
    if rd['numpy']:
        s += ',numpy' + ('' if rd['keep'] else '-only') + ('' if rd['remove_nan'] else '-keep-nan')
    for k in ('bytes', 'index', 'ignore_cache'):
        if rd[k]:
            s += ',' + k
    if rd['max'] is not None:
        s += ',max=%d' % rd['max']
    return s + ')'


def read_kwargs(rd):
    from fusion_engine_client.analysis.data_loader import TimeAlignmentMode
    mode = {'none': TimeAlignmentMode.NONE, 'drop': TimeAlignmentMode.DROP, 'insert': TimeAlignmentMode.INSERT}[rd['align']]
    kw = {'message_types': type_list(rd['types'], rd['types_form']), 'show_progress': False, 'time_align': mode,
          'aligned_message_types': None if rd['req'] is None else type_list(rd['req'], rd['req_form'], rd['req_container']),
          'return_numpy': rd['numpy'], 'keep_messages': rd['keep'], 'remove_nan_times': rd['remove_nan'],
          'return_bytes': rd['bytes'], 'return_message_index': rd['index'], 'ignore_cache': rd['ignore_cache']}
    if rd['max'] is not None:
        kw['max_messages'] = rd['max']
    return kw


class _Listed(object):
    """What the oracle looks at in a MessageData."""
    def __init__(self, md, messages):
        self.message_type, self.message_class, self.messages = md.message_type, md.message_class, messages


def spec_view(txt, flags):
    """The driver's answer restricted to what a read result shows of each type: flags[key] = (messages listed?, numeric
    p1_time member present? - compared on its valid times)."""
    if txt.startswith('error') or txt == 'bad-args':
        return txt
    out = []
    for part in txt.split(';'):
        key, _, items = part.partition(':')
        items = items.split(',') if items else []
        msgs, arr = flags[key]
        s = key + ':' + (','.join(items) if msgs else '~')
        if arr:
            s += '|' + ','.join(t for t in (it.split('@')[1] for it in items) if t != 'n')
        out.append(s)
    return ';'.join(out)


def write_history_log(hist, workdir, tag):
    return write_wire_log(os.path.join(workdir, 'c15_%s.p1log' % tag), hist['written'], hist['order'])


def run_read_history(ctx, hist, workdir, tag):
    """Carries out the reads of `hist` on one loader.  Returns [(step, result text, flags, ok, note)] for the judged reads."""
    import os
    from fusion_engine_client.analysis.data_loader import DataLoader
    path = write_history_log(hist, workdir, tag)
    nthreads = hist.get('threads', 1)
    kind = hist.get('index_file', 'none')
    if kind == 'existing':
        DataLoader(path, save_index=True, ignore_index=False, num_threads=1)        # leaves the .p1i file behind
        if not os.path.exists(path[:-len('p1log')] + 'p1i'):
            ctx.count('observation_no_index_file_written')
    if kind == 'none':
        loader = DataLoader(path, save_index=False, ignore_index=True, num_threads=nthreads)
    else:
        loader = DataLoader(path, save_index=True, ignore_index=False, num_threads=nthreads)
    ctx.count('read_history_index_file_' + kind)
    ctx.count('read_history_with_%d_reads' % len(hist['reads']))
    ctx.count('file_grid_%s' % hist.get('grid'))
    count_wire(ctx, hist['written'])
    clock = WireClock(hist['written'])      # the times of the model are the wire times written into the log
    judged, done = [], []
    made_by = {}        # id(cache entry) -> number of the read that returned it first
    alive = []
    fresh, refs = [None], {}
    for j, rd in enumerate(hist['reads']):
        mode = rd['align']
        site = 'C15/read-history-' + mode
        note = 'read %d of the history [%s] -> %s: ' % (j + 1, ' '.join(done), read_text(rd))
        # how the cache stands for this read: entries of an identical earlier read, all / some / none still in place
        same = [i for i in range(j) if hist['reads'][i] == rd]
        if same and mode != 'none' and not rd['ignore_cache']:
            kept = [t for t in rd['types'] if made_by.get(id(loader.data.get(by_name(t).MESSAGE_TYPE))) in same]
            ctx.count('aligned_read_repeated_%s_entries_still_cached' % ('all' if len(kept) == len(rd['types']) else 'some' if kept else 'no'))
        try:
            res = loader.read(**read_kwargs(rd))
            # the reference: the same types (and max_messages) read without alignment by a loader that never aligns and
            # never serves from its cache (one per history, opened without an index file)
            rkey = (tuple(sorted(rd['types'])), rd['max'])
            if rkey not in refs:
                if fresh[0] is None:
                    fresh[0] = DataLoader(path, save_index=False, ignore_index=True, num_threads=1)
                ref = fresh[0].read(message_types=[by_name(n) for n in rd['types']], show_progress=False, ignore_cache=True,
                                    **({} if rd['max'] is None else {'max_messages': rd['max']}))
                refs[rkey] = (ref, {k: [repr(canon.canon(m)) for m in md.messages] for k, md in ref.items()})
                for md in ref.values():
                    clock.learn(md.messages, complete_for=md.message_class.__name__ if rd['max'] is None else None)
            ref, ref_snaps = refs[rkey]
        except Exception as e:      # noqa
            ctx.violation(site + '-raised', note + 'read() raised %s: %s' % (type(e).__name__, e), hist)
            break
        alive.append((res, ref))
        if clock.problems:
            ctx.disagree('an unaligned read of a written log does not show the written messages (the harness relies on it): %s'
                         % '; '.join(clock.problems[:3]), hist)
            break
        for md in res.values():
            made_by.setdefault(id(md), j)
        if set(res.keys()) != set(ref.keys()):
            ctx.violation(site + '-keys-differ', note + 'the result has the types %s, an unaligned read by a fresh loader %s'
                          % (sorted(int(k) for k in res), sorted(int(k) for k in ref)), hist)
            break
        keys = list(res.keys())
        names = [ref[k].message_class.__name__ for k in keys]
        # one alignment of the fresh lists; a read without alignment is the alignment of no type
        step = {'mode': mode if mode != 'none' else 'drop', 'req': rd['req'] if mode != 'none' else [],
                'types': [[n, [clock(m) for m in ref[k].messages]] for n, k in zip(names, keys)]}
        originals = [list(ref[k].messages) for k in keys]
        snaps = [ref_snaps[k] for k in keys]
        views, flags, parts = [], {}, []
        cleared_any = False
        for n, k, lst, sn in zip(names, keys, originals, snaps):
            cls = by_name(n)
            idx = {}
            for i, x in enumerate(sn):
                idx.setdefault(x, i)
            shown = [lst[i] if i is not None else m for m, i in ((m, idx.get(repr(canon.canon(m)))) for m in res[k].messages)]
            views.append(_Listed(res[k], shown))
            # return_numpy: the numeric p1_time member is a second view of the aligned series (valid times only: which NaN
            # entries a conversion removes is not a statement of C15); with keep_messages=False it is the only one left
            converted = rd['numpy'] and hasattr(cls, 'to_numpy')
            arr = res[k].__dict__.get('p1_time') if (converted and has_p1(cls)) else None
            if arr is not None and not isinstance(arr, np.ndarray):
                arr = None
            cleared = converted and not rd['keep'] and len(res[k].messages) == 0
            if converted and not rd['keep'] and not cleared:
                ctx.count('observation_messages_not_cleared_by_return_numpy')
            cleared_any = cleared_any or cleared
            flags[str(int(cls.MESSAGE_TYPE))] = (not cleared, arr is not None)
            parts.append((cleared, arr))
        data = dict(zip(keys, views))
        r = {'data': data, 'ret': data, 'keys': keys, 'mds': views, 'originals': originals,
             'ids': [{id(m): i for i, m in enumerate(lst)} for lst in originals], 'snaps': snaps,
             'meta': [(ref[k].message_type, ref[k].message_class) for k in keys], 'err': None, 'matched_by_content': True,
             'timeof': clock}
        classify(ctx, step)
        ctx.count('read_history_reads_' + mode)
        if rd['numpy']:
            ctx.count('read_history_reads_numpy_' + ('keep_messages' if rd['keep'] else 'only'))
        if j and mode != 'none':
            ctx.count('aligning_reads_after_earlier_reads')
        ok = True
        if not cleared_any:
            ok = oracle(ctx, dict(step, mode=mode), r, prefix='C15/read-history-', replay=hist, note=note)
        full = impl_text(step, r).split(';')
        txt = []
        for s, (cleared, arr) in zip(full, parts):
            key, _, items = s.partition(':')
            s = key + ':' + ('~' if cleared else items)
            if arr is not None:
                s += '|' + ','.join(tkey(clock.of_float(float(t))) for t in arr if t == t)
            txt.append(s)
        judged.append((step, ';'.join(txt), flags, ok, note, mode))
        ctx.case('readhist %s %s' % (read_text(rd), model_line('align', step)), nontrivial=mode != 'none' and nontrivial(step))
        if not ok:
            break
        done.append(read_text(rd))
    return judged


def judge_read_history(ctx, hist, judged, outs):
    for j, (step, txt, flags, ok, note, mode) in enumerate(judged):
        mo, so = spec_view(outs[2 * j], flags), spec_view(outs[2 * j + 1], flags)
        if txt != mo:
            ctx.disagree('read() in a history != model of one alignment of the fresh lists, %simpl=%s model=%s' % (note, txt[:300], mo[:300]), hist)
        if ok and txt != so:
            ctx.violation('C15/read-history-%s-differs-from-spec' % mode, '%simpl=%s spec=%s' % (note, txt[:300], so[:300]), hist)
        if outs[2 * j] != outs[2 * j + 1]:
            ctx.disagree('model != spec (contradicts the proved refinement): %s vs %s' % (outs[2 * j][:200], outs[2 * j + 1][:200]), hist)
        ctx.cov['traces_validated_against_impl'] += 1


def run_read_histories(ctx, hists):
    import os
    import shutil
    import tempfile
    workdir = tempfile.mkdtemp(prefix='c15_', dir=fv.BUILD)
    lines, pending = [], []
    try:
        for n, hist in enumerate(hists):
            judged = run_read_history(ctx, hist, workdir, 'h%d' % n)
            for f in os.listdir(workdir):           # the log and its index file, if one was written
                os.remove(os.path.join(workdir, f))
            base = len(lines)
            for step, _, _, _, _, _ in judged:
                lines.append(model_line('align', step))
                lines.append(model_line('alignspec', step))
            pending.append((hist, judged, base))
    finally:
        shutil.rmtree(workdir, ignore_errors=True)
    outs = ctx.driver(lines)
    for hist, judged, base in pending:
        judge_read_history(ctx, hist, judged, outs[base: base + 2 * len(judged)])
    for hist, judged, _ in pending[:: max(1, len(pending) // 2)][:2]:
        ctx.sample({'read_history': hist, 'reads': [t for _, t, _, _, _, _ in judged]})


def file_order(rng, written):
    order = [q for q, (_, ts) in enumerate(written) for _ in ts]
    rng.shuffle(order)
    return order


def read_history_grid(ctx):
    """Directed family: an aligning read R, a read P that touches the cache entries of SOME of R's types (or all, or
    none) with other arguments, then R again (and a variant of R).  Log: two P1 types (of two different timestamp decoder
    families in half of the logs, the classes rotate over all that can go through a log) over every pair of subsets of three
    points of a grid of wire times, a third P1 type and a type without P1 time; R over {A,B} / {A,B,C} / {A,B,X} x {DROP, INSERT} x aligned_message_types."""
    fams = file_families()
    famlist = sorted(fams)
    p1all = sorted(n for ns in fams.values() for n in ns)
    nop1 = sorted(n for n, fc in file_classes().items() if not fc.p1)
    rng = ctx.rng
    subs = list(subsets([3, 6, 7]))         # on the 0.1 s grid from 0: 0.3, 0.6, 0.7 - none of them a float
    hists = []
    n = 0
    for sa, sb in itertools.product(subs, subs):
        # A, B: every other log from two different decoder families; C, X and the grid of wire times rotate
        n += 1
        fa = famlist[n % len(famlist)]
        A = fams[fa][(n // len(famlist)) % len(fams[fa])]
        fb = famlist[(n + n // 2 % 2 + 1) % len(famlist)]
        cand = [y for y in fams[fb] if y != A] or [y for y in p1all if y != A]
        B = cand[(n // 3) % len(cand)]
        C = [y for y in p1all if y not in (A, B)][n % (len(p1all) - 2)]
        X = nop1[n % len(nop1)]
        written, gname = to_wire([[A, sa], [B, sb], [C, [6, 7, 17]], [X, [None, None]]], rng, GRIDS[n % len(GRIDS)],
                                 0 if n % 8 == 1 else None)
        for mode in ('drop', 'insert'):
            other = 'insert' if mode == 'drop' else 'drop'
            Rs = [rd_make([A, B], mode), rd_make([A, B, X], mode), rd_make([A, B, C], mode, [A, B]), rd_make([B, A, C], mode),
                  rd_make([A, B], mode, numpy=True, keep=True), rd_make([A, B, C], mode, [A, C], req_form='type', types_form='type')]
            for R in (Rs if ctx.thorough else [Rs[rng.randrange(len(Rs))]]):
                T = R['types']
                Ps = [rd_make([A]), rd_make([B]), rd_make([T[-1]]), rd_make([A], mode), rd_make([B], other), rd_make(T, other),
                      rd_make(T[:2], mode, [A]), rd_make([A], numpy=True), rd_make([B], numpy=True, keep=True), rd_make([A, C], mode),
                      rd_make(T, 'none'), rd_make(T[1:], mode, R['req']), rd_make([A], mode, ignore_cache=True), rd_make([B], max=1),
                      rd_make(T, mode, R['req'], index=True), rd_make([A], bytes=True)]
                for P in (Ps if ctx.thorough else rng.sample(Ps, 3)):
                    last = rng.choice([R, R, dict(R, numpy=True, keep=True), dict(R, types=list(reversed(T))), dict(R, align=other)])
                    reads = [R, P, R] + ([last] if rng.random() < 0.3 else [])
                    hists.append({'via': 'read-history', 'written': written, 'grid': gname, 'order': file_order(rng, written),
                                  'index_file': rng.choice(['none', 'saved', 'existing']), 'threads': 1,
                                  'reads': [dict(x) for x in reads]})
    return hists


def random_read(rng, present, earlier):
    """One read over the types of the file (now and then one that is not there); half of the time an earlier read of the
    history again, as it was or with one argument changed."""
    if earlier and rng.random() < 0.5:
        rd = dict(rng.choice(earlier))
        if rng.random() < 0.5:
            return rd
        k = rng.choice(['types', 'align', 'req', 'numpy', 'form', 'misc'])
        if k == 'types':
            rd['types'] = rng.sample(present, rng.randrange(1, len(present) + 1))
        elif k == 'align':
            rd['align'] = rng.choice(['none', 'drop', 'insert'])
        elif k == 'req':
            rd['req'] = rng.choice([None, [], [n for n in rd['types'] if rng.random() < 0.6]])
        elif k == 'numpy':
            rd['numpy'], rd['keep'] = rng.choice([(False, False), (True, True), (True, False)])
        elif k == 'form':
            rd['types_form'], rd['req_form'] = rng.choice(['class', 'type', 'mixed']), rng.choice(['class', 'type', 'mixed'])
            rd['req_container'] = rng.choice(['list', 'set', 'tuple'])
        else:
            f = rng.choice(['bytes', 'index', 'ignore_cache', 'remove_nan'])
            rd[f] = not rd[f]
        return rd
    types = rng.sample(present, rng.randrange(1, len(present) + 1))
    absent = [n for n in ABSENT if n not in present]
    if rng.random() < 0.08 and absent:
        types.append(rng.choice(absent))
    align = rng.choice(['none', 'drop', 'insert', 'drop', 'insert'])
    r = rng.random()
    req = None if r < 0.5 else [n for n in types if rng.random() < 0.6] + ([rng.choice(sorted(file_classes()))] if rng.random() < 0.2 else [])
    if req is not None:
        req = list(dict.fromkeys(req))
    numpy_, keep = rng.choice([(False, False), (False, False), (True, True), (True, False)])
    return rd_make(types, align, req, types_form='single' if len(types) == 1 and rng.random() < 0.3 else rng.choice(['class', 'type', 'mixed']),
                   req_form=rng.choice(['class', 'type', 'mixed']), req_container=rng.choice(['list', 'set', 'tuple']),
                   numpy=numpy_, keep=keep, remove_nan=rng.random() < 0.8, bytes=rng.random() < 0.15, index=rng.random() < 0.15,
                   ignore_cache=rng.random() < 0.1, max=rng.choice([1, 2, 3, 5, -1, -2, -4]) if rng.random() < 0.1 else None)


def random_read_history(rng):
    """Random file (as random_case: nested / disjoint / empty / repeated / unordered / invalid times) and 2-4 reads."""
    case = random_file_case(rng, limit=10)
    written = case['types']
    present = [nm for nm, _ in written]
    reads = []
    for _ in range(rng.choice([2, 3, 3, 3, 4])):
        reads.append(random_read(rng, present, reads))
    return {'via': 'read-history', 'written': written, 'grid': case['grid'], 'order': file_order(rng, written),
            'index_file': rng.choice(['none', 'saved', 'existing']), 'threads': 1 if rng.random() < 0.97 else None, 'reads': reads}


def run(ctx, budget):
    cases = exhaustive(ctx) + sequences(ctx)
    ctx.count('exhaustive_grid_cases', len(cases))
    rnd = [scale_case(random_case(ctx.rng)) for _ in range(budget)]
    ctx.count('random_cases', len(rnd))
    run_cases(ctx, cases + rnd)
    run_cases(ctx, sized_cases(ctx, SIZE_EXPONENTS_QUICK))
    if ctx.thorough:
        run_cases(ctx, sized_cases(ctx, SIZE_EXPONENTS_THOROUGH, big=True, plan=big_plan), workers=8)
    hists = history_grid(ctx)
    ctx.count('history_grid', len(hists))
    hists += sized_histories(ctx, SIZE_EXPONENTS_QUICK)
    hists += history_sequences(ctx, 6000 if ctx.thorough else 800)
    hists += [random_history(ctx.rng) for _ in range(budget)]
    run_histories(ctx, hists)
    wg = wire_grid(ctx)
    ctx.count('wire_grid_cases', len(wg))
    run_read_cases(ctx, wg + random_read_cases(ctx, 400 if ctx.thorough else 100))
    grid = read_history_grid(ctx)
    ctx.count('read_history_grid', len(grid))
    rnd = [random_read_history(ctx.rng) for _ in range(4000 if ctx.thorough else 700)]
    ctx.count('read_history_random', len(rnd))
    run_read_histories(ctx, grid + rnd)
    numpy_model(ctx, 3000 if ctx.thorough else 600)


def search(ctx):
    run_cases(ctx, [scale_case(random_case(ctx.rng)) for _ in range(6000)])
    run_histories(ctx, [random_history(ctx.rng) for _ in range(4000)])
    run_read_histories(ctx, [random_read_history(ctx.rng) for _ in range(3000)])


def check(ctx):
    ctx.cov['rule'] = ('dicts of MessageData built from real message objects (PoseMessage, GNSSInfoMessage, PoseAuxMessage, IMUOutput, '
                       'GNSSSatelliteMessage with P1 time; EventNotificationMessage, RawIMUOutput, VersionInfoMessage without). '
                       'Exhaustive: every pair of subsets of a 4-point grid for 2 P1 types (+1 type without P1 time) x {DROP, INSERT} x '
                       'choices of message_types; every triple of subsets for 3 P1 types (+ a type without P1 time / an empty one) x '
                       '{DROP, INSERT} with message_types=None and a rotating explicit choice; all pairs of sequences (order, duplicates, '
                       'NaN) of length <= 3 over {1,2,NaN} (35% sample in the quick tier). Random: 1-5 types, up to 40 distinct times, '
                       'duplicates, unsorted input, negative and half-integer times, invalid (NaN) P1 times, message_types as list/set/tuple '
                       'of MessageType / classes incl. types absent from the dict. Compared per type: which input object (by id()) or '
                       'fabricated object sits at each position and its float(p1_time). BOUNDARY SIZES: a counted quantity put at '
                       '2^k-1, 2^k, 2^k+1, 2^k+2 for k = 7, 8 (thorough: also k = 15 and 2^16-1..2^16+1, run-length time lists, the two '
                       'classes with the smallest content, one Lean function - spec for INSERT, model for DROP - per case): the number of '
                       'epochs of the INSERT union (with a type that has every epoch at any place of the dict / with single-epoch and '
                       'first+last-only partners / with no complete type), the number of epochs common to all types in DROP (each type '
                       'with private extras), the number of messages of one type (union a little larger, either mode); 2-4 types, holes '
                       'incl. the first / last epoch, leading / trailing parts, stored out of order or with repeated epochs, plus '
                       'histories INSERT -> second alignment of the now complete series at the same sizes; judged like every case: which '
                       'input OBJECT is at every position, content of every input object before / after, default content of every '
                       'inserted one. HISTORIES on one dict: 1-4 '
                       'time_align_data() calls with different modes / type lists, numeric conversions that keep the messages '
                       '(DataLoader.to_numpy(data, keep_messages=True, remove_nan_times=T/F), MessageData.to_numpy() of single entries) '
                       'before / between / after the calls; three P1 types over the subsets of a 3-point grid x every ordered pair of '
                       'calls from {DROP, INSERT} x {all, each pair of types} x placement of the conversions (thorough: all histories '
                       'converting before the first call, 10-15% of the others; quick: 1-4%), random histories over the random dicts, '
                       'histories over short lists with repeated / unordered / NaN times, and histories that start with '
                       'read(time_align=..., return_numpy=T/F, keep_messages=True) on a written log and go on with the dict it '
                       'returned. Every call of a history is judged against the lists found immediately before it (property oracle + '
                       'Lean model + Lean spec of one call), the final lists against alignSeq / specAlignSeq of the whole history. '
                       'HISTORIES OF read() CALLS ON ONE DataLoader: written logs of 1-5 types; 2-4 reads, each with its own type list '
                       '(classes / MessageType / mixed / a single class; now and then a type that is not in the file), time_align in '
                       '{NONE, DROP, INSERT}, aligned_message_types (None / [] / subsets, list / set / tuple), return_numpy with '
                       'keep_messages True / False, remove_nan_times, return_bytes, return_message_index, ignore_cache, max_messages; the '
                       'loader opened without an index file / writing one / finding one; half of the random reads repeat an earlier read '
                       'of the history as it was or with one argument changed.  Directed: two P1 types over every pair of subsets of a '
                       '3-point grid + a third P1 type + a type without P1 time, histories R P R [R\'] with R an '
                       'aligning read over {A,B} / {A,B,C} / {A,B,X} and P one of 16 reads that replace the cache entries of some, all or '
                       'none of R\'s types (other mode, other type list, other selection, unaligned, numeric, ignore_cache, max_messages; '
                       'quick: one R and three P per pair and mode, thorough: all).  EVERY read of a history is judged: the property '
                       'oracle and the Lean model + spec of ONE alignment (a read without alignment: the alignment of no type) applied to '
                       'the lists a loader that never aligns and never serves from its cache reads for the same types and '
                       'max_messages, objects matched by content; with return_numpy the valid times of the numeric p1_time member are '
                       'compared with the same spec result (with keep_messages=False that member is all that is left of a type). '
                       'DATA READ FROM A LOG (all stages that write a file): the harness writes the P1 time of every message itself as '
                       'the wire integers (seconds, nanoseconds) on a grid of 1 s (also with a constant fraction) / 0.1 s / 1 ms / 1 ns from '
                       'a base of 0 / < 1000 s / < 2^20 s, into payloads of every class that can go through a log (discovered: a '
                       'default instance packs and unpacks, a field carries a serial through pack()/unpack(), the 8 payload bytes of '
                       'p1_time are located and verified) - P1-time classes of EVERY timestamp decoder family (family = the functions '
                       'of messages/timestamp.py that the class\'s unpack() runs, observed with sys.setprofile; random logs draw two '
                       'classes of every family) and classes without P1 time.  The time of the model / spec / oracle is the WIRE value '
                       'seconds*10^9+nanoseconds of the written message (known by its serial); an entry that is no message of the log '
                       'has the wire time of the messages whose decoded float it equals exactly, else it is reported '
                       '(inserted-time-is-no-time-of-the-data); at every position the floats of all aligned types must be equal '
                       '(timestamps-at-one-position-differ).  Directed wire grids: every P1-time class x a partner from every decoder '
                       'family (quick: one rotating partner per family; thorough: all) [+ a third type], 20 epochs with different '
                       'holes per type, repeated / unordered epochs, DROP and INSERT on the 0.1 s grid from 0 plus one more grid and '
                       'base (thorough: all four grids), aligned by read(time_align=...) or by time_align_data() on the dict of an '
                       'unaligned read (objects then known by id()). '
                       'non-trivial = at least two aligned types, '
                       'one of them non-empty; distinct = distinct (mode, message_types, per-type time lists)')
    ctx.assumptions += [
        'in-memory stages (dicts built from message objects): times are exactly representable floats (integers and half-integers '
        'scaled to integers for the model); the theorems are over Option Int with none = NaN, float rounding plays no role in '
        'time_align_data (only ==, sort)',
        'file-based stages (read_case, wire grids, read histories): the "exactly representable times" assumption is LIFTED - the '
        'harness writes wire timestamps (seconds, nanoseconds) on 0.1 s / 1 ms / 1 ns grids, most of which no float represents '
        '(counted: file_wire_times_that_no_float_represents_exactly), and the abstract time of the Lean model is the wire value '
        'seconds*10^9+nanoseconds written into the log, not a decoded float: two messages written with the same wire timestamp are '
        'at the same epoch, DROP must keep exactly the wire epochs present in all aligned types, INSERT exactly the union, each '
        'once, ascending, and an inserted default must carry exactly the float of the real messages of that epoch.  The Lean model '
        'stays over abstract ordered times (Option Int); the harness maps wire timestamps to them.  Remaining assumption: wire '
        'seconds < 2^20 (so that distinct wire times can decode to distinct, equally ordered floats; the harness checks on every '
        'log that the unaligned read shows every written message and that no two wire times decode to one float)',
        'np.unique / np.intersect1d(return_indices=True) are modelled by their documented semantics (sorted distinct values, '
        'first-occurrence indices, NaN last / collapsed / never equal) and compared with numpy directly on random arrays',
        'object identity is id() with every input object kept alive; "unchanged content" is tools/canon.py canon() before/after of every '
        'input object (not part of the Lean model)',
        'the dict is modelled as the list of its items in iteration order',
        'a numeric conversion with keep_messages=True is the identity on the model state (the message lists); the harness checks that '
        'it leaves the lists alone (a difference is reported as a correspondence failure, it is not a statement of C15); what it '
        'attaches to the entry is no input of time_align_data in the model - an implementation that reads it is judged by its results',
        'a read() result is compared with the reference read by CONTENT (canon() of every message; every written message is '
        'distinct): an entry equal in content to the i-th message the reference loader read for that type counts as that message; '
        'the reference is DataLoader(path, save_index=False, ignore_index=True).read(same types, same max_messages, ignore_cache=True)',
        'observed, outside the property text: read(return_numpy=True, return_bytes=True) does not finish the numeric conversion '
        '(np.array(list of bytes, dtype=uint64) raises ValueError, which DataLoader.to_numpy() swallows): NaN times stay in the arrays '
        'and keep_messages=False does not clear the messages (counted as observation_messages_not_cleared_by_return_numpy); the '
        'harness then judges the messages, and compares only the valid times of the arrays',
        'observed, outside the property text: an inserted message carries its time as numpy.float64 rather than Timestamp (pack() of it '
        'raises); MessageData.message_bytes / message_index / num_messages and the numpy members attached by to_numpy() are not '
        'realigned by time_align_data (counted as observation_numpy_members_not_realigned)']
    ctx.prove(MODULES)
    try:
        run(ctx, 6000 if ctx.thorough else 1200)
    except fv.InfraError:
        if not ctx.proof_failures:
            raise
    return fv.finish(ctx, 'proof', search)


def replay(ctx, path):
    obj = json.load(open(path))
    case = obj['input']
    if 'numpy_line' in case:
        numpy_model(ctx, 50)
    elif case.get('via') == 'read-history':
        run_read_histories(ctx, [case])
    elif case.get('via') == 'read':
        run_read_cases(ctx, [{'mode': case['mode'], 'req': case['req'], 'types': case['written'], 'order': case.get('order'),
                              'grid': case.get('grid'), 'read_numpy': case.get('read_numpy', False),
                              'read_align': case.get('read_align', True), 'ops': case.get('ops', []), 'threads': case.get('threads')}])
    elif 'ops' in case:
        run_histories(ctx, [case])
    else:
        run_cases(ctx, [case])
    return fv.finish(ctx, 'proof', None)
