"""C16 - numeric array conversion (`to_numpy`) faithfully mirrors message fields.

Stage A  tools/c16_numpy_extract.py reads every `to_numpy` classmethod (ast) -> lean/FeVerif/Generated/Numpy.lean; the
         translator is validated against the running package (field names, class list) and against the Lean side
         (`np_table` of the compiled driver must print the table the translator believes it wrote).
Stage B  FeVerif.Props.C16 (decide over the regenerated table + the universally quantified map / removal theorems).
Stage C  for every registered class: real `cls.to_numpy(msgs)` vs the Lean evaluation of the extracted table on the same
         objects (sent as field-path -> value maps), real `MessageData.to_numpy(remove_nan_times=..)` vs the Lean
         `removeNan` applied to the real dictionary.
Stage D  the property statement directly against the real output (independent of table and model).

Sequences  (`run_sequences`) data dictionaries of MessageData entries driven through add_message / to_numpy (every flag
         combination, per entry and through DataLoader.to_numpy) / changes of the message list (rebinding, slice assignment,
         in-place changes of a message, DataLoader.time_align_data INSERT/DROP against other entries) / more messages / to_numpy
         again: after EVERY conversion the members must describe the list the entry held (stage D), and each call is compared
         with the Lean model of the whole call, `mdToNumpy` ("already converted?" test, update, removal), from the real members
         before it (stage C).

Dictionaries  (`dictionary_scripts`, the unconvertible entries of `random_script`, `run_reads`) conversions of WHOLE dictionaries:
         DataLoader.to_numpy(data) on dictionaries of three or four entries one or two of which cannot be converted (a message
         type without payload class, empty or holding messages; a class with a variable-length list field whose messages carry
         lists of different lengths, which np.array refuses with ValueError) standing ahead of / between / behind the
         convertible ones (every class in each of the three places, small dictionaries in every iteration order), and
         DataLoader.read(return_numpy=True) of generated logs (all types / listed types, one or two reads on a loader): EVERY
         convertible entry must satisfy the oracle of the sequences whatever stands beside it, the others must be left as they
         were; the loop of DataLoader.to_numpy is `loaderToNumpy` in Model/Numpy.lean (which entries are entered is compared).

Inputs: random objects with pairwise distinct values (`cases`), and for every integer-valued field the boundary values of its
wire type (`wire_cases`; the range of a field is what survives pack()/unpack()), as attributes and as produced by unpack().
"""
import enum
import json
import struct

import numpy as np

import c16_numpy_extract as nx
import fv

MODULES = ['FeVerif.Props.C16']

SIG_TRIM = 'C16/CalibrationStatus/leading-unknown-trimmed'
SIG_P1FILL = 'C16/MeasurementDetails/p1_time-nan-filled-from-measurement_time'
SIG_MIXED_TS = 'C16/generic-path/timestamp-field-holding-plain-float-left-unconverted'


# ---- encoding of values ---------------------------------------------------------------------------------------------
def fbits(x):
    return struct.unpack('<Q', struct.pack('<d', float(x)))[0]


def fhex(x):
    return 'f%x' % fbits(x)


def from_fhex(s):
    return struct.unpack('<d', struct.pack('<Q', int(s[1:], 16)))[0]


def scalar_text(x):
    if isinstance(x, (bool, np.bool_)):
        return 'i%d' % int(x)
    if isinstance(x, enum.Enum):
        return 'i%d' % int(x.value)
    if isinstance(x, (int, np.integer)):
        return 'i%d' % int(x)
    if isinstance(x, (float, np.floating)):
        return fhex(x)
    return None


def is_num_array(a):
    return isinstance(a, np.ndarray) and a.dtype.kind in 'fiub'


def number_list(v):
    """a non-empty plain list of numbers (what a construct-based unpack() leaves where __init__ put an ndarray)"""
    return isinstance(v, list) and len(v) > 0 and all(scalar_text(x) is not None and not isinstance(x, enum.Enum) for x in v)


def val_text(v, lists=False):
    """Lean `Val` text of one attribute value, or 'o' (no numeric content).  `lists`: a plain list of numbers is sent as a
    vector (np.array([...]) of lists stacks them exactly like 1-D arrays; the generic path however tests isinstance(ndarray),
    so there a list stays 'o' = decided by running only)."""
    from fusion_engine_client.messages.timestamp import Timestamp
    if isinstance(v, Timestamp):
        return 't%x' % fbits(v.seconds)
    s = scalar_text(v)
    if s is not None:
        return s
    if lists and number_list(v):
        return 'v' + '/'.join(scalar_text(x) for x in v)
    if is_num_array(v):
        if v.ndim == 1:
            return 'v' + '/'.join(scalar_text(x) for x in v)
        if v.ndim == 2 and v.shape[1] > 0:
            return 'm%d/' % v.shape[1] + '/'.join(scalar_text(x) for x in v.flatten())
    return 'o'


def get_path(obj, path):
    for seg in path:
        if seg.endswith('()'):
            obj = getattr(obj, seg[:-2])()
        else:
            obj = getattr(obj, seg)
    return obj


def msg_map(obj, extra_paths=(), lists=False):
    """field path -> value text: every attribute (recursively through nested objects), plus the table's paths that are not
    plain attributes (resolved by `__getattr__`, or method calls)."""
    res = {}

    def walk(o, prefix, depth):
        for k, v in vars(o).items():
            p = prefix + k
            res[p] = val_text(v, lists)
            if res[p] == 'o' and hasattr(v, '__dict__') and not isinstance(v, (enum.Enum, type)) and depth < 3:
                walk(v, p + '.', depth + 1)
    walk(obj, '', 0)
    for path in extra_paths:
        p = '.'.join(path)
        if p and p not in res:
            try:
                res[p] = val_text(get_path(obj, path), lists)
            except AttributeError:
                pass
    return res


def msgs_text(maps):
    if not maps:
        return '-'
    return ';'.join(','.join('%s=%s' % kv for kv in m.items()) if m else '_' for m in maps)


def arr_text(v):
    """canonical text of one value of the real dictionary (the driver's array syntax); None = not comparable."""
    if isinstance(v, (bool, int, float, np.integer, np.floating, np.bool_)):
        return 's:' + scalar_text(v)
    if is_num_array(v):
        if v.dtype.kind == 'f' and v.dtype != np.float64:
            return 'x:float%d' % (8 * v.dtype.itemsize)       # never equal to a model answer
        flat = '/'.join(scalar_text(x) for x in v.flatten())
        if v.ndim == 0:
            return 's:' + scalar_text(v[()])
        if v.ndim == 1:
            return '1:%d:%s' % (v.shape[0], flat)
        if v.ndim == 2:
            return '2:%dx%d:%s' % (v.shape[0], v.shape[1], flat)
        if v.ndim == 3:
            return '3:%dx%dx%d:%s' % (v.shape[0], v.shape[1], v.shape[2], flat)
    return None


def parse_dict(s):
    if s == '-':
        return {}
    return dict(kv.split('=', 1) for kv in s.split('|'))


# ---- object generation ----------------------------------------------------------------------------------------------
class Distinct:
    """pairwise distinct floats (with fractional part) and ints from the check's rng"""

    def __init__(self, rng):
        self.rng = rng
        self.used = set()

    def flt(self, lo=1.0, hi=5000.0):
        while True:
            x = self.rng.uniform(lo, hi)
            if x != int(x) and x not in self.used:
                self.used.add(x)
                return x

    def int(self, hi=1 << 31):
        while True:
            x = self.rng.randrange(1, hi)
            if x not in self.used:
                self.used.add(x)
                return x


def tuple_types():
    """name -> class of the NamedTuple types message fields are made of (elements of variable-length list fields, interface
    identifiers): every NamedTuple class of the messages package whose defaults allow a bare construction"""
    if not _TUPLE_TYPES:
        import fusion_engine_client.messages as pkg
        import fusion_engine_client.messages.configuration as conf
        for mod in (pkg, conf):
            for nm, c in vars(mod).items():
                if isinstance(c, type) and issubclass(c, tuple) and hasattr(c, '_fields') and c.__module__.startswith('fusion_engine_client'):
                    try:
                        c()
                    except Exception:     # noqa
                        continue
                    _TUPLE_TYPES[nm] = c
    return _TUPLE_TYPES


_TUPLE_TYPES = {}
# element type of the variable-length list fields (by field name) whose elements are NamedTuples
LIST_ELEMENT_TYPES = {'rates': 'RateResponseEntry', 'interfaces': 'InterfaceID'}


def is_named_tuple(v):
    return isinstance(v, tuple) and hasattr(type(v), '_fields')


def make_tuple(T, values):
    """T(*values) with every value given the type of the field's default (enumerations)"""
    dflt = T()
    vals = []
    for d, x in zip(dflt, values):
        if isinstance(d, enum.Enum):
            try:
                x = type(d)(x)
            except ValueError:
                pass
        elif is_named_tuple(d) and isinstance(x, (list, tuple)):
            x = make_tuple(type(d), x)
        vals.append(x)
    return T(*vals)


def random_tuple(rng, T):
    """an element with random in-range values: any member of an enumeration, 0..199 for an integer (the wire types are 8 and 16
    bit unsigned)"""
    vals = []
    for d in T():
        if isinstance(d, enum.Enum):
            vals.append(rng.choice([m for m in type(d) if not str(m.name).startswith('_U_')]))
        elif is_named_tuple(d):
            vals.append(random_tuple(rng, type(d)))
        elif isinstance(d, int):
            vals.append(rng.randrange(0, 200))
        else:
            vals.append(d)
    return T(*vals)


def list_fields(cls):
    """names of the variable-length list fields of the class whose element type is known"""
    try:
        d = vars(cls())
    except Exception:     # noqa
        return []
    return [k for k, v in d.items() if isinstance(v, list) and LIST_ELEMENT_TYPES.get(k) in tuple_types()]


def fill(obj, dist, rng, enum_pos, depth=0, list_len=None):
    """assign a fresh valid value to every attribute of a default-constructed object (recursively).  list_len: the number of
    elements given to every variable-length list field (None: left empty)"""
    from fusion_engine_client.messages.timestamp import Timestamp
    from fusion_engine_client.messages.measurement_details import MeasurementDetails
    for k, v in list(vars(obj).items()):
        if list_len is not None and isinstance(v, list) and LIST_ELEMENT_TYPES.get(k) in tuple_types():
            T = tuple_types()[LIST_ELEMENT_TYPES[k]]
            setattr(obj, k, [random_tuple(rng, T) for _ in range(list_len)])
            continue
        if isinstance(v, Timestamp):
            setattr(obj, k, Timestamp(dist.flt()))
        elif isinstance(v, (bool, np.bool_)):
            setattr(obj, k, rng.random() < 0.5)
        elif isinstance(v, enum.Enum):
            members = [m for m in type(v) if not str(m.name).startswith('_U_')]
            i = enum_pos.get((type(obj).__name__, k), rng.randrange(len(members)))
            enum_pos[(type(obj).__name__, k)] = i + 1
            setattr(obj, k, members[i % len(members)])
        elif isinstance(v, (int, np.integer)):
            setattr(obj, k, dist.int())
        elif isinstance(v, (float, np.floating)):
            setattr(obj, k, dist.flt())
        elif is_num_array(v):
            if v.dtype.kind == 'f':
                a = np.array([dist.flt() for _ in range(v.size)], dtype=v.dtype).reshape(v.shape)
            else:
                a = np.array([dist.int(200) for _ in range(v.size)], dtype=v.dtype).reshape(v.shape)
            setattr(obj, k, a)
        elif isinstance(v, MeasurementDetails) and depth < 2:
            fill(v, dist, rng, enum_pos, depth + 1)
        elif k == 'svs' and isinstance(v, list):
            from fusion_engine_client.messages.solution import SatelliteInfo
            svs = []
            for _ in range(rng.randrange(0, 4)):
                sv = SatelliteInfo()
                fill(sv, dist, rng, enum_pos, depth + 1)
                svs.append(sv)
            setattr(obj, k, svs)
    return obj


def tuple_ints(t):
    return [tuple_ints(x) if is_named_tuple(x) else int(x) if isinstance(x, (int, enum.Enum, np.integer)) else repr(x) for x in t]


def encode_obj(obj):
    """replayable description of an object: path -> value text (nested objects and lists of objects included)"""
    res = {}

    def walk(o, prefix, depth):
        for k, v in vars(o).items():
            p = prefix + k
            t = val_text(v)
            if t != 'o':
                res[p] = t
            elif is_named_tuple(v):
                res[p + '@nt'] = [type(v).__name__, tuple_ints(v)]
            elif isinstance(v, list) and v and all(is_named_tuple(x) for x in v) and len({type(x) for x in v}) == 1:
                res[p + '#nt'] = [type(v[0]).__name__, [tuple_ints(x) for x in v]]
            elif isinstance(v, list) and v and all(hasattr(x, '__dict__') for x in v):
                res[p + '#'] = len(v)
                for i, x in enumerate(v):
                    walk(x, '%s[%d].' % (p, i), depth + 1)
            elif hasattr(v, '__dict__') and not isinstance(v, (enum.Enum, type)) and depth < 3:
                walk(v, p + '.', depth + 1)
    walk(obj, '', 0)
    return res


def decode_value(old, text):
    from fusion_engine_client.messages.timestamp import Timestamp

    def sc(t):
        return int(t[1:]) if t[0] == 'i' else from_fhex(t)
    if isinstance(old, Timestamp):
        return Timestamp(from_fhex('f' + text[1:]))
    if isinstance(old, enum.Enum):
        return type(old)(sc(text))
    if isinstance(old, (bool, np.bool_)):
        return bool(sc(text))
    if is_num_array(old):
        body = text[1:] if text[0] == 'v' else text.split('/', 1)[1] if '/' in text else ''
        xs = [sc(t) for t in body.split('/')] if body else []
        return np.array(xs, dtype=old.dtype).reshape(old.shape)
    return sc(text)


def decode_obj(cls, mp):
    obj = cls()

    def walk(o, prefix, depth):
        for k, v in list(vars(o).items()):
            p = prefix + k
            if p in mp:
                setattr(o, k, decode_value(v, mp[p]))
            elif (p + '@nt') in mp and mp[p + '@nt'][0] in tuple_types():
                setattr(o, k, make_tuple(tuple_types()[mp[p + '@nt'][0]], mp[p + '@nt'][1]))
            elif (p + '#nt') in mp and mp[p + '#nt'][0] in tuple_types():
                setattr(o, k, [make_tuple(tuple_types()[mp[p + '#nt'][0]], x) for x in mp[p + '#nt'][1]])
            elif (p + '#') in mp:
                from fusion_engine_client.messages.solution import SatelliteInfo
                items = []
                for i in range(mp[p + '#']):
                    x = SatelliteInfo()
                    walk(x, '%s[%d].' % (p, i), depth + 1)
                    items.append(x)
                setattr(o, k, items)
            elif hasattr(v, '__dict__') and not isinstance(v, (enum.Enum, type)) and depth < 3:
                walk(v, p + '.', depth + 1)
    walk(obj, '', 0)
    return obj


# ---- classes under test ---------------------------------------------------------------------------------------------
def targets():
    """(class, name of the class whose to_numpy it runs) for every registered payload class, plus MeasurementDetails"""
    from fusion_engine_client.messages import message_type_to_class
    from fusion_engine_client.messages.measurement_details import MeasurementDetails
    res = []
    seen = set()
    for t, c in sorted(message_type_to_class.items(), key=lambda x: int(x[0])):
        if c in seen:
            continue
        seen.add(c)
        owner = next(k for k in c.__mro__ if 'to_numpy' in k.__dict__)
        try:
            c()
        except Exception:
            continue
        res.append((c, owner.__name__))
    res.append((MeasurementDetails, 'MeasurementDetails'))
    return res


def field_value(m, key):
    """the field named `key` of the message, else of its embedded measurement details; (found, value)"""
    from fusion_engine_client.messages.measurement_details import MeasurementDetails
    d = vars(m)
    if key in d:
        return True, d[key]
    det = d.get('details')
    if isinstance(det, MeasurementDetails) and key in vars(det):
        return True, vars(det)[key]
    return False, None


def numeric(v):
    """the numeric content of a field as the property reads it (None: not a numeric field)"""
    from fusion_engine_client.messages.timestamp import Timestamp
    if isinstance(v, Timestamp):
        return float(v.seconds)
    if isinstance(v, enum.Enum):
        return int(v.value)
    if isinstance(v, (bool, np.bool_, int, np.integer)):
        return int(v)
    if isinstance(v, (float, np.floating)):
        return float(v)
    if is_num_array(v):
        return v
    if number_list(v):
        a = np.array(list(v))
        return a if is_num_array(a) else None
    return None


def exact_array(vals):
    """np.array(vals), except that a list of integers is never handed to numpy's dtype inference (which turns a mix of values
    below and above 2**63 into float64): the expected values stay the Python integers the fields hold"""
    if len(vals) > 0 and all(isinstance(v, int) and not isinstance(v, bool) for v in vals):
        return np.array([int(v) for v in vals], dtype=object)
    return np.array(vals)


def same_numbers(a, b):
    """elementwise: bit-identical floats (any NaN equals any NaN); where an integer is involved, exact equality of the
    mathematical values (no comparison after rounding one side to binary64); `b` may be an object array of Python ints"""
    a = np.asarray(a)
    b = np.asarray(b)
    if a.shape != b.shape:
        return False
    if a.size == 0:
        return True
    if b.dtype.kind == 'O' and all(isinstance(x, int) and not isinstance(x, bool) for x in b.flat):
        pass
    elif b.dtype.kind not in 'fiub':
        return False
    if a.dtype.kind not in 'fiub':
        return False
    if a.dtype.kind == 'f' and a.dtype != np.float64:
        return False                      # narrower float: precision lost
    if a.dtype.kind == 'f' and b.dtype.kind == 'f':
        bf = b.astype(np.float64)
        return bool(np.all((np.isnan(a) & np.isnan(bf)) | (a.view(np.uint64) == bf.view(np.uint64))))
    # Python's == between int and float (and between ints) is exact
    return all(x == y for x, y in zip(a.astype(object).flat, b.astype(object).flat))


def time_axis(a, n):
    """axis along which an array has one entry per message (convention of the package: last axis for 2-D, first otherwise)"""
    if a.ndim == 1:
        return 0 if a.shape[0] == n else None
    if a.ndim == 2:
        if a.shape[1] == n:
            return 1
        return 0 if a.shape[0] == n else None
    if a.ndim >= 3:
        return 0 if a.shape[0] == n else None
    return None


# ---- one case -------------------------------------------------------------------------------------------------------
class Case:
    def __init__(self, cls, owner, msgs, how):
        self.cls, self.owner, self.msgs, self.how = cls, owner, msgs, how
        self.packed = None      # form 'unpack': the bytes every message was unpacked from

    def replay(self, extra=None):
        r = {'class': self.cls.__name__, 'to_numpy_of': self.owner, 'how': self.how,
             'messages': [encode_obj(m) for m in self.msgs]}
        if self.packed is not None:
            r['unpacked_from_hex'] = [d.hex() for d in self.packed]
        if extra:
            r.update(extra)
        return r


def run_real(case):
    import warnings
    with warnings.catch_warnings():
        warnings.simplefilter('ignore')
        try:
            return case.cls.to_numpy(list(case.msgs)), None
        except Exception as e:     # noqa
            return None, '%s: %s' % (type(e).__name__, e)


def leading_unknown(case):
    """number of messages CalibrationStatus.to_numpy's documented trimming drops"""
    if case.owner != 'CalibrationStatus' or not case.msgs:
        return 0
    from fusion_engine_client.messages.solution import CalibrationStage
    stages = [int(m.calibration_stage) for m in case.msgs]
    k = 0
    if any(s != int(CalibrationStage.UNKNOWN) for s in stages):
        while stages[k] == int(CalibrationStage.UNKNOWN):
            k += 1
    return k


def unconverted_timestamps(msgs, key, got):
    """the field is a Timestamp in some messages and a plain number in others, and the output is the array of these objects
    themselves (dtype=object): the generic path converts a Timestamp column only when its first value is a Timestamp"""
    from fusion_engine_client.messages.timestamp import Timestamp
    rv = [field_value(m, key)[1] for m in msgs]
    if not (isinstance(got, np.ndarray) and got.dtype.kind == 'O' and got.shape == (len(rv),)):
        return False
    if not (any(isinstance(v, Timestamp) for v in rv) and any(isinstance(v, (float, np.floating)) for v in rv)):
        return False
    return all((g is v) if isinstance(v, Timestamp) else (isinstance(v, (float, np.floating)) and (g == v or (g != g and v != v)))
               for g, v in zip(got, rv))


def oracle_to_numpy(ctx, case, real):
    """Stage D on `cls.to_numpy(msgs)`: the property statement itself."""
    cls, msgs = case.cls, case.msgs
    n = len(msgs)
    name = cls.__name__
    ntd = list(real.get('__metadata__', {}).get('not_time_dependent', [])) if isinstance(real.get('__metadata__'), dict) else []
    # a documented deviation is recognised as such, so that it is reported under its own signature; the rest of the
    # statement is then checked against the messages that were actually converted
    trimmed = leading_unknown(case)
    if trimmed:
        p1 = real.get('p1_time')
        ctx.violation(SIG_TRIM, '%s.to_numpy drops the %d leading UNKNOWN-stage message(s): p1_time has %s entries for %d '
                      'messages, position i holds message i+%d' % (name, trimmed, getattr(p1, 'shape', None), n, trimmed),
                      case.replay())
        msgs = msgs[trimmed:]
        n = len(msgs)
    for key, out in real.items():
        if key == '__metadata__':
            continue
        found, _ = field_value(msgs[0], key) if n else field_value(cls(), key)
        if key in ntd:
            if found and n > 0:
                exp = numeric(field_value(msgs[0], key)[1])
                if exp is not None and not same_numbers(out, exp):
                    ctx.violation('C16/%s/%s-time-independent-not-first-message' % (name, key),
                                  '%s.to_numpy: %r is declared time-independent but is not the first message\'s value' % (name, key),
                                  case.replay({'key': key}))
            continue
        if not isinstance(out, np.ndarray):
            if found:
                ctx.violation('C16/%s/%s-not-an-array' % (name, key),
                              '%s.to_numpy: %r is a field but the output is %s and not declared time-independent'
                              % (name, key, type(out).__name__), case.replay({'key': key}))
            continue
        # one entry per message
        ax = time_axis(out, n) if n > 0 else (0 if out.size == 0 and len(out) == 0 else None)
        if ax is None:
            ctx.violation('C16/%s/%s-length-differs-from-message-count' % (name, key),
                          '%s.to_numpy: %r has shape %s for %d messages' % (name, key, out.shape, n), case.replay({'key': key}))
            continue
        if not found or n == 0:
            continue
        vals = [numeric(field_value(m, key)[1]) for m in msgs]
        if any(v is None for v in vals):
            continue                       # not a numeric field (str, bytes, tuple, None ...)
        try:
            exp = exact_array(vals)
        except ValueError:
            continue
        got = out
        if out.ndim == 2 and ax == 1:
            got = out.T
        if same_numbers(got, exp):
            continue
        # which positions differ?
        bad = [i for i in range(n) if got.shape[0] != n or not same_numbers(got[i], exp[i])]
        if unconverted_timestamps(msgs, key, got):
            ctx.violation(SIG_MIXED_TS, '%s.to_numpy(%d messages): field %r is a Timestamp in some messages and a plain float in message 0 '
                          '(as DataLoader.time_align_data(INSERT) leaves it in the messages it inserts): %r is an array of objects, the '
                          'Timestamps are not converted to seconds' % (name, n, key, key), case.replay({'key': key}))
            continue
        if key == 'p1_time' and hasattr(msgs[0], 'details') or (name == 'MeasurementDetails' and key == 'p1_time'):
            from fusion_engine_client.messages.measurement_details import SystemTimeSource
            det = [m if name == 'MeasurementDetails' else m.details for m in msgs]
            if all(np.isnan(float(det[i].p1_time)) and det[i].measurement_time_source == SystemTimeSource.P1_TIME
                   and same_numbers(got[i], float(det[i].measurement_time)) for i in bad):
                ctx.violation(SIG_P1FILL, '%s.to_numpy: p1_time[%d] is measurement_time (%r), the field is NaN' %
                              (name, bad[0], float(det[bad[0]].measurement_time)), case.replay({'key': key}))
                continue
        ctx.violation('C16/%s/%s-differs-from-field' % (name, key),
                      '%s.to_numpy(%d messages): %r at position %s is %r, field %r of that message is %r'
                      % (name, n, key, bad[:1], np.asarray(got[bad[0]]).tolist() if bad and got.shape[0] == n else got.shape,
                         key, np.asarray(exp[bad[0]]).tolist() if bad else None), case.replay({'key': key}))


def correspond_to_numpy(ctx, case, real, answer, opaque_keys):
    """Stage C: the Lean evaluation of the extracted table against the real dictionary."""
    name = case.cls.__name__
    if answer in ('unmodelled', 'bad-args', 'bad-op', 'no-such-class'):
        ctx.disagree('%s.to_numpy: model answered %s' % (name, answer), case.replay())
        return
    model = parse_dict(answer)
    for key, out in real.items():
        if key == '__metadata__':
            continue
        if key not in model:
            ctx.disagree('%s.to_numpy: key %r is not in the extracted table' % (name, key), case.replay({'key': key}))
            continue
        mt = model[key]
        if mt in ('?', '??'):
            opaque_keys.add('%s.%s' % (case.owner, key))
            continue
        rt = arr_text(out)
        if mt == '!' and rt is None and isinstance(out, np.ndarray) and out.dtype.kind == 'O':
            continue                      # the model's `bad` = "raises or builds a non-numeric array": an array of objects is one
        if rt != mt:
            ctx.disagree('%s.to_numpy: %r is %s, the table evaluates to %s' % (name, key, str(rt)[:120], mt[:120]),
                         case.replay({'key': key}))
    for key, mt in model.items():
        if key not in real and mt != '??':
            ctx.disagree('%s.to_numpy: table key %r is missing from the real dictionary' % (name, key), case.replay({'key': key}))


def run_message_data(case, remove):
    import warnings
    from fusion_engine_client.analysis.data_loader import MessageData
    md = MessageData(case.cls.MESSAGE_TYPE, None)
    for i, m in enumerate(case.msgs):
        md.add_message(m, message_bytes=24 + 8 * i, message_index=i)
    with warnings.catch_warnings():
        warnings.simplefilter('ignore')
        try:
            md.to_numpy(remove_nan_times=remove)
        except Exception as e:     # noqa
            return None, '%s: %s' % (type(e).__name__, e)
    return md, None


def oracle_removal(ctx, case, before, md, remove):
    """Stage D on MessageData.to_numpy: removing untimed entries removes the same positions from every time-dependent array."""
    name = case.cls.__name__
    n = len(case.msgs)
    after = md.__dict__
    ntd = list(before.get('__metadata__', {}).get('not_time_dependent', [])) if isinstance(before.get('__metadata__'), dict) else []
    p1 = before.get('p1_time')
    valid = None
    if remove and isinstance(p1, np.ndarray) and p1.ndim == 1 and p1.dtype.kind == 'f' and np.any(np.isnan(p1)):
        valid = ~np.isnan(p1)
    trimmed = leading_unknown(case)
    npos = len(p1) if isinstance(p1, np.ndarray) and p1.ndim == 1 else n - trimmed
    items = dict(before)
    items['message_index'] = np.arange(n, dtype=int)
    items['message_bytes'] = np.array([24 + 8 * i for i in range(n)], dtype=np.uint64)
    if trimmed:
        ctx.violation(SIG_TRIM, 'MessageData(%s): message_index has %d entries, p1_time %d (leading UNKNOWN-stage messages '
                      'trimmed): positions no longer correspond' % (name, n, npos), case.replay({'remove_nan_times': remove}))
    if npos != n:
        # (if this is not the documented trimming, the to_numpy oracle reports the length mismatch)
        del items['message_index'], items['message_bytes']
    for key, b in items.items():
        if key == '__metadata__':
            continue
        a = after.get(key)
        rp = case.replay({'key': key, 'remove_nan_times': remove})
        if not isinstance(b, np.ndarray) or key in ntd or valid is None:
            if isinstance(b, np.ndarray):
                ok = isinstance(a, np.ndarray) and a.shape == b.shape and (same_numbers(a, b) if is_num_array(b) else True)
            else:
                ok = True
            if not ok:
                ctx.violation('C16/MessageData/%s/%s-changed-though-exempt' % (name, key),
                              'MessageData(%s).to_numpy(remove_nan_times=%s): %r changed (shape %s -> %s) although it is '
                              'time-independent / nothing had to be removed' % (name, remove, key, b.shape, getattr(a, 'shape', None)), rp)
            continue
        if not is_num_array(b):
            continue
        ax = time_axis(b, npos)
        if ax is None:
            continue                       # not one entry per message: reported by the to_numpy oracle
        exp = np.compress(valid, b, axis=ax)
        if not (isinstance(a, np.ndarray) and a.shape == exp.shape and same_numbers(a, exp)):
            ctx.violation('C16/MessageData/%s-not-filtered-like-p1_time' % ('%dd-array' % b.ndim if b.ndim != 1 else key),
                          'MessageData(%s).to_numpy(): p1_time keeps positions %s of %d, but %r has shape %s afterwards '
                          '(expected %s: the same positions removed)' % (name, np.flatnonzero(valid).tolist(), npos, key,
                                                                       getattr(a, 'shape', None), exp.shape), rp)


def removal_request(before, n, remove):
    ntd = list(before.get('__metadata__', {}).get('not_time_dependent', [])) if isinstance(before.get('__metadata__'), dict) else []
    items = dict(before)
    items['message_bytes'] = np.array([24 + 8 * i for i in range(n)], dtype=np.uint64)
    items['message_index'] = np.arange(n, dtype=int)
    parts = []
    skipped = []
    for key, v in items.items():
        if key == '__metadata__':
            continue
        t = arr_text(v)
        if t is None or t.startswith('x:') or (isinstance(v, np.ndarray) and v.size == 0 and v.ndim > 1) \
                or (isinstance(v, np.ndarray) and v.ndim > 3):
            skipped.append(key)
            continue
        parts.append('%s=%s' % (key, t))
    return 'np_rmnan %d %s %s' % (1 if remove else 0, ','.join(ntd) or '-', '|'.join(parts) or '-'), skipped


def correspond_removal(ctx, case, before, md, remove, answer, skipped):
    name = case.cls.__name__
    rp = case.replay({'remove_nan_times': remove})
    if answer in ('unmodelled', 'bad-args', 'bad-op'):
        ctx.disagree('MessageData(%s).to_numpy: removal model answered %s' % (name, answer), rp)
        return
    model = parse_dict(answer)
    for key, mt in model.items():
        rt = arr_text(md.__dict__.get(key))
        if rt != mt:
            ctx.disagree('MessageData(%s).to_numpy(remove_nan_times=%s): %r is %s, the removal model gives %s'
                         % (name, remove, key, str(rt)[:100], mt[:100]), dict(rp, key=key))


# ---- case generation ------------------------------------------------------------------------------------------------
def set_p1(m, value):
    from fusion_engine_client.messages.timestamp import Timestamp
    from fusion_engine_client.messages.measurement_details import MeasurementDetails
    if isinstance(m, MeasurementDetails):
        m.p1_time = Timestamp(value)
    elif 'p1_time' in vars(m):
        m.p1_time = Timestamp(value)
    elif isinstance(vars(m).get('details'), MeasurementDetails):
        m.details.p1_time = Timestamp(value)


def make_case(ctx, cls, owner, n, invalid, how, stages=None, sources=None):
    rng = ctx.rng
    dist = Distinct(rng)
    enum_pos = {}
    msgs = []
    # variable-length list fields: the same number of elements (0..3) in every message of the list (lists of different lengths
    # have no array form: see `ragged_field`)
    list_len = rng.randrange(0, 4) if list_fields(cls) else None
    if list_len is not None:
        ctx.count('list_fields_with_%d_elements' % list_len)
    for i in range(n):
        m = fill(cls(), dist, rng, enum_pos, list_len=list_len)
        if i in invalid:
            set_p1(m, float('nan'))
        if stages is not None:
            m.calibration_stage = stages[i]
        if sources is not None:
            det = m if owner == 'MeasurementDetails' and not hasattr(m, 'details') else getattr(m, 'details', None)
            if det is not None:
                det.measurement_time_source = sources[i]
        msgs.append(m)
    return Case(cls, owner, msgs, how)


def subsets(rng, n, k):
    res = [set(), set(range(n))]
    for i in range(n):
        res.append({i})
    while len(res) < k + 2 + n:
        res.append({i for i in range(n) if rng.random() < 0.4})
    seen, out = set(), []
    for s in res:
        t = tuple(sorted(s))
        if t not in seen:
            seen.add(t)
            out.append(s)
    return out


# ---- integer-valued fields: wire ranges, boundary values, the two ways a message object comes into being -------------
FMT_RANGE = {'b': (-2 ** 7, 2 ** 7 - 1), 'B': (0, 2 ** 8 - 1), 'h': (-2 ** 15, 2 ** 15 - 1), 'H': (0, 2 ** 16 - 1),
             'i': (-2 ** 31, 2 ** 31 - 1), 'I': (0, 2 ** 32 - 1), 'l': (-2 ** 31, 2 ** 31 - 1), 'L': (0, 2 ** 32 - 1),
             'q': (-2 ** 63, 2 ** 63 - 1), 'Q': (0, 2 ** 64 - 1)}
_WIRE = {}


def is_int_value(v):
    return isinstance(v, (int, np.integer)) and not isinstance(v, (bool, np.bool_, enum.Enum))


def set_path(obj, path, value):
    for seg in path[:-1]:
        obj = getattr(obj, seg)
    setattr(obj, path[-1], value)


def roundtrip(cls, obj):
    """the object unpack() produces from the bytes pack() wrote"""
    import warnings
    with warnings.catch_warnings():
        warnings.simplefilter('ignore')
        data = bytes(obj.pack())
        p = cls()
        p.unpack(data)
    return p, data


def int_field_paths(obj):
    """[(path, shape or None)] of the integer-valued attributes (no bools, no enum members): scalars and integer arrays, of
    the object and of its embedded measurement details"""
    from fusion_engine_client.messages.measurement_details import MeasurementDetails
    res = []

    def walk(o, pre, depth):
        for k, v in vars(o).items():
            if is_int_value(v):
                res.append((pre + (k,), None))
            elif is_num_array(v) and v.dtype.kind in 'iu' and v.size > 0:
                res.append((pre + (k,), v.shape))
            elif isinstance(v, MeasurementDetails) and depth < 2:
                walk(v, pre + (k,), depth + 1)
    walk(obj, (), 0)
    return res


def construct_range(cls, name):
    """the range of the FormatField called `name` in a construct.Struct attribute of the class (None: no such declaration)"""
    try:
        import construct
    except ImportError:
        return None
    for k in cls.__mro__:
        for st in vars(k).values():
            if not isinstance(st, construct.Struct):
                continue
            for sc in st.subcons:
                if getattr(sc, 'name', None) != name:
                    continue
                while not isinstance(sc, construct.FormatField) and hasattr(sc, 'subcon'):
                    sc = sc.subcon
                if isinstance(sc, construct.FormatField) and sc.fmtstr[-1] in FMT_RANGE:
                    return FMT_RANGE[sc.fmtstr[-1]]
    return None


def wire_range(cls, path, shape):
    """(lo, hi, how) of the values the field can carry on the wire, found by asking pack()/unpack() (a value is in range iff a
    fresh object holding it comes back from its own bytes unchanged); None if that cannot be established"""
    key = (cls, path)
    if key in _WIRE:
        return _WIRE[key]

    def ok(v):
        o = cls()
        try:
            if shape is None:
                set_path(o, path, v)
            else:
                a = get_path(o, path).copy()
                a.flat[0] = v
                if int(a.flat[0]) != v:
                    return False
                set_path(o, path, a)
            r = get_path(roundtrip(cls, o)[0], path)
            if shape is not None:
                r = np.asarray(r).flat[0]
        except Exception:     # noqa  (struct.error, construct errors, OverflowError, TypeError of an unpackable default ...)
            return False
        return is_int_value(r) and int(r) == v
    res = None
    if ok(1) and ok(2):
        signed = ok(-1)
        best = None
        for bits in (8, 16, 32, 64):
            lo, hi = (-2 ** (bits - 1), 2 ** (bits - 1) - 1) if signed else (0, 2 ** bits - 1)
            if ok(lo) and ok(hi) and ok(hi - 1):
                best = (lo, hi)
            else:
                break
        if best is not None and not ok(best[1] + 1) and not ok(best[0] - 1):
            res = (best[0], best[1], 'pack/unpack round trip')
    if res is None and shape is None and len(path) == 1:
        r = construct_range(cls, path[0])
        if r is not None:
            res = (r[0], r[1], 'construct declaration')
    _WIRE[key] = res
    return res


def boundary_values(lo, hi):
    c = {lo, lo + 1, hi - 1, hi, -1, 0, 1, 2 ** 31 - 1, 2 ** 31, 2 ** 32 - 1, 2 ** 32, 2 ** 53 + 1, 2 ** 63 - 1, 2 ** 63,
         2 ** 64 - 1, -2 ** 31, -2 ** 31 - 1, -(2 ** 53 + 1)}
    return sorted(v for v in c if lo <= v <= hi)


def wire_fields(ctx, cls):
    """([(path, shape, lo, hi)], [(path, default value)] of the integer fields whose range could not be established)"""
    known, unknown = [], []
    dflt = cls()
    for path, shape in int_field_paths(dflt):
        r = wire_range(cls, path, shape)
        name = '%s.%s' % (cls.__name__, '.'.join(path))
        if r is None:
            unknown.append((path, get_path(dflt, path)))
            lst = ctx.cov.setdefault('integer_fields_without_established_wire_range', [])
            if name not in lst:
                lst.append(name)
        else:
            known.append((path, shape, r[0], r[1]))
            ctx.cov.setdefault('integer_field_wire_ranges', {})[name] = '%d..%d (%s)' % r
    return known, unknown


def random_in_range(rng, lo, hi):
    """a value of the range with a random magnitude (uniform values would nearly always be huge)"""
    span = hi - lo
    v = lo + (rng.getrandbits(rng.randrange(1, span.bit_length() + 1)) % (span + 1))
    return hi - (v - lo) if rng.random() < 0.3 else v


def make_wire_case(ctx, cls, owner, known, unknown, values, invalid, how, form, list_lens=None):
    """values: one {path: value} per message for the integer fields (missing = a random value of the field's range).
    form 'attr': the values are stored into the attributes of a filled object; form 'unpack': that object is packed and the
    message handed to to_numpy is what unpack() makes of the bytes."""
    rng = ctx.rng
    for minimal in (False, True):
        dist = Distinct(rng)
        enum_pos = {}
        msgs = []
        for i, vals in enumerate(values):
            m = cls() if minimal else fill(cls(), dist, rng, enum_pos)
            if minimal and 'p1_time' in vars(m):
                set_p1(m, dist.flt())
            for path, dflt in unknown:
                set_path(m, path, dflt)
            for path, shape, lo, hi in known:
                v = vals.get(path)
                if shape is None:
                    set_path(m, path, random_in_range(rng, lo, hi) if v is None else v)
                else:
                    a = get_path(m, path)
                    xs = v if v is not None else [random_in_range(rng, lo, hi) for _ in range(a.size)]
                    set_path(m, path, np.array(xs, dtype=a.dtype).reshape(shape))
            if list_lens is not None:
                for k in list_fields(cls):
                    setattr(m, k, [random_tuple(rng, tuple_types()[LIST_ELEMENT_TYPES[k]]) for _ in range(list_lens[i % len(list_lens)])])
            if i in invalid:
                set_p1(m, float('nan'))
            msgs.append(m)
        if form == 'attr':
            return Case(cls, owner, msgs, how + '/attr')
        try:
            pairs = [roundtrip(cls, m) for m in msgs]
        except Exception:     # noqa  (pack()/unpack() are not this property's subject: the form is unavailable for this object)
            continue
        case = Case(cls, owner, [p for p, _ in pairs], how + '/unpack')
        case.packed = [d for _, d in pairs]
        return case
    ctx.count('unpack_form_unavailable_' + cls.__name__)
    return None


def wire_cases(ctx, cls, owner, reps, maxn):
    """boundary values of the wire type of every integer field: each value alone, every pair of neighbouring boundaries and
    the two extremes together (what decides the dtype numpy infers), all of them in one list; random in-range values"""
    rng = ctx.rng
    known, unknown = wire_fields(ctx, cls)
    if not known:
        return
    bv = {path: boundary_values(lo, hi) for path, _, lo, hi in known}
    shapes = {path: shape for path, shape, _, _ in known}
    kmax = max(len(b) for b in bv.values())

    def at(path, fi, i):
        b = bv[path]
        if shapes[path] is None:
            return b[(i + fi) % len(b)]
        return [b[(i + fi + j) % len(b)] for j in range(int(np.prod(shapes[path])))]

    def msg(i, rot):
        # rot: fields are rotated against each other, so that same-typed fields hold different values in one message
        return {path: at(path, fi if rot else 0, i) for fi, path in enumerate(bv)}
    lists = []
    for i in range(kmax):
        lists.append(('boundary-single', [msg(i, False)]))
        lists.append(('boundary-pair', [msg(i, True), msg(i + 1, True)]))
    lists.append(('boundary-extremes', [msg(0, False), msg(-1, False)]))
    lists.append(('boundary-extremes', [msg(-1, False), msg(0, False), msg(1, False)]))
    lists.append(('boundary-all', [msg(i, True) for i in range(kmax)]))
    lists.append(('boundary-all', [msg(i, False) for i in reversed(range(kmax))]))
    for _ in range(reps):
        n = rng.randrange(1, maxn + 1)
        lists.append(('wire-random', [{path: (at(path, rng.randrange(64), rng.randrange(64)) if rng.random() < 0.4 else None)
                                       for path in bv} for _ in range(n)]))
    for how, values in lists:
        n = len(values)
        for form in ('attr', 'unpack'):
            invalid = set() if rng.random() < 0.6 else {i for i in range(n) if rng.random() < 0.4}
            case = make_wire_case(ctx, cls, owner, known, unknown, values, invalid, how, form)
            if case is not None:
                ctx.count('wire_' + how + '_' + form)
                yield case


def cases(ctx, classes, reps, maxn):
    from fusion_engine_client.messages.solution import CalibrationStage
    from fusion_engine_client.messages.measurement_details import SystemTimeSource
    import itertools
    rng = ctx.rng
    by_name = {c.name: c for c in classes}
    for cls, owner in targets():
        ci = by_name.get(owner)
        has_details = 'details' in vars(cls()) or owner == 'MeasurementDetails'
        for case in wire_cases(ctx, cls, owner, reps, maxn):
            yield case
        for n in range(0, maxn + 1):
            subs = subsets(rng, n, reps)
            for s in subs:
                yield make_case(ctx, cls, owner, n, s, 'random')
            if has_details and n > 0:
                srcs = list(SystemTimeSource)
                for _ in range(reps + 1):
                    so = [rng.choice(srcs) for _ in range(n)]
                    yield make_case(ctx, cls, owner, n, rng.choice(subs), 'time-sources', sources=so)
                # never a NaN P1 time with a P1_TIME source: the documented fill-in cannot trigger
                so = [rng.choice([s for s in srcs if s != SystemTimeSource.P1_TIME]) for _ in range(n)]
                yield make_case(ctx, cls, owner, n, rng.choice(subs), 'time-sources-no-p1', sources=so)
            if owner == 'CalibrationStatus' and n > 0:
                st = list(CalibrationStage)
                combos = list(itertools.product(st, repeat=n)) if n <= 3 else [tuple(rng.choice(st) for _ in range(n)) for _ in range(12)]
                for combo in combos:
                    yield make_case(ctx, cls, owner, n, rng.choice(subs), 'stages', stages=list(combo))


def tonumpy_request(classes, ci, case):
    """the driver request evaluating the extracted table of the class (or the generic path) on the messages of the case"""
    if ci.generic:
        maps = [msg_map(m) for m in case.msgs]
        for mp in maps:      # generic path looks at top-level attributes only, sorted
            for k in [k for k in mp if '.' in k]:
                del mp[k]
        maps = [dict(sorted(mp.items())) for mp in maps]
        dflt = ','.join(sorted(vars(case.cls()).keys())) or '-'
        return 'np_generic %s %s' % (dflt, msgs_text(maps))
    paths = [e.path for e in nx.flat_entries(classes, ci) if e.path]
    paths += [q for e in nx.flat_entries(classes, ci) if e.kind[0] == 'fillNaN' for q in (e.kind[1], e.kind[2])]
    if ci.prelude[0] == 'trimLeadingEq':
        paths.append(ci.prelude[1])
    maps = [msg_map(m, paths, lists=True) for m in case.msgs]
    return 'np_tonumpy %s %s' % (case.owner, msgs_text(maps))


def judge_all(ctx, classes, batch):
    """batch: list of Case.  Runs the real code, asks the driver, applies correspondence + oracle."""
    by_name = {c.name: c for c in classes}
    lines = []
    plan = []
    for case in batch:
        real, err = run_real(case)
        ctx.count('class_' + case.cls.__name__)
        ctx.count('len_%d' % len(case.msgs))
        if err is not None:
            ctx.violation('C16/%s/to_numpy-raised' % case.cls.__name__, '%s.to_numpy(%d messages) raised %s'
                          % (case.cls.__name__, len(case.msgs), err), case.replay())
            continue
        ci = by_name.get(case.owner)
        if ci is None:
            ctx.disagree('no extracted table for %s (to_numpy of %s)' % (case.cls.__name__, case.owner), case.replay())
            continue
        lines.append(tonumpy_request(classes, ci, case))
        item = {'case': case, 'real': real, 'tn': len(lines) - 1, 'md': []}
        if hasattr(case.cls, 'MESSAGE_TYPE') and 'p1_time' in real:
            for remove in (True, False):
                if not remove and ctx.rng.random() < 0.7:
                    continue
                md, err = run_message_data(case, remove)
                if err is not None:
                    ctx.violation('C16/MessageData/%s/to_numpy-raised' % case.cls.__name__,
                                  'MessageData(%s).to_numpy(remove_nan_times=%s) raised %s' % (case.cls.__name__, remove, err),
                                  case.replay({'remove_nan_times': remove}))
                    continue
                req, skipped = removal_request(real, len(case.msgs), remove)
                lines.append(req)
                item['md'].append((remove, md, len(lines) - 1, skipped))
        plan.append(item)
    outs = ctx.driver(lines)
    opaque_keys = ctx.cov.setdefault('opaque_keys_decided_by_running_only', [])
    ok = set(opaque_keys)
    for item in plan:
        case, real = item['case'], item['real']
        before = len(ctx.disagreements) + len(ctx.violations)
        correspond_to_numpy(ctx, case, real, outs[item['tn']], ok)
        oracle_to_numpy(ctx, case, real)
        for remove, md, li, skipped in item['md']:
            correspond_removal(ctx, case, real, md, remove, outs[li], skipped)
            oracle_removal(ctx, case, real, md, remove)
            ctx.count('removal_%s' % ('on' if remove else 'off'))
        ctx.cov['traces_validated_against_impl'] += 1 + len(item['md'])
        nan_n = sum(1 for m in case.msgs if 'p1_time' in real and np.isnan(float(get_path_safe(m, 'p1_time'))))
        ctx.count('invalid_p1_%s' % ('none' if nan_n == 0 else 'all' if nan_n == len(case.msgs) else 'some'))
        ctx.case(lines[item['tn']], nontrivial=len(case.msgs) > 0)
        if len(ctx.cov['samples']) < 4 and len(case.msgs) == 2 and case.owner in ('PoseAuxMessage', 'IMUInput', 'CalibrationStatus'):
            ctx.sample({'request': lines[item['tn']][:400], 'model_answer': outs[item['tn']][:400]})
    ctx.cov['opaque_keys_decided_by_running_only'] = sorted(ok)


def get_path_safe(m, name):
    try:
        return getattr(m, name)
    except AttributeError:
        return float('nan')


# ---- operation sequences on MessageData -----------------------------------------------------------------------------------
# A script works on a data dictionary {message type: MessageData} of one to three entries and applies a sequence of
#   add      add_message() of pool messages (with / without message_bytes and message_index)
#   numpy    MessageData.to_numpy(...) of one entry, or DataLoader.to_numpy(data, ...) of all, with any flag combination
#   assign   entry.messages = [pool messages]               (a new list: deletion, insertion, replacement, reordering, slicing)
#   slice    entry.messages[a:b] = [pool messages]          (the same list object changed in place)
#   mutate   the non-time fields of one message of the list overwritten in place
#   set_p1   the P1 time of one message of the list overwritten in place
#   align    DataLoader.time_align_data(data, INSERT | DROP, message_types)
# After EVERY conversion the numpy members of every converted entry must describe the list the entry held when the conversion
# was requested (if it holds no messages any more - keep_messages=False - the members must stay what they were).
SEQ_BASE_ATTRS = ('message_type', 'message_class', 'params', 'messages', 'message_bytes', 'message_index', 'num_messages')
SIG_SEQ_STALE = 'C16/MessageData/sequence/same-count-same-end-times/arrays-hold-other-messages'


class Spy:
    """stands in for MessageData.message_class during one to_numpy() call: records the lists handed to the class conversion"""

    def __init__(self, cls):
        self.cls = cls
        self.calls = 0
        self.returned = 0

    def to_numpy(self, messages):
        self.calls += 1
        res = self.cls.to_numpy(messages)
        self.returned += 1
        return res

    def __call__(self, *a, **k):
        return self.cls(*a, **k)


def p1_of(m):
    """float(m.p1_time) as MessageData reads it; None: no such attribute"""
    try:
        return float(m.p1_time)
    except AttributeError:
        return None


def own_p1(m):
    """the P1 time of the message wherever the class keeps it (for classifying what changed; NaN if there is none)"""
    from fusion_engine_client.messages.measurement_details import MeasurementDetails
    d = vars(m)
    try:
        if 'p1_time' in d:
            return float(d['p1_time'])
        if isinstance(d.get('details'), MeasurementDetails):
            return float(d['details'].p1_time)
    except (TypeError, ValueError):
        pass
    return float('nan')


def seq_targets():
    return [(c, o) for c, o in targets() if hasattr(c, 'MESSAGE_TYPE')]


# ---- entries of a data dictionary that cannot be converted ---------------------------------------------------------------------
class NoPayloadClass:
    """in a script's entry list: an entry for a message type that has no payload class (MessageData.message_class is None,
    MessageData.to_numpy raises ValueError); the messages such an entry is given are of `pool_cls`"""

    def __init__(self, mtype, pool_cls, pool_owner, plain_class=False):
        self.MESSAGE_TYPE = mtype
        self.pool_cls, self.pool_owner = pool_cls, pool_owner
        # plain_class: the entry's message_class is a class that offers no to_numpy (instead of None)
        self.plain_class = plain_class
        self.__name__ = 'type-%d-%s' % (int(mtype), 'with-a-class-without-to_numpy' if plain_class else 'without-payload-class')


class PlainPayload:
    """a payload class that offers no array conversion"""


def types_without_class():
    """the message types the package lists without a payload class, and one number it does not list at all"""
    from fusion_engine_client.messages import MessageType, message_type_to_class
    return [t for t in MessageType if t not in message_type_to_class] + [54321]


def type_from_int(v):
    from fusion_engine_client.messages import MessageType
    try:
        return MessageType(int(v))
    except ValueError:
        return int(v)


def ragged_classes():
    """classes converted by the generic path that have a variable-length list field"""
    return [(c, o) for c, o in seq_targets() if o == 'MessagePayload' and list_fields(c)]


def ragged_field(owner, msgs):
    """a description of the INPUT: the name of an attribute that holds sequences (lists, tuples, arrays) of different lengths in
    the messages of the list.  Such a list has no array form (np.array refuses it with ValueError); only asked for classes
    converted by the generic path, which stacks the attribute values as they are."""
    if owner != 'MessagePayload' or len(msgs) < 2:
        return None
    for k in sorted(vars(msgs[0])):
        vals = [vars(m).get(k) for m in msgs]
        if all(isinstance(v, (list, tuple, np.ndarray)) for v in vals) and len({len(v) for v in vals}) > 1:
            return k
    return None


def unconvertible(st, msgs):
    """why the entry cannot be converted while it holds `msgs` (None: it can)"""
    if st['noclass']:
        return 'no-payload-class'
    f = ragged_field(st['owner'], msgs)
    return None if f is None else 'ragged-' + f


_COUNTING = []


def counting_message_data():
    """MessageData with a record of the objects whose to_numpy() was entered (nothing else differs)"""
    if not _COUNTING:
        from fusion_engine_client.analysis.data_loader import MessageData

        class CountingMessageData(MessageData):
            entered = []

            def to_numpy(self, *a, **k):
                CountingMessageData.entered.append(id(self))
                return super().to_numpy(*a, **k)
        _COUNTING.append(CountingMessageData)
    return _COUNTING[0]


def alignable(cls):
    return 'p1_time' in vars(cls())


class Script:
    def __init__(self, entries, ops, how):
        self.entries = entries        # [(cls, owner, [message objects])]
        self.ops = ops
        self.how = how
        self.encoded = [[encode_obj(m) for m in pool] for _, _, pool in entries]      # before any in-place change

    def replay(self, upto, extra=None):
        def desc(c, o, enc):
            if isinstance(c, NoPayloadClass):
                return {'message_type_without_payload_class': int(c.MESSAGE_TYPE), 'pool_class': c.pool_cls.__name__, 'pool': enc,
                        'message_class_without_to_numpy': c.plain_class}
            return {'class': c.__name__, 'to_numpy_of': o, 'pool': enc}
        r = {'kind': 'sequence', 'how': self.how,
             'entries': [desc(c, o, enc) for (c, o, _), enc in zip(self.entries, self.encoded)],
             'ops': self.ops[:upto + 1]}
        if extra:
            r.update(extra)
        return r


def numeric_members(md):
    """the members of a MessageData the conversion can see or touch: numpy arrays and numbers (message_bytes / message_index
    as the arrays np.array() makes of them), and the names declared time-independent"""
    d = md.__dict__
    res = {}
    for k, v in d.items():
        if k in ('message_type', 'message_class', 'params', 'messages', 'num_messages', '__metadata__'):
            continue
        if k == 'message_bytes':
            v = np.array(v, dtype=np.uint64)
        elif k == 'message_index':
            v = np.array(v, dtype=int)
        if isinstance(v, np.ndarray):
            res[k] = v.copy()
        elif isinstance(v, (bool, int, float, np.integer, np.floating, np.bool_)) and not isinstance(v, enum.Enum):
            res[k] = v
    return res


def metadata_ntd(d):
    md = d.get('__metadata__')
    return list(md.get('not_time_dependent', [])) if isinstance(md, dict) else []


def dict_text(items):
    parts, skipped = [], set()
    for key, v in items.items():
        if key == '__metadata__':
            continue
        t = arr_text(v)
        if t is None or t.startswith('x:') or (isinstance(v, np.ndarray) and v.size == 0 and v.ndim > 1) \
                or (isinstance(v, np.ndarray) and v.ndim > 3) or any(c in key for c in ' =|,') \
                or key in ('message_type', 'message_class', 'params', 'messages'):
            # (the last four: a field of that name replaces the MessageData attribute and is exempt from the removal loop)
            skipped.add(key)
            continue
        parts.append('%s=%s' % (key, t))
    return '|'.join(parts) or '-', skipped


def copy_fields(dst, src):
    """overwrite every field of dst except its P1 time with (copies of) the values of src"""
    import copy
    from fusion_engine_client.messages.measurement_details import MeasurementDetails
    for k, v in vars(src).items():
        if k == 'p1_time':
            continue
        if isinstance(v, MeasurementDetails) and isinstance(vars(dst).get(k), MeasurementDetails):
            for k2, v2 in vars(v).items():
                if k2 != 'p1_time':
                    setattr(getattr(dst, k), k2, copy.deepcopy(v2))
        else:
            setattr(dst, k, copy.deepcopy(v))


def raising_entry(tb, states):
    """the entry whose MessageData.to_numpy frame is on the traceback"""
    mds = {id(st['md']): st for st in states}
    found = None
    while tb is not None:
        slf = tb.tb_frame.f_locals.get('self')
        if id(slf) in mds:
            found = mds[id(slf)]
        tb = tb.tb_next
    return found


def snapshot(msgs):
    return [(id(m), json.dumps(encode_obj(m), sort_keys=True)) for m in msgs]


def classify_change(st, D):
    """what happened to the list since the numpy members were last seen to describe it (a description of the input only):
    compared with the whole list of that time, and with the messages the members had an entry for (`eff`: the list without the
    messages trimmed by the class and without the untimed ones if those were removed)"""
    if st['snap'] is None:
        return 'first-conversion'
    now = st['now'] = snapshot(D)
    if now == st['snap']:
        return 'unchanged-list'
    if len(now) != st['eff_len']:
        return 'count-changed'
    ends = (own_p1(D[0]), own_p1(D[-1])) if D else (float('nan'), float('nan'))
    same = all(not np.isnan(a) and a == b for a, b in zip(ends, st['ends']))
    return 'same-count-same-end-times' if same else 'same-count-end-times-changed'


def expected_member(b, ntd_key, npos, mask):
    """what a member must be after the conversion given the class conversion `b` of the current list: itself, or with the
    untimed positions removed along its time axis"""
    if not isinstance(b, np.ndarray) or ntd_key or mask is None:
        return b
    ax = time_axis(b, npos)
    if ax is None:
        return b
    return np.compress(mask, b, axis=ax)


def member_matches(a, exp):
    if not isinstance(exp, np.ndarray):
        if scalar_text(exp) is None or isinstance(exp, enum.Enum):
            return 'ok'
        return 'ok' if (scalar_text(a) is not None and same_numbers(a, exp)) else 'value'
    if not isinstance(a, np.ndarray) or a.shape != exp.shape:
        return 'shape'
    if is_num_array(exp) and not same_numbers(a, exp):
        return 'value'
    return 'ok'


def judge_step(ctx, classes, script, k, st, info, lines, plan):
    """one converted entry after op k.  info: L (list before the call), pre (numeric members before), spy, remove, err"""
    from fusion_engine_client.messages.measurement_details import MeasurementDetails   # noqa
    cls, owner, md = st['cls'], st['owner'], st['md']
    name = cls.__name__
    L, pre, remove = info['L'], info['pre'], info['remove']
    ei = st['index']
    if st['noclass']:
        ctx.violation('C16/MessageData/%s/to_numpy-raised' % name, 'MessageData(%s).to_numpy() raised %s after [%s]'
                      % (name, info['err'], ops_text(script, k)), script.replay(k, {'entry': ei}))
        return
    # no messages left (keep_messages=False, or the list emptied): the members may stay what they were (there is nothing to convert
    # from; they go on describing the list they were computed from), or be the conversion of the empty list
    post = numeric_members(md) if info['err'] is None else {}
    frozen = (len(L) == 0 and st['described'] is not None and info['err'] is None and
              all(member_matches(post.get(key), b) == 'ok' for key, b in pre.items() if key not in ('message_bytes', 'message_index')))
    D = L
    st.pop('now', None)
    change = 'messages-released' if frozen else classify_change(st, D)
    ctx.count('seq_change_' + change)
    ctx.count('seq_conversion_' + ('done' if info['spy'].calls else 'skipped'))
    rp = script.replay(k, {'entry': ei, 'change_since_last_conversion': change})
    case = Case(cls, owner, list(D), 'sequence')
    if info['err'] is not None:
        ref, rerr = run_real(case)
        if rerr is None and info['err'].startswith('TypeError') and remove and unconverted_timestamps(case.msgs, 'p1_time', ref.get('p1_time')):
            oracle_to_numpy(ctx, case, ref)      # reports the array of objects under its own signature
            ctx.violation(SIG_MIXED_TS, 'MessageData(%s).to_numpy(remove_nan_times=True) after [%s] raised %s: p1_time is an array of '
                          'objects (Timestamps mixed with plain floats)' % (name, ops_text(script, k), info['err']), rp)
            return
        ctx.violation('C16/MessageData/%s/to_numpy-raised' % name, 'MessageData(%s).to_numpy() raised %s after [%s] (%s, %d messages)'
                      % (name, info['err'], ops_text(script, k), change, len(L)), rp)
        return
    post_ntd = metadata_ntd(md.__dict__)
    ref, rerr = run_real(case)
    if rerr is not None:
        ctx.violation('C16/%s/to_numpy-raised' % name, '%s.to_numpy(%d messages) raised %s' % (name, len(D), rerr), case.replay())
        return
    if not frozen:
        judge_members(ctx, script, k, st, info, case, ref, post, post_ntd, change, rp)
    # correspondence: the extracted table on the current list, and the model of the whole call on the members before it
    ci = {c.name: c for c in classes}.get(owner) if classes else None
    if ci is not None and lines is not None:
        lines.append(tonumpy_request(classes, ci, case))
        tn = len(lines) - 1
        cached, sk1 = dict_text(pre)
        conv, sk2 = dict_text({k2: v for k2, v in ref.items()})
        if 'p1_time' in sk1 | sk2:
            # a time vector that is not a numeric array (SIG_MIXED_TS): the call is outside the model
            ctx.count('seq_call_not_modelled_non_numeric_p1_time')
            plan.append({'case': case, 'ref': ref, 'tn': tn, 'ms': None, 'rp': rp, 'name': name})
            return
        ends = [p1_of(D[0]), p1_of(D[-1])] if D else [None, None]
        ntd = post_ntd if info['spy'].calls else metadata_ntd(ref)
        lines.append('np_mdstep %d %s %d %s %s %s %s' % (1 if remove else 0, ','.join(ntd) or '-', len(D),
                                                       '!' if ends[0] is None else fhex(ends[0]), '!' if ends[1] is None else fhex(ends[1]),
                                                       cached, conv))
        if not info['keep_bytes']:
            sk1.add('message_bytes')       # emptied by the call (keep_message_bytes=False): outside the model
        if not info['keep_index']:
            sk1.add('message_index')
        plan.append({'case': case, 'ref': ref, 'tn': tn, 'ms': len(lines) - 1, 'post': post, 'skipped': sk1 | sk2, 'rp': rp,
                     'name': name, 'what': ops_text(script, k)})


def members_vs_conversion(members, case, ref, remove):
    """the members of an entry against the class conversion `ref` of the list `case.msgs`: one verdict per accepted treatment of
    the untimed positions (None = the members are that; else (key, 'shape' | 'value', expected)), the masks tried, and the number
    of positions of the conversion"""
    D = case.msgs
    ntd = metadata_ntd(ref)
    p1 = ref.get('p1_time')
    npos = len(p1) if isinstance(p1, np.ndarray) and p1.ndim == 1 else len(D) - leading_unknown(case)
    masks = [None]
    if isinstance(p1, np.ndarray) and p1.ndim == 1 and p1.dtype.kind == 'f' and np.any(np.isnan(p1)):
        # (whether a repeated call has to remove the untimed entries it was asked to remove is not part of the statement:
        # both are accepted, but it must be the same for every member)
        masks = [~np.isnan(p1), None] if remove else [None, ~np.isnan(p1)]
    verdicts = []
    for mask in masks:
        bad = None
        for key, b in ref.items():
            if key == '__metadata__':
                continue
            exp = expected_member(b, key in ntd, npos, mask)
            how = member_matches(members.get(key), exp)
            if how != 'ok':
                bad = (key, how, exp)
                break
        verdicts.append(bad)
        if bad is None:
            break
    return verdicts, masks, npos


def judge_unconvertible(ctx, script, k, st, info):
    """an entry that cannot be converted (message type without payload class; a list np.array refuses) after a conversion was
    requested: it must be left as it was"""
    md, pre, L = st['md'], info['pre'], info['L']
    post = numeric_members(md)
    same_list = isinstance(md.messages, list) and len(md.messages) == len(L) and all(a is b for a, b in zip(md.messages, L))
    changed = sorted(key for key in set(pre) | set(post)
                     if key not in pre or key not in post or member_matches(post[key], pre[key]) != 'ok')
    ctx.count('seq_unconvertible_entry_' + info['why'].split('-')[0])
    if changed or not same_list:
        ctx.violation('C16/DataLoader/unconvertible-entry-not-left-as-it-was',
                      'MessageData(%s) after [%s]: the entry cannot be converted (%s) but %s'
                      % (st['cls'].__name__, ops_text(script, k), info['why'],
                         ('its members %s changed' % changed) if changed else 'its message list changed'),
                      script.replay(k, {'entry': st['index'], 'unconvertible': info['why']}))


def judge_members(ctx, script, k, st, info, case, ref, post, post_ntd, change, rp):
    """stage D for one conversion in a sequence: the class conversion of the current list against the fields (the statement
    itself), then the members of the MessageData against that conversion"""
    md, L, D, remove, name = st['md'], info['L'], case.msgs, info['remove'], case.cls.__name__
    oracle_to_numpy(ctx, case, ref)
    verdicts, masks, npos = members_vs_conversion(md.__dict__, case, ref, remove)
    if all(v is not None for v in verdicts):
        # (not one entry per message only if that is so whichever way the untimed entries are treated)
        shape_only = all(v[1] == 'shape' for v in verdicts)
        key, how, exp = verdicts[0] if shape_only else next(v for v in verdicts if v[1] != 'shape')
        a = md.__dict__.get(key)
        kind = 'arrays-not-one-entry-per-message' if shape_only else 'arrays-hold-other-messages'
        ctx.violation('C16/MessageData/sequence/%s/%s' % (change, kind),
                      'MessageData(%s)%s after [%s]: the entry holds %d messages (%s since its members last described it) but %r %s'
                      % (name, info.get('where', '') + ('' if info.get('entered', True) else ' - its to_numpy() was never entered -'),
                         ops_text(script, k), len(L), change, key,
                         ('has shape %s, expected %s' % (getattr(a, 'shape', None), getattr(exp, 'shape', None))) if how == 'shape'
                         else 'does not hold the values of these messages (it is not the conversion of the current list)'), rp)
    else:
        mask = masks[len(verdicts) - 1]
        eff = list(D)[len(D) - npos:] if npos <= len(D) else list(D)
        if mask is not None and len(mask) == len(eff):
            eff = [m for m, keep in zip(eff, mask) if keep]
        st['described'] = list(D)
        st['snap'] = st.pop('now', None) or snapshot(D)
        st['eff_len'] = len(eff)
        st['ends'] = (own_p1(eff[0]), own_p1(eff[-1])) if eff else (float('nan'), float('nan'))
    # members left from an earlier conversion that the conversion of the current list does not produce any more
    now_p1 = md.__dict__.get('p1_time')
    if verdicts[-1] is None and isinstance(now_p1, np.ndarray) and now_p1.ndim == 1:
        for key, a in post.items():
            if key in ref or key in ('message_bytes', 'message_index') or key not in st['produced']:
                continue
            if isinstance(a, np.ndarray) and key not in post_ntd and time_axis(a, len(now_p1)) is None:
                ctx.violation('C16/MessageData/sequence/member-of-earlier-conversion-kept',
                              'MessageData(%s) after [%s]: %r (shape %s) was produced by an earlier conversion of %d messages, is not '
                              'produced for the current %d messages (p1_time has %d entries), but is still a member'
                              % (name, ops_text(script, k), key, a.shape, st['produced'][key], len(D), len(now_p1)), dict(rp, key=key))
                break
    if info['spy'].calls:
        for key in ref:
            st['produced'][key] = len(D)


def ops_text(script, upto):
    def one(op):
        o = op['op']
        e = 'e%d.' % op['entry'] if 'entry' in op else ''
        if o == 'add':
            return '%sadd(%d%s)' % (e, len(op['ids']), '' if op.get('meta') else ',no bytes/index')
        if o == 'numpy':
            f = ''.join(c for c, on in (('r', op['remove']), ('m', op['keep_messages']), ('b', op['keep_bytes']), ('i', op['keep_index'])) if on)
            return ('%sto_numpy(%s)' % (e, f)) if op['via'] == 'entry' else 'DataLoader.to_numpy(%s)' % f
        if o == 'assign':
            return '%smessages=[%d]' % (e, len(op['ids']))
        if o == 'slice':
            return '%smessages[%d:%d]=[%d]' % (e, op['a'], op['b'], len(op['ids']))
        if o == 'mutate':
            return '%smessages[%d].fields=..' % (e, op['pos'])
        if o == 'set_p1':
            return '%smessages[%d].p1_time=..' % (e, op['pos'])
        if o == 'align':
            return 'time_align_data(%s%s)' % (op['mode'], '' if op.get('types') is None else ',types=%s' % op['types'])
        return o
    return ' ; '.join(one(op) for op in script.ops[:upto + 1])


def dictionary_shape(kinds):
    """where the entries that cannot be converted (v) stand relative to the convertible ones (c)"""
    if 'v' not in kinds:
        return 'all_convertible'
    if 'c' not in kinds:
        return 'nothing_convertible'
    first = kinds.index('c')
    last = len(kinds) - 1 - kinds[::-1].index('c')
    return 'unconvertible_' + '+'.join(n for n, f in (('ahead', 'v' in kinds[:first]), ('between', 'v' in kinds[first:last]),
                                                       ('behind', 'v' in kinds[last + 1:])) if f)


def run_script(ctx, classes, script, lines, plan):
    import sys
    import warnings
    from fusion_engine_client.analysis.data_loader import DataLoader, TimeAlignmentMode
    MD = counting_message_data()
    data = {}
    states = []
    for i, (cls, owner, pool) in enumerate(script.entries):
        md = MD(cls.MESSAGE_TYPE, None)
        data[cls.MESSAGE_TYPE] = md
        if getattr(cls, 'plain_class', False):
            md.message_class = PlainPayload
        states.append({'index': i, 'message_class': md.message_class, 'cls': cls, 'owner': owner, 'pool': pool, 'md': md, 'described': None, 'snap': None,
                       'ends': None, 'produced': {}, 'added': 0, 'noclass': isinstance(cls, NoPayloadClass)})
    if len(data) != len(states):
        raise fv.InfraError('two entries of one message type in a script')
    for k, op in enumerate(script.ops):
        o = op['op']
        st = states[op['entry']] if 'entry' in op else None
        md = st['md'] if st else None
        if o == 'add':
            for i in op['ids']:
                meta = op.get('meta') and isinstance(md.message_bytes, list) and isinstance(md.message_index, list)
                if meta:
                    md.add_message(st['pool'][i], message_bytes=24 + 8 * st['added'], message_index=st['added'])
                else:
                    md.add_message(st['pool'][i])
                st['added'] += 1
        elif o == 'assign':
            md.messages = [st['pool'][i] for i in op['ids']]
        elif o == 'slice':
            md.messages[op['a']:op['b']] = [st['pool'][i] for i in op['ids']]
        elif o == 'mutate':
            if op['pos'] < len(md.messages):
                copy_fields(md.messages[op['pos']], st['pool'][op['donor']])
        elif o == 'set_p1':
            if op['pos'] < len(md.messages):
                set_p1(md.messages[op['pos']], from_fhex(op['value']))
        elif o == 'align':
            types = None if op.get('types') is None else [states[i]['cls'].MESSAGE_TYPE for i in op['types']]
            with warnings.catch_warnings():
                warnings.simplefilter('ignore')
                try:
                    DataLoader.time_align_data(data, TimeAlignmentMode[op['mode']], types)
                    ctx.count('seq_align_' + op['mode'])
                except Exception:     # noqa  (alignment is C15's subject; whatever lists it left are the current lists)
                    ctx.count('seq_align_raised')
        elif o == 'numpy':
            loader = op['via'] == 'loader'
            conv = states if loader else [st]
            infos = {}
            for s in conv:
                L = list(s['md'].messages)
                spy = None if s['noclass'] else Spy(s['cls'])
                infos[s['index']] = {'L': L, 'pre': numeric_members(s['md']), 'spy': spy, 'why': unconvertible(s, L),
                                     'remove': op['remove'], 'err': None, 'keep_bytes': op['keep_bytes'], 'keep_index': op['keep_index']}
                if spy is not None:
                    s['md'].message_class = spy
            if loader and len(conv) > 1:
                # the dictionary as the call sees it: (number of messages, ! = cannot be converted) per entry in iteration order
                where = ', '.join('%s:%d%s' % (s['cls'].__name__, len(infos[s['index']]['L']),
                                               '' if infos[s['index']]['why'] is None else '!' + infos[s['index']]['why']) for s in conv)
                for s in conv:
                    infos[s['index']]['where'] = ' (entry %d of the dictionary {%s})' % (s['index'], where)
            del MD.entered[:]
            failed, value_error = None, False
            with warnings.catch_warnings():
                warnings.simplefilter('ignore')
                try:
                    kw = dict(remove_nan_times=op['remove'], keep_messages=op['keep_messages'],
                              keep_message_bytes=op['keep_bytes'], keep_message_index=op['keep_index'])
                    if loader:
                        DataLoader.to_numpy(data, **kw)
                    else:
                        md.to_numpy(**kw)
                except Exception as e:     # noqa
                    failed = raising_entry(sys.exc_info()[2], conv) or conv[0]
                    infos[failed['index']]['err'] = '%s: %s' % (type(e).__name__, e)
                    value_error = isinstance(e, ValueError)
            entered = list(MD.entered)
            for s in conv:
                s['md'].message_class = s['message_class']
                infos[s['index']]['entered'] = id(s['md']) in entered
            ctx.count('seq_numpy_via_' + op['via'])
            # the ValueError of an entry that cannot be converted (it is what its own to_numpy() answers) is no failure of the call
            refusal = failed is not None and value_error and infos[failed['index']]['why'] is not None
            if loader:
                kinds = ['v' if infos[s['index']]['why'] is not None else 'x' if (s is failed and not refusal) else 'c' for s in conv]
                ctx.count('seq_dictionary_' + dictionary_shape(kinds))
                if lines is not None:
                    lines.append('np_loader %s' % (''.join(kinds) or '-'))
                    plan.append({'loader': len(lines) - 1, 'kinds': kinds, 'observed': ''.join('a' if infos[s['index']]['entered'] else '-' for s in conv),
                                 'rp': script.replay(k), 'what': ops_text(script, k)})
            if failed is not None and not refusal:
                judge_step(ctx, classes, script, k, failed, infos[failed['index']], lines, plan)
                return
            for s in conv:
                info = infos[s['index']]
                info['err'] = None
                if info['why'] is not None and (info['spy'] is None or info['spy'].returned == 0):
                    judge_unconvertible(ctx, script, k, s, info)
                else:
                    # (a list classified as having no array form that the class conversion nevertheless converted is judged like any
                    # other: the members must mirror it)
                    judge_step(ctx, classes, script, k, s, info, lines, plan)
                ctx.cov['traces_validated_against_impl'] += 1
            ctx.case('seq %s %s' % ([e[0].__name__ for e in script.entries], json.dumps(script.ops[:k + 1], sort_keys=True)),
                     nontrivial=any(len(infos[i]['L']) for i in infos))


def flush_sequences(ctx, lines, plan):
    """stage C for the collected steps"""
    if not lines:
        return
    outs = ctx.driver(lines)
    opaque_keys = ctx.cov.setdefault('opaque_keys_decided_by_running_only', [])
    ok = set(opaque_keys)
    for item in plan:
        if 'loader' in item:
            # the model of the loop of DataLoader.to_numpy: which entries' to_numpy() is entered
            ans = outs[item['loader']].split(' ')
            n = int(ans[1]) if len(ans) == 2 and ans[1].isdigit() else None
            obs = item['observed']
            # (whether the to_numpy() of an entry that cannot be converted is entered at all makes no difference to anything: only
            # the convertible entries are compared)
            if n is None or any(kd != 'v' and (ob == 'a') != (i < n) for i, (kd, ob) in enumerate(zip(item['kinds'], obs))):
                ctx.disagree('DataLoader.to_numpy() after [%s]: to_numpy() was entered for the entries %r of the dictionary (a = entered), '
                             'the model of the loop answers %r' % (item['what'], obs, outs[item['loader']]), item['rp'])
            continue
        correspond_to_numpy(ctx, item['case'], item['ref'], outs[item['tn']], ok)
        if item['ms'] is None:
            continue
        ans = outs[item['ms']]
        if ans in ('unmodelled', 'bad-args', 'bad-op', 'raises'):
            ctx.disagree('MessageData(%s).to_numpy() after [%s]: the model of the call answered %s' % (item['name'], item['what'], ans), item['rp'])
            continue
        model = parse_dict(ans)
        for key, mt in model.items():
            if key in item['skipped']:
                continue
            rt = arr_text(item['post'].get(key))
            if rt != mt:
                ctx.disagree('MessageData(%s).to_numpy() after [%s]: %r is %s, the model of the call gives %s'
                             % (item['name'], item['what'], key, str(rt)[:100], mt[:100]), dict(item['rp'], key=key))
                break
    ctx.cov['opaque_keys_decided_by_running_only'] = sorted(ok)
    del lines[:], plan[:]


# ---- script generation ----
def make_pool(ctx, cls, owner, size, grid, nan_prob, mixed_sources, list_lens=None):
    """`size` filled messages with pairwise distinct values; P1 times from the (sorted) grid in ascending order with random
    gaps, a few invalid.  list_lens: the number of elements of the variable-length list fields of message i is
    list_lens[i % len] (None: one random number 0..2 for the whole pool)"""
    from fusion_engine_client.messages.measurement_details import SystemTimeSource
    rng = ctx.rng
    dist = Distinct(rng)
    enum_pos = {}
    pool = []
    if list_lens is None and list_fields(cls):
        list_lens = [rng.randrange(0, 3)]
    for i in range(size):
        m = fill(cls(), dist, rng, enum_pos, list_len=None if list_lens is None else list_lens[i % len(list_lens)])
        set_p1(m, float('nan') if rng.random() < nan_prob else grid[i % len(grid)])
        det = m if owner == 'MeasurementDetails' and not hasattr(m, 'details') else vars(m).get('details')
        if det is not None and hasattr(det, 'measurement_time_source'):
            # never P1_TIME with an invalid P1 time unless asked for: the documented fill-in has its own signature
            srcs = [s for s in SystemTimeSource if mixed_sources or s != SystemTimeSource.P1_TIME]
            det.measurement_time_source = rng.choice(srcs) if mixed_sources else srcs[i % len(srcs)] if rng.random() < 0.5 else srcs[0]
        pool.append(m)
    return pool


def numpy_op(entry, remove=True, km=True, kb=True, ki=True, via='entry'):
    return {'op': 'numpy', 'entry': entry, 'remove': remove, 'keep_messages': km, 'keep_bytes': kb, 'keep_index': ki, 'via': via}


def interior_changes(n, fresh):
    """[(name, ids)] : every kind of change of a list 0..n-1 (n >= 3), `fresh` = ids of unused pool messages"""
    f = list(fresh)
    mid = n // 2
    return [
        ('drop-interior', [i for i in range(n) if i != mid]),
        ('drop-two-interior', [0] + list(range(3, n)) if n >= 4 else [0, n - 1]),
        ('insert-interior', list(range(mid)) + f[:1] + list(range(mid, n))),
        ('insert-two-interior', list(range(1)) + f[:1] + list(range(1, n - 1)) + f[1:2] + [n - 1]),
        ('replace-interior', list(range(mid)) + f[:1] + list(range(mid + 1, n))),
        ('swap-interior', [0] + list(reversed(range(1, n - 1))) + [n - 1]),
        ('drop-first', list(range(1, n))),
        ('drop-last', list(range(n - 1))),
        ('replace-first', f[:1] + list(range(1, n))),
        ('replace-last', list(range(n - 1)) + f[:1]),
        ('append', list(range(n)) + f[:2]),
        ('prepend', f[:1] + list(range(n))),
        ('all-new', f[:n]),
        ('all-new-shorter', f[:n - 1]),
        ('empty', []),
    ]


def directed_scripts(ctx, cls, owner, partners):
    """every kind of list change between two conversions x how the list is changed (rebinding, slice assignment, alignment
    against other entries) x the flags of the conversions"""
    rng = ctx.rng
    n = rng.choice([3, 4, 5])
    dist = Distinct(rng)
    grid = sorted(dist.flt(10.0, 4000.0) for _ in range(3 * n + 4))
    flagsets = [(r, via) for r in (True, False) for via in ('entry', 'loader')]
    # 1. rebinding / slice assignment
    for ci_, (cname, ids) in enumerate(interior_changes(n, range(n, 2 * n + 2))):
        r, via = flagsets[(ci_ + rng.randrange(4)) % 4]
        for form in ('assign', 'slice'):
            pool = make_pool(ctx, cls, owner, 2 * n + 2, grid[:n] + grid[n + 2:], 0.0, False)
            # P1 times: the first n messages ascending; a replacement in the interior (and a wholly new list) carries the time of
            # the position it takes, an inserted message a time between its neighbours, so that the end times stay what they were
            # wherever the kind of change allows it
            for j, pid in enumerate(ids):
                if pid < n:
                    continue
                if cname in ('replace-interior', 'all-new'):
                    set_p1(pool[pid], grid[j])
                elif cname == 'all-new-shorter':
                    set_p1(pool[pid], grid[j] if j < n - 2 else grid[n - 1])
                elif cname.startswith('insert'):
                    before = [q for q in ids[:j] if q < n]
                    after = [q for q in ids[j + 1:] if q < n]
                    set_p1(pool[pid], (grid[before[-1]] + grid[after[0]]) / 2)
                elif cname == 'prepend':
                    set_p1(pool[pid], grid[0] / 2)
            ops = [{'op': 'add', 'entry': 0, 'ids': list(range(n)), 'meta': True},
                   numpy_op(0, r, True, rng.random() < 0.7, rng.random() < 0.7, via)]
            if form == 'assign':
                ops.append({'op': 'assign', 'entry': 0, 'ids': ids})
            else:
                ops.append({'op': 'slice', 'entry': 0, 'a': 0, 'b': n, 'ids': ids})
            ops.append(numpy_op(0, rng.random() < 0.5, True, True, True, rng.choice(['entry', 'loader'])))
            ops.append(numpy_op(0, r, rng.random() < 0.5, True, True, 'entry'))
            ops.append({'op': 'add', 'entry': 0, 'ids': [2 * n, 2 * n + 1], 'meta': False})
            ops.append(numpy_op(0, r, True, True, True, via))
            yield Script([(cls, owner, pool)], ops, 'directed/%s/%s' % (cname, form))
    # 2. in-place changes of a message
    for what in ('mutate-interior', 'mutate-first', 'p1-interior', 'p1-first', 'p1-last', 'p1-interior-nan'):
        pool = make_pool(ctx, cls, owner, n + 1, grid, 0.0, False)
        pos = {'interior': n // 2, 'first': 0, 'last': n - 1}[what.split('-')[1]]
        r, via = rng.choice(flagsets)
        ops = [{'op': 'add', 'entry': 0, 'ids': list(range(n)), 'meta': rng.random() < 0.5}, numpy_op(0, r, True, True, True, via)]
        if what.startswith('mutate'):
            ops.append({'op': 'mutate', 'entry': 0, 'pos': pos, 'donor': n})
        else:
            v = float('nan') if what.endswith('nan') else (grid[pos] + grid[pos + 1]) / 2 if pos < n - 1 else grid[n]
            ops.append({'op': 'set_p1', 'entry': 0, 'pos': pos, 'value': fhex(v)})
        ops.append(numpy_op(0, r, True, True, True, rng.choice(['entry', 'loader'])))
        yield Script([(cls, owner, pool)], ops, 'directed/' + what)
    # 3. messages released, more added, converted again; every flag combination of the first conversion
    for bits in range(16):
        r, km, kb, ki = [bool(bits >> j & 1) for j in range(4)]
        pool = make_pool(ctx, cls, owner, n + 3, grid, 0.25 if bits % 3 == 0 else 0.0, False)
        ops = [{'op': 'add', 'entry': 0, 'ids': list(range(n)), 'meta': True}, numpy_op(0, r, km, kb, ki, 'entry' if bits % 2 else 'loader'),
               numpy_op(0, not r, km, kb, ki, 'entry'),
               {'op': 'add', 'entry': 0, 'ids': [n, n + 1] if bits % 4 else [n, n + 1, n + 2], 'meta': kb is False and ki is False},
               numpy_op(0, r, True, True, True, 'entry'), numpy_op(0, r, True, True, True, 'loader')]
        yield Script([(cls, owner, pool)], ops, 'directed/flags-%d' % bits)
    # 4. alignment against one or two other entries between conversions (only entries with their own p1_time take part)
    if alignable(cls) and partners:
        for mode in ('INSERT', 'DROP'):
            for shape in ('interior', 'edges', 'random', 'random-nan'):
                for npart in (1, 2):
                    ps = rng.sample(partners, min(npart, len(partners)))
                    m = rng.choice([3, 4, 5, 6])
                    g = grid[:m + 4]
                    own = list(range(1, m + 1))                       # grid positions of the entry under test
                    entries = [(cls, owner, make_pool(ctx, cls, owner, m, [g[i] for i in own], 0.2 if shape == 'random-nan' else 0.0, False))]
                    for pc, po in ps:
                        if shape == 'interior':
                            # INSERT: extra epochs strictly inside; DROP: an interior epoch missing
                            times = [g[1], (g[1] + g[2]) / 2, (g[m - 1] + g[m]) / 2, g[m]] + ([g[2]] if m > 3 else []) if mode == 'INSERT' \
                                else [g[i] for i in own if i not in (2, 3)[:rng.choice([1, 2])]]
                        elif shape == 'edges':
                            times = [g[0]] + [g[i] for i in own] + [g[m + 1]] if mode == 'INSERT' else [g[i] for i in own[1:]]
                        else:
                            times = sorted(rng.sample(g + [(a + b) / 2 for a, b in zip(g, g[1:])], rng.randrange(1, m + 3)))
                        entries.append((pc, po, make_pool(ctx, pc, po, len(times), sorted(times), 0.0, False)))
                    r, via = rng.choice(flagsets)
                    ops = [{'op': 'add', 'entry': i, 'ids': list(range(len(e[2]))), 'meta': rng.random() < 0.7} for i, e in enumerate(entries)]
                    ops.append(numpy_op(0, r, True, True, True, via))
                    ops.append({'op': 'align', 'mode': mode, 'types': None if rng.random() < 0.7 else list(range(len(entries)))})
                    ops.append(numpy_op(0, r, True, True, True, 'loader' if via == 'entry' else 'entry'))
                    ops.append(numpy_op(rng.randrange(len(entries)), not r, True, True, True, 'loader'))
                    yield Script(entries, ops, 'directed/align-%s/%s' % (mode, shape))


def unconvertible_entry(ctx, kind, pick, taken, grid):
    """one entry of a script that cannot be converted (or can, depending on the messages it is given):
    -> ((cls, owner, pool), [ids added first, ids added later], ids that make it convertible or None)
    kind 'noclass-empty' / 'noclass-messages': a message type without payload class, holding nothing / messages of some class
    kind 'ragged': a class with a variable-length list field; pool messages 0, 1, 2 have 1, 3, 0 elements (no array form in any
                   combination), 3.. have 2 each.  `taken`: classes already in the dictionary"""
    rng = ctx.rng
    free = [(c, o) for c, o in seq_targets() if c not in taken]
    rag = [(c, o) for c, o in ragged_classes() if c not in taken]
    if kind == 'ragged' and rag:
        rc, ro = rag[pick % len(rag)]
        return (rc, ro, make_pool(ctx, rc, ro, 7, grid, 0.0, False, list_lens=[1, 3, 0, 2, 2, 2, 2])), [[0, 1], [2]], [3, 4, 5]
    if kind == 'ragged':
        kind = 'noclass-messages'
    nc = types_without_class()
    pc, po = rng.choice(free)
    t = nc[pick % len(nc)]
    entry = (NoPayloadClass(t, pc, po, plain_class=(t == nc[-1] and rng.random() < 0.5)), None, make_pool(ctx, pc, po, 4, grid, 0.0, False))
    return entry, ([[], []] if kind == 'noclass-empty' else [[0, 1], [2]]), None


def dictionary_scripts(ctx, tg, reps):
    """conversions of whole dictionaries (DataLoader.to_numpy) that hold an entry which cannot be converted: for every class an
    entry of it behind / around / ahead of such an entry, converted, given more messages, converted again (with the other
    treatment of untimed entries), the unconvertible entry repaired where that is possible and everything converted again, then
    once more with the messages released; and small dictionaries in every iteration order"""
    import itertools
    rng = ctx.rng
    kinds = ['noclass-empty', 'ragged', 'noclass-messages', 'ragged']
    shift = rng.randrange(4)

    def ops_for(order, roles):
        # roles: index in `order` -> ('conv', first ids, later ids) | ('unconv', first ids, later ids, repair ids or None)
        r = rng.random() < 0.5
        ops = []
        for i, role in roles.items():
            if role[1]:
                ops.append({'op': 'add', 'entry': i, 'ids': role[1], 'meta': rng.random() < 0.7})
        ops.append(numpy_op(0, r, True, True, True, 'loader'))
        for i, role in roles.items():
            if role[2]:
                ops.append({'op': 'add', 'entry': i, 'ids': role[2], 'meta': False})
        ops.append(numpy_op(0, not r, True, True, True, 'loader'))
        for i, role in roles.items():
            if role[0] == 'unconv' and role[3] is not None:
                ops.append({'op': 'assign', 'entry': i, 'ids': role[3]})
                ops.append(numpy_op(0, r, True, True, True, 'loader'))
        ops.append(numpy_op(0, r, False, rng.random() < 0.5, rng.random() < 0.5, 'loader'))
        return ops
    # 1. every class behind / around / ahead of an unconvertible entry
    for ti, (cls, owner) in enumerate(tg):
        for pi, pos in enumerate(('ahead', 'between', 'behind')):
            kind = kinds[(ti + pi + shift) % len(kinds)]
            dist = Distinct(rng)
            grid = sorted(dist.flt(10.0, 4000.0) for _ in range(8))
            pc, po = rng.choice([(c, o) for c, o in tg if c is not cls and not list_fields(c)])
            bad, bad_adds, repair = unconvertible_entry(ctx, kind, ti + pi, {cls, pc}, grid)
            nanp = 0.25 if (ti + pi) % 2 else 0.0
            target = (cls, owner, make_pool(ctx, cls, owner, 6, grid, nanp, False))
            partner = (pc, po, make_pool(ctx, pc, po, 4, grid, nanp, False))
            empty_partner = (ti + pi) % 3 == 0          # an entry without messages (its conversion is the empty one)
            order = {'ahead': [bad, target, partner], 'between': [partner, bad, target], 'behind': [target, partner, bad]}[pos]
            roles = {}
            for i, e in enumerate(order):
                if e is bad:
                    roles[i] = ('unconv', bad_adds[0], bad_adds[1], repair)
                elif e is target:
                    roles[i] = ('conv', [0, 1, 2], [3, 4])
                else:
                    roles[i] = ('conv', [] if empty_partner else [0, 1], [2])
            yield Script(order, ops_for(order, roles), 'dictionary/%s-%s' % (kind, pos))
    # 2. every iteration order of a dictionary of three or four entries, one or two of which cannot be converted
    for rep in range(reps):
        for nbad in (1, 2):
            dist = Distinct(rng)
            grid = sorted(dist.flt(10.0, 4000.0) for _ in range(8))
            good = rng.sample(tg, 2)
            taken = {c for c, _ in good}
            entries = [('conv', (c, o, make_pool(ctx, c, o, 5, grid, 0.2 * (rep % 2), False))) for c, o in good]
            for b in range(nbad):
                bad, bad_adds, repair = unconvertible_entry(ctx, kinds[(rep + b + shift) % len(kinds)], rep + b, taken, grid)
                taken.add(bad[0] if not isinstance(bad[0], NoPayloadClass) else bad[0].pool_cls)
                entries.append(('unconv', bad, bad_adds, repair))
            if len({e[1][0].MESSAGE_TYPE for e in entries}) != len(entries):
                continue
            for perm in itertools.permutations(range(len(entries))):
                order = [entries[j][1] for j in perm]
                roles = {}
                for i, j in enumerate(perm):
                    e = entries[j]
                    roles[i] = ('conv', [0, 1, 2], [3]) if e[0] == 'conv' else ('unconv', e[2][0], e[2][1], e[3])
                yield Script(order, ops_for(order, roles), 'dictionary/every-order-%d' % len(entries))


def random_script(ctx, cls, owner, partners):
    rng = ctx.rng
    dist = Distinct(rng)
    grid = sorted(dist.flt(10.0, 4000.0) for _ in range(8))
    ents = [(cls, owner)]
    if partners and rng.random() < 0.5:
        ents += rng.sample(partners, rng.choice([1, 2]) if len(partners) > 1 else 1)
    nanp = rng.choice([0.0, 0.0, 0.15, 0.4])
    mixed = rng.random() < 0.3
    # entries that cannot (always) be converted, anywhere in the dictionary: a message type without payload class, a class with a
    # variable-length list field whose pool messages carry lists of different lengths
    with_unconvertible = rng.random() < 0.35
    if with_unconvertible:
        for _ in range(rng.choice([1, 1, 2])):
            taken = {c.pool_cls if isinstance(c, NoPayloadClass) else c for c, *_ in ents}
            if rng.random() < 0.5:
                rag = [(c, o) for c, o in ragged_classes() if c not in taken]
                if rag:
                    ents.insert(rng.randrange(len(ents) + 1), rng.choice(rag) + ('ragged',))
                    continue
            nc = [t for t in types_without_class() if t not in [c.MESSAGE_TYPE for c, *_ in ents]]
            pc, po = rng.choice([(c, o) for c, o in seq_targets() if c not in taken])
            t = rng.choice(nc)
            ents.insert(rng.randrange(len(ents) + 1), (NoPayloadClass(t, pc, po, plain_class=(t == 54321 and rng.random() < 0.5)), None))
    entries = []
    for c, o, *mark in ents:
        size = rng.randrange(4, 11)
        times = sorted(rng.sample(grid, min(len(grid), size))) if rng.random() < 0.8 else [rng.choice(grid) for _ in range(size)]
        if isinstance(c, NoPayloadClass):
            entries.append((c, o, make_pool(ctx, c.pool_cls, c.pool_owner, size, times, nanp, mixed)))
        else:
            entries.append((c, o, make_pool(ctx, c, o, size, times, nanp, mixed,
                                            list_lens=[rng.randrange(0, 3) for _ in range(size)] if mark else None)))
    ops = []
    length = {}       # the generator's idea of the list lengths (alignment makes it approximate: positions are clamped at run time)
    for i, e in enumerate(entries):
        k0 = rng.randrange(0, min(6, len(e[2])) + 1)
        ops.append({'op': 'add', 'entry': i, 'ids': sorted(rng.sample(range(len(e[2])), k0)), 'meta': rng.random() < 0.7})
        length[i] = k0
    for _ in range(rng.randrange(3, 9)):
        i = rng.randrange(len(entries))
        size = len(entries[i][2])
        x = rng.random()
        if x < 0.38:
            ops.append(numpy_op(i, rng.random() < 0.6, rng.random() < 0.8, rng.random() < 0.7, rng.random() < 0.7, rng.choice(['entry', 'loader'])))
        elif x < 0.5:
            ids = [rng.randrange(size) for _ in range(rng.randrange(1, 3))]
            ops.append({'op': 'add', 'entry': i, 'ids': ids, 'meta': rng.random() < 0.3})
            length[i] += len(ids)
        elif x < 0.62:
            ids = sorted(rng.sample(range(size), rng.randrange(0, min(size, 6) + 1))) if rng.random() < 0.8 else \
                [rng.randrange(size) for _ in range(rng.randrange(0, 6))]
            ops.append({'op': 'assign', 'entry': i, 'ids': ids})
            length[i] = len(ids)
        elif x < 0.74:
            a = rng.randrange(0, length[i] + 1)
            b = rng.randrange(a, length[i] + 1)
            ids = [rng.randrange(size) for _ in range(rng.randrange(0, 3))]
            ops.append({'op': 'slice', 'entry': i, 'a': a, 'b': b, 'ids': ids})
            length[i] += len(ids) - (b - a)
        elif x < 0.8:
            ops.append({'op': 'mutate', 'entry': i, 'pos': rng.randrange(0, max(1, length[i])), 'donor': rng.randrange(size)})
        elif x < 0.86:
            v = float('nan') if rng.random() < 0.25 else rng.choice(grid) if rng.random() < 0.5 else dist.flt(10.0, 4000.0)
            ops.append({'op': 'set_p1', 'entry': i, 'pos': rng.randrange(0, max(1, length[i])), 'value': fhex(v)})
        elif len(entries) > 1:
            ops.append({'op': 'align', 'mode': rng.choice(['INSERT', 'DROP']),
                        'types': None if rng.random() < 0.7 else sorted(rng.sample(range(len(entries)), rng.randrange(1, len(entries) + 1)))})
    ops.append(numpy_op(0, rng.random() < 0.6, True, True, True, 'loader' if with_unconvertible else rng.choice(['entry', 'loader'])))
    return Script(entries, ops, 'random')


def sequence_scripts(ctx, reps):
    rng = ctx.rng
    tg = seq_targets()
    partners_all = [(c, o) for c, o in tg if alignable(c)]
    for cls, owner in tg:
        partners = [(c, o) for c, o in partners_all if c is not cls]
        for s in directed_scripts(ctx, cls, owner, partners):
            yield s
        for _ in range(reps):
            yield random_script(ctx, cls, owner, partners)
    for s in dictionary_scripts(ctx, tg, max(1, reps // 6)):
        yield s


def run_sequences(ctx, classes, reps, with_model=True):
    lines, plan = ([], []) if with_model and classes else (None, None)
    for script in sequence_scripts(ctx, reps):
        ctx.count('seq_' + script.how.split('/')[0])
        run_script(ctx, classes, script, lines, plan)
        if lines is not None and len(lines) >= 1200:
            flush_sequences(ctx, lines, plan)
    if lines is not None:
        flush_sequences(ctx, lines, plan)


# ---- whole logs through DataLoader.read(return_numpy=True) ---------------------------------------------------------------------
# A log holds messages of two to four convertible classes (some with untimed messages) and mostly also messages of a class with a
# variable-length list field (lists of different lengths: the entry cannot be converted); it is read with return_numpy=True for all
# message types or for a listed set (which may name types without payload class and types absent from the log), with every
# combination of remove_nan_times / keep_messages / return_message_index, once or twice on one loader (the second read finds some
# entries in the cache).  Every entry of every result is judged like an entry of a script: a convertible one must carry the
# conversion of its messages (those of its type in the log, in log order), the others no numpy members at all.
SIG_READ = 'C16/DataLoader.read/return_numpy'


def file_messages(ctx, cls, owner, n, invalid, list_lens=None):
    """n message objects of the class that survive pack() (None: the class offers none)"""
    known, unknown = wire_fields(ctx, cls)
    case = make_wire_case(ctx, cls, owner, known, unknown, [{} for _ in range(n)], invalid, 'file', 'unpack', list_lens=list_lens)
    return None if case is None else case.msgs


def make_read_case(ctx, target):
    from fusion_engine_client.parsers import FusionEngineEncoder
    rng = ctx.rng
    tg = seq_targets()
    chosen = [target] + rng.sample([(c, o) for c, o in tg if c is not target[0] and not list_fields(c)], rng.choice([1, 2, 3]))
    per = []
    for c, o in chosen:
        n = rng.randrange(1, 5)
        invalid = set() if rng.random() < 0.5 else {i for i in range(n) if rng.random() < 0.35}
        msgs = file_messages(ctx, c, o, n, invalid, list_lens=[rng.randrange(0, 3)] if list_fields(c) else None)
        if msgs is not None:
            per.append((c, msgs))
    rag = [(c, o) for c, o in ragged_classes() if c not in {x[0] for x in per}]
    kind = rng.choice(['ragged', 'ragged', 'ragged', 'same-length', 'absent'])
    if rag and kind != 'absent':
        rc, ro = rng.choice(rag)
        lens = rng.choice([[1, 3], [0, 2], [2, 1, 2], [3, 0], [1, 1, 2]]) if kind == 'ragged' else [rng.randrange(0, 3)] * rng.randrange(1, 4)
        msgs = file_messages(ctx, rc, ro, len(lens), set(), list_lens=lens)
        if msgs is not None:
            per.append((rc, msgs))
    if not per:
        return None
    queues = [list(m) for _, m in per]
    log = []
    enc = FusionEngineEncoder()
    while any(queues):
        qi = rng.choice([i for i, q in enumerate(queues) if q])
        try:
            log.append({'class': per[qi][0].__name__, 'framed_hex': bytes(enc.encode_message(queues[qi].pop(0))).hex()})
        except Exception:     # noqa  (encoding is not this property's subject)
            ctx.count('read_message_not_encodable')
    in_file = sorted({int(c.MESSAGE_TYPE) for c, _ in per})
    no_class = [int(t) for t in types_without_class()[:-1]]
    absent = [int(c.MESSAGE_TYPE) for c, _ in tg if int(c.MESSAGE_TYPE) not in in_file]

    def listed():
        ts = list(in_file) + rng.sample(no_class, rng.choice([0, 1, 1, 2])) + rng.sample(absent, rng.choice([0, 1, 2]))
        if rng.random() < 0.3 and len(in_file) > 1:
            ts.remove(rng.choice(in_file))
        rng.shuffle(ts)
        return ts
    flags = {'remove_nan_times': rng.random() < 0.6, 'keep_messages': rng.random() < 0.5, 'return_bytes': rng.random() < 0.15,
             'return_message_index': rng.random() < 0.5}
    reads = [dict(flags, types=None if rng.random() < 0.4 else listed())]
    if rng.random() < 0.5:
        f2 = flags if rng.random() < 0.7 else dict(flags, keep_messages=not flags['keep_messages'])
        reads.append(dict(f2, types=listed() if reads[0]['types'] is None or rng.random() < 0.5 else None))
    return {'kind': 'read', 'how': 'log-with-%s-list-lengths' % kind, 'log': log, 'index_file': rng.random() < 0.3, 'reads': reads}


def run_read_case(ctx, rc):
    import logging
    import os
    import shutil
    import sys
    import tempfile
    import traceback
    import warnings
    from fusion_engine_client.analysis.data_loader import DataLoader
    from fusion_engine_client.messages import MessageHeader
    by_name = {c.__name__: (c, o) for c, o in seq_targets()}
    by_type = {int(c.MESSAGE_TYPE): (c, o) for c, o in seq_targets()}
    hs = MessageHeader.calcsize()
    expected = {}
    data = b''
    for e in rc['log']:
        if e['class'] not in by_name:
            raise fv.InfraError('unknown class %s' % e['class'])
        c, _ = by_name[e['class']]
        framed = bytes.fromhex(e['framed_hex'])
        m = c()
        with warnings.catch_warnings():
            warnings.simplefilter('ignore')
            m.unpack(framed[hs:])
        expected.setdefault(int(c.MESSAGE_TYPE), []).append(m)
        data += framed
    workdir = tempfile.mkdtemp(prefix='c16_', dir=fv.BUILD)
    logging.disable(logging.CRITICAL)
    try:
        path = os.path.join(workdir, 'c16.p1log')
        with open(path, 'wb') as f:
            f.write(data)
        with warnings.catch_warnings():
            warnings.simplefilter('ignore')
            loader = DataLoader(path, save_index=bool(rc['index_file']), ignore_index=not rc['index_file'], num_threads=1)
            for j, rd in enumerate(rc['reads']):
                types = None if rd['types'] is None else [type_from_int(v) for v in rd['types']]
                rp = dict(rc, reads=rc['reads'][:j + 1])
                try:
                    res = loader.read(message_types=types, return_numpy=True, show_progress=False, keep_messages=rd['keep_messages'],
                                      remove_nan_times=rd['remove_nan_times'], return_bytes=rd['return_bytes'],
                                      return_message_index=rd['return_message_index'])
                except Exception as e:     # noqa
                    if any(fr.name == 'to_numpy' for fr in traceback.extract_tb(sys.exc_info()[2])):
                        ctx.violation(SIG_READ + '/raised', 'read(return_numpy=True) of a log of %d messages raised %s: %s from the numpy '
                                      'conversion' % (len(rc['log']), type(e).__name__, e), rp)
                    else:
                        ctx.count('read_raised_outside_the_conversion')
                    break
                ctx.count('read_%s_types' % ('all' if types is None else 'listed'))
                ctx.count('read_number_%d_on_the_loader' % (j + 1))
                judge_read_result(ctx, res, expected, by_type, rd, rp)
                ctx.cov['traces_validated_against_impl'] += 1
                ctx.case('read %s' % json.dumps(rp, sort_keys=True), nontrivial=True)
            try:
                loader.close()
            except Exception:     # noqa
                pass
    finally:
        logging.disable(logging.NOTSET)
        shutil.rmtree(workdir, ignore_errors=True)


def judge_read_result(ctx, res, expected, by_type, rd, rp):
    kinds = []
    for t, md in res.items():
        E = expected.get(int(t), [])
        members = md.__dict__
        extra = sorted(k for k in members if k not in SEQ_BASE_ATTRS)
        held = list(md.messages) if isinstance(md.messages, list) else []
        if held and len(held) != len(E):
            ctx.count('read_entry_list_differs_from_the_log')        # (which messages read() returns is C12's subject)
        D = held if held else E
        where = 'entry %s (%d of %d in the result), %d messages of that type in the log' % (
            getattr(t, 'name', t), list(res.keys()).index(t) + 1, len(res), len(E))
        if int(t) not in by_type:
            why = 'no-payload-class'
        else:
            cls, owner = by_type[int(t)]
            f = ragged_field(owner, D)
            why = None if f is None else 'ragged-' + f
        if why is not None:
            ref = None
            if why.startswith('ragged'):
                ref, _ = run_real(Case(cls, owner, D, 'read'))
            if ref is None:
                kinds.append('v')
                ctx.count('read_unconvertible_entry_' + why.split('-')[0])
                if extra:
                    ctx.violation('C16/DataLoader/unconvertible-entry-not-left-as-it-was',
                                  'read(return_numpy=True): %s cannot be converted (%s) but has the members %s' % (where, why, extra),
                                  dict(rp, type=int(t)))
                continue
        kinds.append('c')
        case = Case(cls, owner, D, 'read')
        ref, err = run_real(case)
        if err is not None:
            ctx.violation('C16/%s/to_numpy-raised' % cls.__name__, '%s.to_numpy(%d messages) raised %s' % (cls.__name__, len(D), err), case.replay())
            continue
        oracle_to_numpy(ctx, case, ref)
        verdicts, masks, npos = members_vs_conversion(members, case, ref, rd['remove_nan_times'])
        ctx.count('read_entry_judged_%s' % ('with_messages' if D else 'empty'))
        if all(v is not None for v in verdicts):
            shape_only = all(v[1] == 'shape' for v in verdicts)
            key, how, exp = verdicts[0] if shape_only else next(v for v in verdicts if v[1] != 'shape')
            a = members.get(key)
            ctx.violation('%s/%s' % (SIG_READ, 'arrays-not-one-entry-per-message' if shape_only else 'arrays-hold-other-messages'),
                          'read(return_numpy=True, %s): %s: %r %s' % (
                              ', '.join('%s=%s' % (k, v) for k, v in rd.items() if k != 'types'), where, key,
                              ('is missing' if a is None else 'has shape %s' % (getattr(a, 'shape', None),)) +
                              ', expected shape %s' % (getattr(exp, 'shape', None),) if how == 'shape'
                              else 'does not hold the values of these messages'), dict(rp, type=int(t), key=key))
    ctx.count('read_dictionary_' + dictionary_shape(kinds))


def run_reads(ctx, reps):
    tg = seq_targets()
    for target in tg:
        for _ in range(reps):
            rc = make_read_case(ctx, target)
            if rc is None:
                ctx.count('read_case_unavailable_' + target[0].__name__)
                continue
            ctx.count('read_' + rc['how'])
            run_read_case(ctx, rc)


def script_from_replay(r):
    by = {c.__name__: (c, o) for c, o in targets()}
    entries = []
    for e in r['entries']:
        name = e.get('class', e.get('pool_class'))
        if name not in by:
            raise fv.InfraError('unknown class %s' % name)
        c, o = by[name]
        pool = [decode_obj(c, mp) for mp in e['pool']]
        if 'message_type_without_payload_class' in e:
            entries.append((NoPayloadClass(type_from_int(e['message_type_without_payload_class']), c, o,
                                           bool(e.get('message_class_without_to_numpy'))), None, pool))
        else:
            entries.append((c, o, pool))
    return Script(entries, r['ops'], r.get('how', 'replay'))


# ---- translator validation ------------------------------------------------------------------------------------------
def kind_text(k):
    if k[0] == 'perMsg':
        return 'perMsg/%s/%s/%d' % (k[1], k[2], 1 if k[3] else 0)
    if k[0] == 'first':
        return 'first/nanScalar' if k[1] == 'nanScalar' else 'first/nanVec/%d' % k[2]
    if k[0] == 'fillNaN':
        return 'fillNaN/%s/%s/%d' % ('.'.join(k[1]), '.'.join(k[2]), k[4])
    return 'opaque'


def validate_translator(ctx, classes):
    """the extractor against the running package and against the compiled Lean table"""
    import importlib
    from fusion_engine_client.messages.measurement_details import MeasurementDetails
    by_name = {c.name: c for c in classes}
    # every class that defines to_numpy in the scanned modules is in the table, and nothing else
    defined = set()
    for f in nx.FILES:
        mod = importlib.import_module('fusion_engine_client.messages.' + f)
        for nm, c in vars(mod).items():
            if isinstance(c, type) and c.__module__ == mod.__name__ and 'to_numpy' in c.__dict__:
                defined.add(nm)
                if nm in by_name and not by_name[nm].generic:
                    obj = c()
                    if sorted(vars(obj).keys()) != sorted(by_name[nm].fields):
                        ctx.proof_failures.append('translator: fields of %s read from __init__ %s differ from the object\'s %s'
                                                  % (nm, sorted(by_name[nm].fields), sorted(vars(obj).keys())))
                    if by_name[nm].embeds_details != isinstance(vars(obj).get('details'), MeasurementDetails):
                        ctx.proof_failures.append('translator: embeds_details of %s' % nm)
    if defined != set(by_name):
        ctx.proof_failures.append('translator: classes defining to_numpy %s != extracted %s' % (sorted(defined), sorted(by_name)))
    for _, owner in targets():
        if owner not in by_name:
            ctx.proof_failures.append('translator: no table for %s (module outside the scanned files)' % owner)
    outs = ctx.driver(['np_table ' + c.name for c in classes])
    for c, o in zip(classes, outs):
        pre = 'none' if c.prelude[0] == 'none' else 'opaque' if c.prelude[0] == 'opaque' else \
            'trimLeadingEq/%s/%d' % ('.'.join(c.prelude[1]), c.prelude[3])
        exp = '%s;%d;%s;%s;%s;%s' % ('generic' if c.generic else 'table', 1 if c.embeds_details else 0, pre, ','.join(c.fields),
                                    ','.join(c.not_time_dependent),
                                    ','.join('%s:%s:%s:%d' % (e.key, '.'.join(e.path), kind_text(e.kind), 1 if e.conditional else 0)
                                             for e in nx.flat_entries(classes, c)))
        if o != exp:
            ctx.proof_failures.append('translator: compiled Lean table of %s differs from the extracted one' % c.name)
            ctx.notes.append('np_table %s: lean=%s python=%s' % (c.name, o[:300], exp[:300]))


def same_name_report(classes):
    """Python mirror of `sameNameOk` (only to name the offending entry when the Lean `decide` fails)"""
    md = next(c for c in classes if c.name == 'MeasurementDetails')
    bad = []
    for c in classes:
        for e in nx.flat_entries(classes, c):
            isf = e.key in c.fields or (c.embeds_details and e.key in md.fields)
            if isf and not (e.path == [e.key] or (c.embeds_details and e.path == ['details', e.key])):
                bad.append('%s: key %r is filled from %s (%s:%d)' % (c.name, e.key, '.'.join(e.path) or '<unrecognised>', c.file, e.line))
    return bad


# ---- regression corpus ------------------------------------------------------------------------------------------------
def case_from_replay(r):
    by = {c.__name__: (c, o) for c, o in targets()}
    if r.get('class') not in by:
        raise fv.InfraError('unknown class %s' % r.get('class'))
    cls, owner = by[r['class']]
    if r.get('unpacked_from_hex') is not None:
        msgs = []
        for h in r['unpacked_from_hex']:
            m = cls()
            m.unpack(bytes.fromhex(h))
            msgs.append(m)
    else:
        msgs = [decode_obj(cls, mp) for mp in r['messages']]
    return Case(cls, owner, msgs, 'replay')


def run_corpus(ctx, classes, limit=300):
    """inputs of past failures (tools/corpus/C16) first: single conversions and operation sequences"""
    batch, lines, plan = [], [], []
    for r in fv.corpus('C16')[:limit]:
        try:
            if r.get('kind') == 'sequence':
                run_script(ctx, classes, script_from_replay(r), lines, plan)
                ctx.count('corpus_sequence')
            elif r.get('kind') == 'read':
                run_read_case(ctx, {k: v for k, v in r.items() if k not in ('type', 'key')})
                ctx.count('corpus_read')
            else:
                batch.append(case_from_replay(r))
                ctx.count('corpus_case')
        except fv.InfraError:
            raise
        except Exception:     # noqa  (an entry written for classes / fields that no longer exist)
            ctx.count('corpus_entry_unreadable')
    if batch:
        judge_all(ctx, classes, batch)
    flush_sequences(ctx, lines, plan)



# ---- probing the running classes (fallback of the translator) ---------------------------------------------------------
class _ProbeCtx:
    """what make_case needs; its own fixed generator, so that the inferred table does not depend on VERIF_SEED"""
    def __init__(self):
        import random
        self.rng = random.Random(0xC16)

    def count(self, *a, **k):
        pass


def enum_paths(obj):
    """{attribute path: members} for the enum-valued scalar attributes of a message object and of its nested objects"""
    res = {}
    for k, v in vars(obj).items():
        if isinstance(v, enum.Enum):
            res[(k,)] = type(v)
        elif hasattr(v, '__dict__') and not isinstance(v, (type, np.ndarray)) and not hasattr(v, '__float__'):
            for k2, v2 in vars(v).items():
                if isinstance(v2, enum.Enum):
                    res[(k, k2)] = type(v2)
    return {p: [m for m in T if not str(m.name).startswith('_U_')] for p, T in res.items()}


def probe_cases(cls, owner):
    """the probe lists of one class: lengths 0, 1, 2, 5 with pairwise distinct values and invalid P1 times at known places; random
    enum members / booleans; random time sources; for every enum-valued attribute and every member, lists that begin with
    runs of that member"""
    from fusion_engine_client.messages.measurement_details import SystemTimeSource
    pc = _ProbeCtx()
    rng = pc.rng
    eps = enum_paths(cls())
    has_details = 'details' in vars(cls()) or owner == 'MeasurementDetails'

    def shuffle_enums(case):
        for m in case.msgs:
            for path, members in eps.items():
                set_path(m, list(path), rng.choice(members))
        return case
    out = []
    for n in (0, 1, 2, 5, 5, 3):
        for s in subsets(rng, n, 3):
            src = [rng.choice(list(SystemTimeSource)) for _ in range(n)] if has_details else None
            out.append(shuffle_enums(make_case(pc, cls, owner, n, s, 'probe')))
            if src is not None:
                c = shuffle_enums(make_case(pc, cls, owner, n, s, 'probe'))
                for m, x in zip(c.msgs, src):
                    (m if owner == 'MeasurementDetails' else m.details).measurement_time_source = x
                out.insert(0, c)
    for path, members in eps.items():
        if len(members) < 2:
            continue
        for v in members:
            others = [x for x in members if x != v]
            w, w2 = others[0], others[-1]
            for pat in ([v], [v, v], [v, w], [w, v], [v, v, w, v, w2], [w, v, v, w2, w], [v, v, v, v, w2]):
                c = shuffle_enums(make_case(pc, cls, owner, len(pat), set(), 'probe'))
                for m, x in zip(c.msgs, pat):
                    set_path(m, list(path), x)
                out.append(c)
    return out, {p: [('%s.%s' % (type(m).__name__, m.name), int(m)) for m in ms] for p, ms in eps.items()}


def make_prober(ctx):
    import importlib

    def prober(ci, why):
        try:
            mod = importlib.import_module('fusion_engine_client.messages.' + ci.file[:-3])
            cls = getattr(mod, ci.name)
            cls()
        except Exception as e:     # noqa
            return None, 'class not constructible: %s' % e
        cs, enum_members = probe_cases(cls, ci.name)
        probes = []
        for c in cs:
            real, err = run_real(c)
            if err is not None:
                return None, 'to_numpy raised on a probe list of %d messages: %s' % (len(c.msgs), err[:80])
            if not isinstance(real, dict):
                return None, 'to_numpy does not return a dictionary'
            probes.append((c.msgs, real))
        res = nx.infer_table(ci, probes, enum_members)
        ctx.notes.append('translator: %s.to_numpy not expressible by the AST reader (%s); table %s by probing the running class on %d lists'
                         % (ci.name, why.split('\n')[0][:120], 'OBTAINED' if res[0] is not None else 'NOT obtained (%s)' % res[1], len(probes)))
        return res
    return prober


# ---- entry points ---------------------------------------------------------------------------------------------------
def run(ctx, classes, reps, maxn):
    batch = []
    for case in cases(ctx, classes, reps, maxn):
        batch.append(case)
        if len(batch) >= 400:
            judge_all(ctx, classes, batch)
            batch = []
    if batch:
        judge_all(ctx, classes, batch)


def translate(ctx):
    try:
        classes, changed = nx.run(fv.REPO, fv.LEAN, make_prober(ctx))
    except (ValueError, SyntaxError, OSError) as e:
        ctx.proof_failures.append('translator: %s' % e)
        return None
    ctx.cov['translator'] = {'classes': len(classes), 'entries': sum(len(nx.flat_entries(classes, c)) for c in classes),
                             'generated_file_rewritten': changed,
                             'opaque_entries': ['%s.%s: %s' % (c.name, e.key, e.why) for c in classes for e in c.entries
                                                if isinstance(e, nx.Entry) and e.kind[0] == 'opaque'],
                             'preludes': {c.name: list(c.prelude) for c in classes if c.prelude[0] != 'none'},
                             'helper_functions_read_in_place': {c.name: c.inlined_helpers for c in classes if c.inlined_helpers},
                             'tables_obtained_by_probing': {
                                 c.name: {'ast_reader_said': c.probed, 'notes': c.probe_notes,
                                          'entries': ['%s <- %s (%s)' % (e.key, '.'.join(e.path) or '?', kind_text(e.kind))
                                                      for e in c.entries if isinstance(e, nx.Entry)]}
                                 for c in classes if c.probed},
                             'probing_notes': {c.name: c.probe_notes for c in classes if c.probe_notes and not c.probed}}
    for b in same_name_report(classes):
        ctx.notes.append('same-name check: ' + b)
    return classes


def search(ctx):
    ctx.notes.append('stage E: widened search')
    classes = getattr(ctx, '_classes', None) or []
    run_oracle_only = not classes
    if run_oracle_only:
        for cls, owner in targets():
            for n in range(0, 6):
                for s in subsets(ctx.rng, n, 6):
                    case = make_case(ctx, cls, owner, n, s, 'search')
                    real, err = run_real(case)
                    if err is None:
                        oracle_to_numpy(ctx, case, real)
        run_sequences(ctx, None, 12, with_model=False)
        run_reads(ctx, 2)
        return
    # the oracle does not need the driver: keep going even if it cannot be built
    run_sequences(ctx, classes, 12, with_model=False)
    run_reads(ctx, 2)
    for case in cases(ctx, classes, 8, 6):
        real, err = run_real(case)
        if err is not None:
            ctx.violation('C16/%s/to_numpy-raised' % case.cls.__name__, '%s.to_numpy raised %s' % (case.cls.__name__, err), case.replay())
            continue
        oracle_to_numpy(ctx, case, real)
        if hasattr(case.cls, 'MESSAGE_TYPE') and 'p1_time' in real:
            md, err = run_message_data(case, True)
            if err is None:
                oracle_removal(ctx, case, real, md, True)


def check(ctx):
    ctx.cov['rule'] = ('for every registered payload class (+ MeasurementDetails): message lists of length 0..%d built from real '
                       'objects whose every attribute (floats, ints, enum members, Timestamps with fractional seconds, arrays, the '
                       'nested MeasurementDetails) holds a value distinct from every other value in the list; x subsets of '
                       'messages with an invalid (NaN) P1 time (none, all, each single one, random); x for classes with measurement '
                       'details random time sources; x for CalibrationStatus all stage sequences up to length 3; each through '
                       'cls.to_numpy and MessageData.to_numpy(remove_nan_times=True/False); x for every integer-valued field '
                       '(scalar or integer array, of the message or its measurement details) the boundary values of its wire type '
                       '(range established per field by pack()/unpack() round trips, else from the construct declaration: min, '
                       'min+1, -1, 0, 1, max-1, max, 2^31-1, 2^31, 2^32-1, 2^32, 2^53+1, 2^63-1, 2^63, 2^64-1 as far as in range): '
                       'each alone, neighbouring pairs, the extremes together, all in one list, random in-range values - the '
                       'objects once with the values stored as attributes and once as unpack() returns them from packed bytes; '
                       'integers are compared exactly (never after rounding to binary64). OPERATION SEQUENCES on data dictionaries '
                       'of one to three MessageData entries, for every registered class: add_message() with and without '
                       'message_bytes/message_index, MessageData.to_numpy() / DataLoader.to_numpy() with every combination of '
                       'remove_nan_times, keep_messages, keep_message_bytes, keep_message_index, the message list rebound '
                       '(entry.messages = [...]) or changed in place (slice assignment): an interior / the first / the last message '
                       'dropped, replaced, inserted, the interior reordered, messages appended or prepended, the whole list replaced '
                       '(same or other length), emptied; a message overwritten in place (its fields, its P1 time, to NaN); '
                       'DataLoader.time_align_data(INSERT / DROP, all or listed types) against one or two other entries with epochs '
                       'inside, at the edges of, or scattered over the entry\'s own; more messages added; directed scripts for each '
                       'of these between two conversions plus random scripts of 4..10 operations; after EVERY conversion the numpy '
                       'members of each converted entry are compared with the conversion of the list it held at that moment (with '
                       'the untimed positions removed from all of them or from none), or must be unchanged / the empty conversion when '
                       'it held no messages. WHOLE DICTIONARIES: DataLoader.to_numpy(data) on dictionaries holding, besides convertible '
                       'entries (one of them without messages in a third of the scripts), one or two entries that cannot be converted '
                       '- a message type without payload class (INVALID, the deprecated heading types, RESERVED, an unlisted number - that one also with a message_class offering no to_numpy; '
                       'empty or holding messages), a class with a variable-length list field (MessageRateResponse.rates, '
                       'SupportedIOInterfacesMessage.interfaces) whose messages list different numbers of elements - for every '
                       'registered class with such an entry ahead of it, on both sides of it, behind it, and dictionaries of three / '
                       'four entries in every iteration order; converted, more messages added, converted again with the other '
                       'remove_nan_times, the ragged entry given lists of equal length (now it must be converted too), converted with '
                       'the messages released; a third of the random scripts hold such entries at random places; '
                       'DataLoader.read(return_numpy=True) of generated logs (two to four convertible classes, untimed messages, '
                       'mostly a ragged class; all types or a listed set naming types without class and types absent from the log; '
                       'every combination of remove_nan_times / keep_messages / return_message_index, sometimes return_bytes, with and '
                       'without index file; a second read on the same loader): every convertible entry must carry the conversion of '
                       'its messages, every other entry must be left as it was (variable-length list fields are given 0..3 elements, '
                       'the same number in every message, in all the other inputs). Non-trivial = at least one message; '
                       'distinct = distinct model request' % (8 if ctx.thorough else 5))
    ctx.assumptions += [
        'the extracted table (Generated/Numpy.lean) is the model of the to_numpy sources: validated on every run by evaluating it '
        'in Lean on the same objects as the real code (bit-exact), entries of unrecognised form are listed under '
        'coverage.translator.opaque_entries and are decided by running the real code against the property only',
        'numpy array construction np.array([...]) / .T / boolean-mask indexing are modelled as list stacking, transposition and '
        'filtering (tested by the same comparison); float values are copied, never computed with, in the model',
        'MessageData.to_numpy as a whole is modelled by Model/Numpy.lean mdToNumpy (the \'already converted?\' test on the message '
        'count and the first and last P1 time, dict update, NaN removal): validated step by step, from the real members before '
        'each call and the real class conversion of the current list to the real members after it; keep_message_bytes / '
        'keep_message_index = False (members emptied by the call) are outside the model',
        'DataLoader.to_numpy(data) is modelled by Model/Numpy.lean loaderToNumpy (the loop over the values with the ValueError of one '
        'entry caught inside it): validated on every such call by the set of convertible entries whose to_numpy() is entered (a MessageData '
        'subclass that records the calls and does nothing else), each entry\'s own conversion by mdToNumpy as above. Whether an '
        'entry can be converted is read off the INPUT: its message type has a payload class, and no attribute of its messages '
        '(generic path) holds sequences of different lengths',
        'tools/props/c16.py walks object attributes and encodes them for the model (Timestamp -> its .seconds bit pattern, enum -> '
        'its integer): this encoder is in the trusted base of the correspondence, the oracle reads the objects independently']
    classes = translate(ctx)
    ctx._classes = classes
    ctx.prove(MODULES)
    ctx.cov['trusted_base'] += ['tools/c16_numpy_extract.py as a reader of names and expression shapes (cross-checked against the '
                                'package at run time and against the compiled table)', 'CPython + NumPy %s' % np.__version__]
    if classes is not None:
        try:
            validate_translator(ctx, classes)
            run_corpus(ctx, classes)
            run(ctx, classes, 24 if ctx.thorough else 8, 8 if ctx.thorough else 5)
            run_sequences(ctx, classes, 30 if ctx.thorough else 6)
            run_reads(ctx, 4 if ctx.thorough else 1)
        except fv.InfraError:
            if not ctx.proof_failures:
                raise
    return fv.finish(ctx, 'proof', search)


def replay(ctx, path):
    obj = json.load(open(path))
    r = obj['input']
    classes = translate(ctx)
    ctx._classes = classes
    if r.get('kind') == 'read':
        run_read_case(ctx, {k: v for k, v in r.items() if k not in ('type', 'key')})
        for sig, desc, _ in ctx.violations[:5]:
            print('replayed: %s: %s' % (sig, desc))
        return fv.finish(ctx, 'proof', None)
    if r.get('kind') == 'sequence':
        script = script_from_replay(r)
        lines, plan = [], []
        run_script(ctx, classes, script, lines if classes is not None else None, plan)
        try:
            flush_sequences(ctx, lines, plan)
        except fv.InfraError:
            pass
        for sig, desc, _ in ctx.violations[:5]:
            print('replayed: %s: %s' % (sig, desc))
        return fv.finish(ctx, 'proof', None)
    case = case_from_replay(r)
    cls = case.cls
    done = False
    if classes is not None:
        try:
            judge_all(ctx, classes, [case])
            done = True
        except fv.InfraError:
            pass
    if not done:
        real, err = run_real(case)
        if err is not None:
            ctx.violation('C16/%s/to_numpy-raised' % cls.__name__, err, case.replay())
        else:
            oracle_to_numpy(ctx, case, real)
            if hasattr(cls, 'MESSAGE_TYPE') and 'p1_time' in real:
                for remove in (True, False):
                    md, err = run_message_data(case, remove)
                    if err is None:
                        oracle_removal(ctx, case, real, md, remove)
    for sig, desc, _ in ctx.violations[:5]:
        print('replayed: %s: %s' % (sig, desc))
    return fv.finish(ctx, 'proof', None)
