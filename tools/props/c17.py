"""C17 - unknown enumeration values are preserved, flagged and history-independent; bit-mask helpers round-trip.

Stage A  tools/c17_extract.py regenerates lean/FeVerif/Generated/PyEnums.lean from the working tree.
Stage B  FeVerif.Props.C17 (theorems over the model of DynamicEnumMeta in Model/DynEnum.lean) + axiom audit.
Stage C  the REAL enum classes against the Lean model on operation scripts.  Enum classes are process-global and
         mutated by lenient conversions, so every script runs in a freshly forked child of this process (the parent
         imports the package once and never converts anything).
Stage D  the property statement evaluated directly on what the real classes answered.

Operations of an enum script (one token each; the Lean driver command `dynenum <defs> <ops>` answers in the same format):
  c<int>  E(<int>, raise_on_unrecognized=False)     s<int>  E(<int>, raise_on_unrecognized=True)    d<int>  E(<int>)
  G<int>  E[<int>]                                   q<b>:<int>  E(numpy.uint<b>(<int>), raise_on_unrecognized=False)
  a<b>:<int> / A<b>:<int>  AutoEnum(Int<b>ul, E).parse(bytes) lenient / EnumAdapter(..., raise_on_unrecognized=True).parse(bytes)
  g<name> E[<name>]        n<name> / N<name>  E(<name>, raise_on_unrecognized=True / False)        i  list(E)     l  len(E)
  r  list(reversed(E))     j  len(E) and len(list(E)) taken in the same state, as <len>/<count>
  w<int>  <int> in E       W<name>  E[<name>] in E       H<int>  E(<int>, raise_on_unrecognized=False) in E       (answers T / F)
  K<id>.<form>.<wire>       a NEW adapter object number <id> for (construct.<wire>, E) is created in the way <form> names
                            (ADAPTER_FORMS: AutoEnum / EnumAdapter, flag omitted / by keyword / positional); answers len(E)
  Y<wire>.<form>.<other enum>  an adapter for ANOTHER enumeration on the same wire type is made; answers len(E)
  P<id>.<form>.<wire>:<int> / F...  adapter <id>.parse(bytes of <int>) directly / as a field of a construct.Struct
Answers: a member is NAME=value:U|R (U = is_unrecognized()), a list is comma separated, an exception is !<Type>.
The "defined members / iteration / length" clause is judged on these answers directly, against the definition (the
translator's table: names in declaration order with their values; the FIRST name of a value is the member, later names of
the same value are aliases of it): in every state list(E) is the members in declaration order, each once, no hidden one;
len(E) == len(list(E)) == the number of distinct defined values (not of names); reversed(E) is that list reversed; E[name]
for every name, alias names included, is the member with that value; `v in E` holds exactly for the defined values, `m in E`
for every defined member and not for the hidden member of an unknown value.
(d, G, A are the model's `s`; a, q are the model's `c`; P and F are `s` or `c` according to the flag THAT adapter was
created with, whatever other adapters exist for the same pair and whatever was converted through them.)

Operations of a mask script's `steps` (results live in named slots, so that the caller can edit them between calls):
  [tv, mask, form, slot]  slot = M.to_values(mask)         [ts, mask, form]  M.to_string(mask)
  [tb, idxs, by, container]  M.to_bitmask(container of the members / names / plain ints)
  [rt, idxs, container, slot]  slot = M.to_values(M.to_bitmask(container of members))     (the property's round trip)
  [nb, idxs, slot]  slot = a list of members made by the caller          [tbL, slot, container]  M.to_bitmask(container(slot))
  [ed, slot, edit, i]  the caller edits the list in the slot in place (EDITS)
  [cv, who, int]  who = 'E': E(int, raise_on_unrecognized=False) by the enumeration; 'M': the same by the mask class
A mask script may also carry `history` = [[who, int], ...]: lenient conversions made after the mask class exists and
before any helper is asked (HISTORY_MODES: all by E then all by M, the reverse, value by value in either order, shuffled,
with repetitions, one class only).  The integers (conversion_pool) mean something to BOTH classes: every small integer,
the masks of sets the script asks about, single bits, the full mask, defined values and their neighbours, defined mask
entries.  Each conversion is judged by the property's first clause (judge_conv); the round trip of every subset and every
step answer is judged exactly as without a history.  (A mask class made with define_bits=False and no extra entries has
no members - Python refuses to call it at all - so only the enumeration converts there.)
Every call must give the model's answer for ITS OWN argument, and the same answer as the first time the same question
was asked in the script: a helper that hands out a shared list is wrong as soon as a caller has edited it.
"""
import json
import os
import re
import select
import sys
import time
import traceback

import fv
import c17_extract

MODULES = ['FeVerif.Props.C17']
PREFIX = '_U'
ERRS = {ValueError: '!ValueError', KeyError: '!KeyError', TypeError: '!TypeError', AttributeError: '!AttributeError'}
WIDE = [-1, -2, -128, -129, -32768, -32769, -2 ** 31, -2 ** 31 - 1, -2 ** 63, -2 ** 63 - 1, 127, 128, 255, 256, 257, 32767, 32768,
        65535, 65536, 65537, 2 ** 31 - 1, 2 ** 31, 2 ** 32 - 1, 2 ** 32, 2 ** 63 - 1, 2 ** 63, 2 ** 64 - 1, 2 ** 64, 2 ** 64 + 1, 10 ** 30]
ABSENT = ['NO_SUCH_MEMBER', 'no_such_member', 'X', 'U_3', 'u', '_', '_V_3', 'UNRECOGNIZED', '3', '']


# how an adapter object is made -> whether unrecognised values are refused (True = strict)
ADAPTER_FORMS = {'ad': False,    # AutoEnum(wire, E)                                   (its default is permissive)
                 'af': False,    # AutoEnum(wire, E, raise_on_unrecognized=False)
                 'at': True,     # AutoEnum(wire, E, raise_on_unrecognized=True)
                 'ap': True,     # AutoEnum(wire, E, True)
                 'aq': False,    # AutoEnum(wire, E, False)
                 'ed': True,     # EnumAdapter(E, construct.Enum(wire, E))             (its default is strict)
                 'et': True,     # EnumAdapter(E, construct.Enum(wire, E), raise_on_unrecognized=True)
                 'ef': False}    # EnumAdapter(E, construct.Enum(wire, E), raise_on_unrecognized=False)
WIRES = ['Int8ul', 'Int16ul', 'Int32ul', 'Int64ul', 'Int8sl', 'Int16sl', 'Int32sl', 'Int64sl', 'Int16ub', 'Int32ub', 'Int24ul',
         'Int8ub', 'Int16sb', 'Int64ub', 'Int24sb', 'Int32sb']
EDITS = ['remove0', 'pop', 'clear', 'append', 'insert0', 'reverse', 'sortdesc', 'sortasc', 'extendself', 'set0', 'dellast2']


def wire_range(w):
    m = re.match(r'Int(\d+)([us])', w)
    b = int(m.group(1))
    return (0, (1 << b) - 1) if m.group(2) == 'u' else (-(1 << (b - 1)), (1 << (b - 1)) - 1)


def adapter_op(op):
    """(kind, id, form, wire, value or None) of a K / P / F token."""
    head, _, v = op.partition(':')
    i, form, wire = head[1:].split('.')
    return op[0], i, form, wire, (int(v) if v else None)


# ---- running the real code (inside a forked child) ------------------------------------------------------------------

def _err(e):
    for t, s in ERRS.items():
        if type(e) is t:
            return s
    return '!Other:' + type(e).__name__


_SYN_CACHE = {}


def resolve_enum(q):
    """A package class by qualified name, or a synthetic IntEnum `synthetic:Name|A=3,B=1` (declaration order kept)."""
    if not q.startswith('synthetic:'):
        return c17_extract.resolve(q)
    if q not in _SYN_CACHE:
        name, body = q[len('synthetic:'):].split('|')
        src = 'from fusion_engine_client.utils.enum_utils import IntEnum\nclass %s(IntEnum):\n' % name
        for item in body.split(','):
            n, v = item.split('=')
            src += '    %s = %d\n' % (n, int(v))
        ns = {}
        exec(src, ns)
        _SYN_CACHE[q] = ns[name]
    return _SYN_CACHE[q]


SYNTHETIC = ['synthetic:SentinelFirst|INVALID=15,A=0,B=3,C=1',
             'synthetic:Descending|Z=9,Y=5,X=2',
             'synthetic:Gappy|LOW=1,HIGH=40,MID=7,ZERO=0',
             'synthetic:NegFirst|LAST=6,NEG=-2,FIRST=-5,ONE=1',
             # several NAMES for one value (the package has a single such class, MessageRate): two and three names, the
             # alias right after its member / after other members / before other members, aliases of the zero value, of a
             # negative value, of the first and of the last member, more alias names than members
             'synthetic:AliasPair|A=1,B=2,B2=2,C=3',
             'synthetic:AliasTriple|X=5,Y=5,Z=5,W=1,V=9',
             'synthetic:AliasZero|NONE=0,OFF=0,ON=1,HIGH=2,MAX=2,DISABLED=0',
             'synthetic:AliasLate|FIRST=3,SECOND=1,THIRD=7,AGAIN=3,LAST=0,ZERO=0,SEVEN=7',
             'synthetic:AliasNeg|M=-1,N=-1,P=4,Q=-3,R=4,S=-3,T=-1,U=4']


def synthetic_infos():
    out = []
    for q in SYNTHETIC:
        body = q.split('|')[1]
        out.append(Info({'qualname': q, 'defn': [(x.split('=')[0], int(x.split('=')[1])) for x in body.split(',')], 'bits': 8}))
    return out


class _Exec:
    """Executes primitive operations on one real enum class and renders what it saw."""

    def __init__(self, E):
        self.E = E
        self.first = {}      # (name, value) -> the object first seen under that name and value
        self.adapters = {}
        self.made = {}       # id -> (form, wire, adapter object): the adapters of K operations
        self.foreign = []

    def tok(self, m):
        E = self.E
        if type(m) is not E:
            return '?type:%s' % type(m).__name__
        t = '%s=%d:%s' % (m.name, int(m), 'U' if m.is_unrecognized() else 'R')
        if m.value != int(m):
            t += '?value'
        if self.first.setdefault((m.name, int(m)), m) is not m:
            t += '~'            # equal to, but not the same object as, the member seen earlier
        return t

    def adapter(self, bits, strict):
        key = (bits, strict)
        if key not in self.adapters:
            import construct
            from fusion_engine_client.utils.construct_utils import AutoEnum, EnumAdapter
            sub = getattr(construct, 'Int%dul' % bits)
            if strict:
                self.adapters[key] = EnumAdapter(self.E, construct.Enum(sub, self.E), raise_on_unrecognized=True)
            else:
                self.adapters[key] = AutoEnum(sub, self.E)   # lenient is AutoEnum's default
        return self.adapters[key]

    def op(self, op):
        E = self.E
        k, arg = op[0], op[1:]
        try:
            if k == 'c':
                return self.tok(E(int(arg), raise_on_unrecognized=False))
            if k == 's':
                return self.tok(E(int(arg), raise_on_unrecognized=True))
            if k == 'd':                                   # default flag must be the strict one
                return self.tok(E(int(arg)))
            if k == 'n':
                return self.tok(E(arg, raise_on_unrecognized=True))
            if k == 'N':
                return self.tok(E(arg, raise_on_unrecognized=False))
            if k == 'g':
                return self.tok(E[arg])
            if k == 'G':                                   # E[<int>] is E(<int>): strict
                return self.tok(E[int(arg)])
            if k in 'MDIL':                                # the MEMBER OBJECT of an earlier lenient conversion is converted
                m = E(int(arg), raise_on_unrecognized=False)       # (already seen: no state change)
                if k == 'M':
                    return self.tok(E(m, raise_on_unrecognized=True))
                if k == 'D':
                    return self.tok(E(m))
                if k == 'I':
                    return self.tok(E[m])
                return self.tok(E(m, raise_on_unrecognized=False))
            if k == 'x':                                   # a lenient conversion on ANOTHER enumeration; then len(E)
                q, v = arg.rsplit(':', 1)
                resolve_enum(q)(int(v), raise_on_unrecognized=False)
                return str(len(E))
            if k == 'i':
                return ','.join(self.tok(m) for m in list(E)) or '-'
            if k == 'l':
                return str(len(E))
            if k == 'r':
                return ','.join(self.tok(m) for m in reversed(E)) or '-'
            if k == 'j':                                   # both in the same state: nothing happens in between
                n, members = len(E), list(E)
                return '%s/%d' % (n if type(n) is int else '?type:' + type(n).__name__, len(members))
            if k in 'wWH':
                x = int(arg) if k == 'w' else E[arg] if k == 'W' else E(int(arg), raise_on_unrecognized=False)
                b = x in E
                return ('T' if b else 'F') if type(b) is bool else '?type:%s' % type(b).__name__
            if k == 'q':                                   # a numpy integer, as the file index hands them over
                import numpy as np
                bits, v = arg.split(':')
                return self.tok(E(getattr(np, 'uint' + bits)(int(v)), raise_on_unrecognized=False))
            if k in 'aA':
                bits, v = arg.split(':')
                bits, v = int(bits), int(v)
                return self.tok(self.adapter(bits, k == 'A').parse(v.to_bytes(bits // 8, 'little')))
            if k == 'Y':                                   # an adapter for ANOTHER enumeration on the same wire type; then len(E)
                import construct
                from fusion_engine_client.utils.construct_utils import AutoEnum, EnumAdapter
                wire, form, q = arg.split('.', 2)
                O = resolve_enum(q)
                sub = getattr(construct, wire)
                if form[0] == 'a':
                    a = AutoEnum(sub, O, raise_on_unrecognized=ADAPTER_FORMS[form])
                else:
                    a = EnumAdapter(O, construct.Enum(sub, O), raise_on_unrecognized=ADAPTER_FORMS[form])
                self.foreign.append(a)
                return str(len(E))
            if k in 'KPF':
                import construct
                from fusion_engine_client.utils.construct_utils import AutoEnum, EnumAdapter
                _, i, form, wire, v = adapter_op(op)
                sub = getattr(construct, wire)
                if k == 'K':
                    if i in self.made:
                        return '!bad-op'
                    if form == 'ad':
                        a = AutoEnum(sub, E)
                    elif form in ('af', 'at'):
                        a = AutoEnum(sub, E, raise_on_unrecognized=(form == 'at'))
                    elif form in ('ap', 'aq'):
                        a = AutoEnum(sub, E, form == 'ap')
                    elif form == 'ed':
                        a = EnumAdapter(E, construct.Enum(sub, E))
                    else:
                        a = EnumAdapter(E, construct.Enum(sub, E), raise_on_unrecognized=(form == 'et'))
                    self.made[i] = (form, wire, a)
                    return str(len(E))
                if i not in self.made or self.made[i][:2] != (form, wire):
                    return '!bad-op'
                a = self.made[i][2]
                data = sub.build(v)
                if k == 'F':
                    return self.tok(construct.Struct('pad' / construct.Int8ul, 'f' / a).parse(b'\x07' + data).f)
                return self.tok(a.parse(data))
        except BaseException as e:
            return _err(e)
        return '!bad-op'


def _child_enum(script):
    E = resolve_enum(script['enum'])
    ex = _Exec(E)
    return [ex.op(o) for o in script['ops']]


def _child_mask(script):
    """to_bitmask / to_values of a mask class over subsets of the captured members."""
    from fusion_engine_client.utils.enum_utils import enum_bitmask
    if script.get('package_mask'):
        M = c17_extract.resolve(script['package_mask'])
        E = type(M._enum_values[0])
    else:
        E = resolve_enum(script['enum'])
    ex = _Exec(E)
    pre = script.get('pre', [])
    done = []

    def convert(v):
        done.append('c%d' % v)
        try:
            E(v, raise_on_unrecognized=False)
        except BaseException as e:
            return {'decorate': 'pre', 'pre_ops': list(done), 'pre_error': _err(e)}
    for v in pre[:len(pre) // 2]:
        r = convert(v)
        if r:
            return r
    if not script.get('package_mask'):
        try:
            @enum_bitmask(E, offset=script['offset'], define_bits=script['define_bits'])
            class M:
                pass
        except BaseException as e:
            return {'decorate': _err(e)}
    for v in pre[len(pre) // 2:]:
        r = convert(v)
        if r:
            return r
    vals = list(M._enum_values)
    res = {'decorate': 'ok', 'offset': int(M._enum_offset), 'enum_values': ','.join(ex.tok(m) for m in vals) or '-',
           'attrs': ','.join('%s=%d' % (n, int(m.value)) for n, m in M.__members__.items()) or '-', 'rows': [], 'tv': []}
    exM = _Exec(M)
    if script.get('history'):
        # unknown integers seen by the enumeration AND by the mask class (itself an IntEnum of the package) before the
        # helpers are asked anything: both classes are process-global and grow hidden entries
        res['history'] = [_convert(E, ex, M, exM, who, v) for who, v in script['history']]
    for idxs in script['subsets']:
        members = [vals[i] for i in idxs]
        row = {}
        try:
            mask = M.to_bitmask(members)
            row['mask'] = '%x' % mask if mask >= 0 else '!negative'
        except BaseException as e:
            row['mask'] = _err(e)
            mask = None
        if mask is not None and mask >= 0:
            try:
                row['back'] = ','.join(ex.tok(m) for m in M.to_values(mask)) or '-'
            except BaseException as e:
                row['back'] = _err(e)
        if script.get('names'):
            try:
                m2 = M.to_bitmask([m.name.lower() if j % 2 else m.name for j, m in enumerate(members)])
                row['bymask'] = '%x' % m2 if m2 >= 0 else '!negative'
                row['byback'] = ','.join(ex.tok(m) for m in M.to_values(m2)) or '-' if m2 >= 0 else '-'
            except BaseException as e:
                row['bymask'] = _err(e)
        res['rows'].append(row)
    for mask in script.get('raw_masks', []):
        try:
            res['tv'].append(','.join(ex.tok(m) for m in M.to_values(mask)) or '-')
        except BaseException as e:
            res['tv'].append(_err(e))
    if script.get('steps'):
        res['steps'] = _mask_steps(M, E, ex, vals, script['steps'], exM)
    return res


def _convert(E, ex, M, exM, who, v):
    """E(v, raise_on_unrecognized=False) / M(v, raise_on_unrecognized=False) rendered as a member token."""
    try:
        return ex.tok(E(v, raise_on_unrecognized=False)) if who == 'E' else exM.tok(M(v, raise_on_unrecognized=False))
    except BaseException as e:
        return _err(e)


def _mask_steps(M, E, ex, vals, steps, exM=None):
    """The caller's side of a mask script: results are kept in slots and edited in place between calls."""
    import collections
    exM = exM or _Exec(M)
    slots = {}
    out = []

    def content(r):
        if type(r) is not list:
            return '?type:%s' % type(r).__name__
        return ','.join(ex.tok(m) if type(m) is E else '?type:%s' % type(m).__name__ for m in r) or '-'

    def as_mask(hexs, form):
        mask = int(hexs, 16)
        if form == 'bool' and mask in (0, 1):
            return bool(mask)
        if form == 'member':
            for m in M.__members__.values():
                if int(m.value) == mask:
                    return m
        return mask

    def container(kind, items):
        items = list(items)
        if kind in ('same', 'kwlist'):
            return items
        if kind == 'gen':
            return (x for x in items)
        if kind == 'rev':
            return reversed(items)
        if kind == 'dict':
            return dict.fromkeys(items)
        if kind == 'keys':
            return dict.fromkeys(items).keys()
        return {'list': list, 'tuple': tuple, 'set': set, 'frozenset': frozenset, 'iter': iter,
                'deque': collections.deque}[kind](items)

    def pick(idxs, by):
        if by == 'name':
            return [vals[i].name.lower() if j % 2 else vals[i].name for j, i in enumerate(idxs)]
        if by == 'int':
            return [int(vals[i]) for i in idxs]
        return [vals[i] for i in idxs]

    def hexmask(mask):
        return '%x' % mask if type(mask) is int and mask >= 0 else '?mask:%s' % type(mask).__name__ if type(mask) is not int else '!negative'

    for st in steps:
        k = st[0]
        try:
            if k == 'tv':
                _, hexs, form, slot = st
                mask = as_mask(hexs, form)
                r = M.to_values(mask=mask) if form == 'kw' else M.to_values(mask)
                slots[slot] = r
                out.append(content(r))
            elif k == 'cv':                     # a lenient conversion by the enumeration ('E') or by the mask class ('M')
                out.append(_convert(E, ex, M, exM, st[1], st[2]))
            elif k == 'ts':
                _, hexs, form = st
                mask = as_mask(hexs, form)
                r = M.to_string(mask=mask) if form == 'kw' else M.to_string(mask)
                out.append('=' + r if type(r) is str else '?type:%s' % type(r).__name__)
            elif k == 'tb':
                _, idxs, by, cont = st
                arg = container(cont, pick(idxs, by))
                out.append(hexmask(M.to_bitmask(values=arg) if cont == 'kwlist' else M.to_bitmask(arg)))
            elif k == 'rt':
                _, idxs, cont, slot = st
                mask = M.to_bitmask(container(cont, pick(idxs, 'member')))
                r = M.to_values(mask)
                slots[slot] = r
                out.append(hexmask(mask) + '|' + content(r))
            elif k == 'nb':
                _, idxs, slot = st
                slots[slot] = pick(idxs, 'member')
                out.append(content(slots[slot]))
            elif k == 'tbL':
                _, slot, cont = st
                if slot not in slots:
                    out.append('!bad-ref')
                    continue
                arg = slots[slot]
                before = content(arg)
                try:
                    ans = hexmask(M.to_bitmask(arg if cont == 'same' else container(cont, arg)))
                except BaseException as e:
                    ans = _err(e)
                out.append(before + '|' + ans)
            elif k == 'ed':
                _, slot, edit, i = st
                if slot not in slots:
                    out.append('!bad-ref')
                    continue
                r = slots[slot]
                new = vals[i % len(vals)] if vals else None
                if edit == 'remove0':
                    if r:
                        r.remove(r[0])
                elif edit == 'pop':
                    if r:
                        r.pop()
                elif edit == 'clear':
                    r.clear()
                elif edit == 'append':
                    if new is not None:
                        r.append(new)
                elif edit == 'insert0':
                    if new is not None:
                        r.insert(0, new)
                elif edit == 'reverse':
                    r.reverse()
                elif edit == 'sortdesc':
                    r.sort(key=int, reverse=True)
                elif edit == 'sortasc':
                    r.sort(key=int)
                elif edit == 'extendself':
                    r.extend(list(r))
                elif edit == 'set0':
                    if r and new is not None:
                        r[0] = new
                elif edit == 'dellast2':
                    del r[-2:]
                else:
                    out.append('!bad-op')
                    continue
                out.append(content(r))
            else:
                out.append('!bad-op')
        except BaseException as e:
            out.append(_err(e))
    return out


def _child(script):
    sys.set_int_max_str_digits(0)
    return _child_mask(script) if script.get('kind') == 'mask' else _child_enum(script)


def run_forked(scripts, nproc=4, timeout=600):
    """Each script in its own forked child; returns the list of results (or {'infra': text})."""
    results = [None] * len(scripts)
    pending = list(enumerate(scripts))
    live = {}      # read fd -> (index, pid, chunks)
    sys.stdout.flush()
    while pending or live:
        while pending and len(live) < nproc:
            i, sc = pending.pop(0)
            r, w = os.pipe()
            pid = os.fork()
            if pid == 0:
                code = 0
                try:
                    os.close(r)
                    try:
                        out = {'ok': _child(sc)}
                    except BaseException:
                        out = {'infra': traceback.format_exc()[-1500:]}
                    with os.fdopen(w, 'w') as f:
                        json.dump(out, f)
                except BaseException:
                    code = 3
                finally:
                    os._exit(code)
            os.close(w)
            live[r] = (i, pid, [])
        ready, _, _ = select.select(list(live), [], [], timeout)
        if not ready:
            for _, pid, _ in live.values():
                try:
                    os.kill(pid, 9)
                    os.waitpid(pid, 0)
                except OSError:
                    pass
            raise fv.InfraError('enum worker timed out')
        for r in ready:
            data = os.read(r, 1 << 20)
            if data:
                live[r][2].append(data)
                continue
            i, pid, chunks = live.pop(r)
            os.close(r)
            os.waitpid(pid, 0)
            try:
                results[i] = json.loads(b''.join(chunks).decode())
            except ValueError:
                results[i] = {'infra': 'worker died without an answer'}
    return results


# ---- script generation -----------------------------------------------------------------------------------------------

class Info:
    """What the definition says (from the translator's table): the oracle's reference."""

    def __init__(self, e):
        self.q = e['qualname']
        self.defn = e['defn']
        self.bits = e['bits']
        self.values = set(v for _, v in self.defn)
        self.canon = {}
        for n, v in self.defn:
            self.canon.setdefault(v, n)
        self.byname = dict(self.defn)
        # names vs members (c17_extract.split_aliases; the generated Lean table states per class that `members` is the
        # model's canonicalMembers of the body)
        members, aliases = c17_extract.split_aliases(self.defn)
        self.members = members
        self.aliases = aliases
        self.member_toks = ['%s=%d:R' % (n, v) for n, v in members]
        self.iter = ','.join(self.member_toks) or '-'
        self.reversed = ','.join(reversed(self.member_toks)) or '-'
        self.len = len(members)

    def member(self, v):
        return '%s=%d:R' % (self.canon[v], v)

    def defs(self):
        return ','.join('%s=%d' % (n, v) for n, v in self.defn) or '-'


def checkpoint(info, seen, rng, full):
    ops = ['i', 'l', 'j', 'r']
    vs = sorted(info.values)
    ops += ['w%d' % v for v in (vs if full or len(vs) <= 6 else rng.sample(vs, 6))]
    ops += ['w%d' % v for v in (vs[0] - 1, vs[-1] + 1, vs[-1] + 2, 77) if v not in info.values]
    names = [n for n, _ in info.defn]
    ops += ['W' + n for n in (names if full or len(names) <= 6 else [a for a, _ in info.aliases][:4] + rng.sample(names, 4))]
    ops += ['g' + n for n, _ in info.defn]
    ops += ['g' + n for n in ABSENT if n]
    if full:
        ops += ['g' + n.lower() for n, _ in info.defn[:6]] + ['n' + n for n, _ in info.defn[:6]] + ['nNO_SUCH_MEMBER']
    sv = list(seen)
    if len(sv) > 300:
        sv = rng.sample(sv, 300)
    ops += ['s%d' % v for v in sv]
    ops += ['g%s_%d' % (PREFIX, v) for v in sv[:8]] + ['n%s_%d' % (PREFIX, v) for v in sv[:3]]
    ops += ['w%d' % v for v in sv[:6]] + ['H%d' % v for v in sv[-3:]]     # an unknown value seen before, and its hidden member
    return ops


def enum_script(info, vals, rng, label, every, adapter_bits=0, per_value_strict=True):
    ops = checkpoint(info, [], rng, True)
    seen = []
    for j, v in enumerate(vals):
        use_adapter = adapter_bits and 0 <= v < (1 << adapter_bits) and j % 3 == 2
        conv = ('a%d:%d' % (adapter_bits, v)) if use_adapter else \
            ('q16:%d' % v) if (j % 4 == 1 and 0 <= v < 65536) else 'c%d' % v
        strict = ('A%d:%d' % (adapter_bits, v)) if use_adapter else ('d%d' % v if j % 5 == 4 else 's%d' % v)
        if per_value_strict and j % 2:
            ops += [strict, conv, strict]        # refused before it was ever seen, and after
        elif per_value_strict:
            ops += [conv, strict]
        else:
            ops += [conv]
        if j % 7 == 3:
            ops += ['c%d' % v, 'g%s_%d' % (PREFIX, v)]     # a second lenient conversion returns the same member
        if j % 11 == 5:
            ops += ['G%d' % v]
        seen.append(v)
        if every and (j + 1) % every == 0 and j + 1 < len(vals):
            ops += checkpoint(info, seen, rng, False)
    ops += checkpoint(info, seen, rng, True)
    return {'kind': 'enum', 'enum': info.q, 'ops': ops, 'label': label, 'oracle': True}


def member_and_foreign_script(info, others, rng):
    """Conversions of member OBJECTS (a hidden member handed back to a strict conversion must still be refused) and
    histories on OTHER enumerations (unknown values seen by another class must not change this one)."""
    ops = checkpoint(info, [], rng, False)
    vs = sorted(info.values)
    unknown = [v for v in (vs[-1] + 1, vs[-1] + 7, vs[0] - 1, 77, 200) if v not in info.values][:4]
    seen = []
    for v in unknown:
        ops += ['c%d' % v, 'M%d' % v, 'D%d' % v, 'I%d' % v, 'L%d' % v, 's%d' % v]
        seen.append(v)
    for v in vs[:6]:
        ops += ['c%d' % v, 'M%d' % v, 'D%d' % v, 'I%d' % v]
    for o in others:
        # values defined HERE but unknown THERE are converted leniently there; here they must stay defined and strict-acceptable
        for v in [x for x in vs if x not in o.values][:5]:
            ops += ['x%s:%d' % (o.q, v), 's%d' % v, 'd%d' % v, 'c%d' % v]
        # and values unknown here that the other class saw must still be refused here
        for v in unknown[:2]:
            ops += ['x%s:%d' % (o.q, v), 's%d' % v]
    ops += checkpoint(info, seen, rng, True)
    return {'kind': 'enum', 'enum': info.q, 'ops': ops, 'label': 'member-objects+foreign-enums', 'oracle': True}


ALL_FORM_PAIRS = [(a, b) for a in sorted(ADAPTER_FORMS) for b in sorted(ADAPTER_FORMS)]


def form_tuples(rng, n, uncovered):
    """n creation orders (4 forms each) chosen greedily so that the ordered pairs (made earlier, made later) not yet
    covered - `uncovered`, shared by the caller across scripts - get covered first."""
    forms = sorted(ADAPTER_FORMS)
    out = []
    for _ in range(n):
        best, gain = None, -1
        for _ in range(24):
            t = [rng.choice(forms) for _ in range(4)]
            g = len(set((t[a], t[b]) for a in range(4) for b in range(a + 1, 4)) & uncovered)
            if g > gain:
                best, gain = t, g
        uncovered -= set((best[a], best[b]) for a in range(4) for b in range(a + 1, 4))
        if not uncovered:
            uncovered |= set(ALL_FORM_PAIRS)
        out.append(best)
    return out


def adapter_script(ctx, info, rng, variant, uncovered, others=()):
    """Several adapter objects for the same (wire type, enumeration) pair, made in some order with different flags
    and by different call forms; after each creation every adapter made so far is asked about a new unknown value,
    a defined value and an unknown value seen before (through whichever adapter).  Each answer is judged by the flag
    of the adapter that was asked.  The package's own fields (AutoEnum(Int8ul/16ul/32ul, X), all permissive) exist
    since import: for those pairs the first adapter made here is a strict one."""
    ops = checkpoint(info, [], rng, False)
    vs = sorted(info.values)
    own = ['Int8ul', 'Int16ul', 'Int32ul']
    rest = WIRES[3:]
    if not ctx.thorough:
        rest = rng.sample(rest, 5)
    wires = own + rest
    if variant:
        rng.shuffle(wires)
    tuples = form_tuples(rng, len(wires), uncovered)
    seen, used = [], set(info.values)
    nid = 0

    def fresh(lo, hi):
        for c in [vs[-1] + 1, vs[0] - 1, hi, lo, 77, 200, hi - 1, lo + 1] + [rng.randint(lo, hi) for _ in range(40)]:
            if lo <= c <= hi and c not in used:
                used.add(c)
                return c
        return None

    for wi, wire in enumerate(wires):
        lo, hi = wire_range(wire)
        forms = list(tuples[wi])
        if wire in own and not variant:
            forms[0] = 'at' if wi % 2 == 0 else 'ap'
        inrange = [v for v in vs if lo <= v <= hi]
        made = []
        for fi, form in enumerate(forms):
            if others and (wi + fi) % 4 == 1:      # somebody makes a field of another enumeration on this wire type
                ops.append('Y%s.%s.%s' % (wire, rng.choice(sorted(ADAPTER_FORMS)), rng.choice(others).q))
            tag = '%d.%s.%s' % (nid, form, wire)
            nid += 1
            ops.append('K' + tag)
            for earlier in made:
                ctx.count('adapter_order_%s_then_%s' % (earlier.split('.')[1], form))
            made.append(tag)
            order = made[:]
            if rng.random() < 0.5:
                order.sort(key=lambda t: not ADAPTER_FORMS[t.split('.')[1]])      # the strict ones first
            elif rng.random() < 0.5:
                order.reverse()
            u = fresh(lo, hi)
            if u is not None:
                ops += ['%s%s:%d' % ('PF'[(j + wi) % 2], t, u) for j, t in enumerate(order)]
                ops += ['P%s:%d' % (t, u) for t in reversed(order)]
                ops += ['s%d' % u]
                seen.append(u)
            for v in (rng.sample(inrange, min(2, len(inrange))) if inrange else []):
                ops += ['P%s:%d' % (t, v) for t in made]
            old = [x for x in seen[:-1] if lo <= x <= hi]
            if old:
                x = rng.choice(old)
                ops += ['P%s:%d' % (t, x) for t in made]
        if wire == 'Int8ul' and made:
            # the whole wire range through the strict and the permissive adapter made last, strict first
            st = [t for t in made if ADAPTER_FORMS[t.split('.')[1]]][-1:]
            le = [t for t in made if not ADAPTER_FORMS[t.split('.')[1]]][-1:]
            for v in range(256):
                ops += ['P%s:%d' % (t, v) for t in st + le + st]
            seen += [v for v in range(256) if v not in info.values and le]
        if wi % 3 == 2:
            ops += checkpoint(info, seen[-40:], rng, False)
    ops += checkpoint(info, seen, rng, True)
    return {'kind': 'enum', 'enum': info.q, 'ops': ops, 'label': 'adapters-%s' % ('package-pairs-first' if not variant else 'shuffled'),
            'oracle': True}


def string_path_script(info, rng):
    """The lenient *string* conversion adds a visible member by design; compared with the model only."""
    vs = sorted(info.values)
    ops = ['i', 'l', 'c%d' % (min(vs) - 1), 'Nbogus', 'i', 'l', 'gbogus', 'nbogus', 'Nbogus', 'Nother', 'i', 'l',
           'N%s_77' % PREFIX, 'i', 'l', 'c77', 's77', 'n%s_77' % PREFIX, 'N' + info.defn[0][0].lower(), 'i', 'l']
    return {'kind': 'enum', 'enum': info.q, 'ops': ops, 'label': 'string-path', 'oracle': False}


def enum_scripts(ctx, infos):
    rng = ctx.rng
    out = []
    uncovered = set(ALL_FORM_PAIRS)
    for info in infos:
        lo = list(range(256))
        sh = lo[:]
        rng.shuffle(sh)
        bits = info.bits if info.bits in (8, 16, 32, 64) else 0
        ab = bits if bits in (8, 16, 32) else 0
        out.append(enum_script(info, lo, rng, '8bit-ascending', 64, ab))
        out.append(enum_script(info, lo[::-1], rng, '8bit-descending', 64, 0))
        out.append(enum_script(info, sh, rng, '8bit-shuffled', 50, ab))
        wide = WIDE + [rng.randrange(-2 ** 63, 2 ** 64) for _ in range(40)] + sorted(info.values) + \
            [v + d for v in info.values for d in (-1, 1)]
        rng.shuffle(wide)
        out.append(enum_script(info, wide, rng, 'wide-boundary-random', 40, 0))
        if bits != 8:
            n = 6000 if ctx.thorough else 1200
            pool = set(rng.randrange(65536) for _ in range(n)) | {0, 1, 254, 255, 256, 257, 32767, 32768, 65534, 65535} | \
                set(v for v in info.values if 0 <= v < 65536) | set(v + d for v in info.values for d in (-1, 1) if 0 <= v + d < 65536)
            pool = sorted(pool)
            psh = pool[:]
            rng.shuffle(psh)
            out.append(enum_script(info, pool, rng, '16bit-sample-ascending', 400, ab if ab >= 16 else 0))
            out.append(enum_script(info, pool[::-1], rng, '16bit-sample-descending', 400, 0))
            out.append(enum_script(info, psh, rng, '16bit-sample-shuffled', 400, ab if ab >= 16 else 0))
        out.append(string_path_script(info, rng))
        others = [o for o in infos if o.q != info.q and len(o.values - info.values) + len(info.values - o.values) > 0]
        out.append(adapter_script(ctx, info, rng, 0, uncovered, others))
        out.append(adapter_script(ctx, info, rng, 1, uncovered, others))
        out.append(member_and_foreign_script(info, rng.sample(others, min(3, len(others))), rng))
    if ctx.thorough:
        # every value of the 16-bit wire range for the 16-bit classes.  A lenient conversion costs O(members) in aenum (and
        # in the list-based model), so one history of 65536 unknown values costs as much as 256 histories of 4096: the
        # range is split into 16 histories of 4096 values per class - contiguous ascending, contiguous descending or a random
        # partition - each in its own process, each value converted leniently and strictly, all of it compared with the
        # model.  One class per run also gets a single long history (16384 values, oracle on all of it, model on a prefix).
        k = 0
        sixteen = [info for info in infos if info.bits == 16]
        for info in sixteen:
            vals = list(range(65536))
            if k % 3 == 1:
                vals.reverse()
            elif k % 3 == 2:
                rng.shuffle(vals)
            k += 1
            for c in range(16):
                out.append(enum_script(info, vals[c * 4096:(c + 1) * 4096], rng, '16bit-exhaustive-part', 2048, 0))
        if sixteen:
            info = sixteen[ctx.seed % len(sixteen)]
            vals = rng.sample(range(65536), 16384)
            sc = enum_script(info, vals, rng, '16bit-long-history', 4096, 0, per_value_strict=False)
            sc['model_ops'] = 5000
            out.append(sc)
    return out


def subsets_of(n, rng, limit):
    if n <= 12 and (1 << n) <= limit:
        res = [[i for i in range(n) if b >> i & 1] for b in range(1 << n)]
    else:
        res = [[], list(range(n))] + [[i] for i in range(n)]
        while len(res) < limit:
            res.append([i for i in range(n) if rng.random() < rng.choice([0.1, 0.5, 0.9])])
    # a few in another order and with repetitions: the argument is a list, the property speaks of the set
    for _ in range(min(20, len(res))):
        s = list(rng.choice(res))
        rng.shuffle(s)
        res.append(s + s[:2])
    return res


CONTAINERS = ['list', 'tuple', 'set', 'frozenset', 'gen', 'iter', 'rev', 'dict', 'keys', 'deque', 'kwlist']


def mutation_steps(values, off, rng, nmasks, names, conv=False):
    """Calls of the three helpers with equal masks / equal sets, repeated, the arguments handed over in different ways
    (positional / keyword, int / bool / mask-class member, list / tuple / set / generator ...), and between the calls
    the caller edits the lists it got back (and lists of its own that it passed in).  `values` = the captured members'
    integer values in the captured order."""
    n = len(values)
    steps = []
    cnt = [0]

    def slot():
        cnt[0] += 1
        return 'r%d' % cnt[0]

    def mask_of(idxs):
        return '%x' % sum(1 << (values[i] - off) for i in set(idxs))

    def mixed(idxs):
        t = list(idxs)
        rng.shuffle(t)
        return t + t[:rng.randrange(3)]

    def form_for(mk):
        return rng.choice(['int', 'kw', 'member', 'bool' if mk in ('0', '1') else 'int'])

    subsets = [list(range(n)), [0], []] + ([[n - 1]] if n > 1 else [])
    while len(subsets) < nmasks:
        subsets.append([i for i in range(n) if rng.random() < rng.choice([0.2, 0.5, 0.8])])
    for si, idxs in enumerate(subsets):
        mk = mask_of(idxs)
        for e in (EDITS if si < 2 else rng.sample(EDITS, 2)):
            a, b, c = slot(), slot(), slot()
            steps.append(['tv', mk, 'int', a])
            steps.append(['ed', a, e, rng.randrange(max(n, 1))])                     # the caller edits what it got ...
            steps.append(['tv', mk, form_for(mk), b])                               # ... and asks again
            steps.append(['ts', mk, rng.choice(['int', 'kw', 'member'])])
            steps.append(['tbL', b, rng.choice(['same', 'tuple', 'set', 'gen'])])   # to_bitmask(to_values(mask))
            steps.append(['tbL', a, 'same'])                                        # the edited list is an argument like any other
            if rng.random() < 0.5:
                steps.append(['ed', b, rng.choice(EDITS), rng.randrange(max(n, 1))])
            steps.append(['rt', mixed(idxs), rng.choice(CONTAINERS[:-1]), c])       # set -> mask -> list ...
            steps.append(['ed', c, rng.choice(EDITS), rng.randrange(max(n, 1))])
            steps.append(['rt', mixed(idxs), rng.choice(CONTAINERS[:-1]), slot()])  # ... again after the caller edited the list
        for cont in CONTAINERS:       # the same set through every kind of iterable
            steps.append(['tb', mixed(idxs), rng.choice(['member', 'member', 'int', 'name'] if names else ['member', 'int']), cont])
        a = slot()                    # a list of the caller's own, edited between calls that take it
        steps += [['nb', mixed(idxs), a], ['tbL', a, 'same'], ['ed', a, rng.choice(EDITS), rng.randrange(max(n, 1))], ['tbL', a, 'same'],
                  ['ed', a, rng.choice(EDITS), rng.randrange(max(n, 1))], ['tbL', a, rng.choice(['tuple', 'gen', 'set'])]]
        if conv and int(mk, 16) < 1 << 70:
            # the mask's own integer (and a member's value) is converted leniently by the enumeration and by the mask class,
            # in either order, between equal questions: the answers must not move
            order = rng.choice(['EM', 'ME', 'EEM', 'MME', 'E', 'M'])
            steps += [['tv', mk, 'int', slot()], ['rt', mixed(idxs), 'list', slot()]]
            steps += [['cv', w, int(mk, 16)] for w in order]
            steps += [['cv', rng.choice('EM'), rng.choice(values) + rng.choice([0, 1])]] if values else []
            steps += [['tv', mk, form_for(mk), slot()], ['ts', mk, 'int'], ['rt', mixed(idxs), rng.choice(CONTAINERS[:-1]), slot()],
                      ['tb', mixed(idxs), 'name' if names else 'int', 'list'], ['tb', mixed(idxs), 'member', 'tuple']]
    top = max([v - off for v in values] + [0])
    for _ in range(3):                # masks with bits no member has
        mk = '%x' % rng.getrandbits(top + 1 + rng.choice([0, 3, 9]))
        a = slot()
        steps += [['tv', mk, 'int', a], ['ed', a, rng.choice(EDITS), rng.randrange(max(n, 1))], ['tv', mk, form_for(mk), slot()],
                  ['ts', mk, 'int'], ['ed', a, rng.choice(EDITS), rng.randrange(max(n, 1))], ['ts', mk, 'kw'], ['tv', mk, 'int', slot()]]
    return steps


HISTORY_MODES = ['E-then-M', 'M-then-E', 'each-E-M', 'each-M-E', 'shuffled', 'shuffled-repeated', 'E-only', 'M-only']


def conversion_pool(values, off, attr_values, subsets, rng, limit):
    """Integers that mean something to the enumeration AND to its mask class: every small integer (each is the mask of
    some set of low members, most are not a defined mask entry; many are not a defined enum value either), the masks of
    sets the script is going to ask about (the empty, the single-member and the full set among them), the defined values
    and the defined mask entries themselves and their neighbours."""
    bits = [v - off for v in values if v >= off]
    top = max(bits + [0]) + 1

    def mask_of(idxs):
        return sum(1 << (values[i] - off) for i in set(idxs) if values[i] >= off)
    pool = list(range(min(1 << top, 24)))
    asked = [mask_of(s) for s in subsets]
    pool += [mask_of([i]) for i in range(len(values))] + [mask_of(range(len(values)))]
    pool += rng.sample(asked, min(len(asked), limit))
    pool += list(values) + [v + d for v in values for d in (-1, 1)] + sorted(attr_values)
    seen, out = set(), []
    for v in pool:
        if v not in seen and abs(v) < 1 << 70:
            seen.add(v)
            out.append(v)
    head, tail = out[:min(1 << top, 24)], out[min(1 << top, 24):]
    rng.shuffle(tail)
    return head + tail[:max(0, limit - len(head))]


def history_of(pool, mode, rng):
    """The order in which the two classes get to see the pool's integers with raise_on_unrecognized=False."""
    pool = list(pool)
    rng.shuffle(pool)
    if mode == 'E-then-M':
        return [['E', v] for v in pool] + [['M', v] for v in sorted(pool)]
    if mode == 'M-then-E':
        return [['M', v] for v in pool] + [['E', v] for v in sorted(pool, reverse=True)]
    if mode == 'each-E-M':
        return [[w, v] for v in pool for w in 'EM']
    if mode == 'each-M-E':
        return [[w, v] for v in pool for w in 'ME']
    if mode == 'E-only':
        return [['E', v] for v in pool]
    if mode == 'M-only':
        return [['M', v] for v in pool]
    h = [[w, v] for v in pool for w in 'EM']
    if mode == 'shuffled-repeated':
        h += rng.sample(h, len(h) // 2)
    rng.shuffle(h)
    return h


def with_history(sc, values, off, attr_values, mode, rng, limit):
    pool = conversion_pool(values, off, attr_values, sc['subsets'], rng, limit)
    sc['history'] = history_of(pool, mode, rng)
    sc['history_mode'] = mode
    sc['raw_masks'] = [v for v in pool if v >= 0] + sc['raw_masks'][:20]       # to_values of the plain integer, too
    return sc


def mask_scripts(ctx, infos, masks):
    rng = ctx.rng
    out = []
    for info in infos:
        vs = sorted(info.values)
        n = len(vs)
        big = vs[-1] - vs[0] > 4096
        if vs[-1] - vs[0] > 100000:
            ctx.count('mask_derivation_skipped_span_too_wide')     # 1 << (2**32 - 1) is not a test of anything
            continue
        offs = [(0, True)] if vs[0] >= 0 else []
        offs += [(vs[0], True)] if vs[0] > 0 else []
        offs += [(vs[0] - 3, True), (vs[0] + 1, False)]       # the last one: a member below the offset (ValueError)
        captured = [v for nm, v in info.defn if info.canon[v] == nm]        # list(E): canonical members, definition order
        synthetic = info.q.startswith('synthetic:')
        for j, (off, db) in enumerate(offs):
            limit = (256 if big else 4096 if j == 0 else 512) * (4 if ctx.thorough and not big else 1)
            steps = []
            if not big and off <= vs[0] and (j < 2 or synthetic or ctx.thorough):
                steps = mutation_steps(captured, off, rng, (8 if synthetic else 4) + 4 * ctx.thorough, db)
            out.append({'kind': 'mask', 'enum': info.q, 'offset': off, 'define_bits': db, 'names': db and not big,
                        'pre': [vs[-1] + 1, vs[-1] + 2, vs[0] - 1, 77] if j % 2 else [],
                        'subsets': subsets_of(n, rng, limit), 'steps': steps,
                        'raw_masks': [rng.getrandbits(rng.choice([4, 8, 16, 40])) for _ in range(20)] if not big else [0, 1, 5]})
        # histories: the same helpers after the enumeration and the mask class derived from it (both process-global, both
        # growing a hidden entry per unknown integer) have seen unknown integers - the same integers, in some order
        for x, mode in enumerate(HISTORY_MODES if ctx.thorough else rng.sample(HISTORY_MODES[:6], 1 + synthetic)):
            valid = [o for o, _ in offs if o <= vs[0]]
            off, db = valid[(x + rng.randrange(2)) % len(valid)], rng.random() < 0.75
            sc = {'kind': 'mask', 'enum': info.q, 'offset': off, 'define_bits': db, 'names': db and not big, 'pre': [],
                  'subsets': subsets_of(n, rng, 32 if big else 256 if ctx.thorough else 64), 'raw_masks': [], 'steps': []}
            if not big:
                sc['steps'] = mutation_steps(captured, off, rng, 3 if ctx.thorough else 2, db, conv=True)
            attr_values = [1 << (v - off) for v in captured] if db else []
            sc = with_history(sc, captured, off, attr_values, mode, rng, 16 if big else 40)
            if not db:
                # a mask class without bit definitions is an Enum without members: Python refuses to call it at all
                # (TypeError of the functional API), it has no conversions; only the enumeration sees the integers
                sc['history'] = [h for h in sc['history'] if h[0] == 'E']
                sc['steps'] = [st for st in sc['steps'] if st[:2] != ['cv', 'M']]
            out.append(sc)
    for m in masks:
        n = len(m['enum_values'])
        values = [v for _, v in m['enum_values']]
        out.append({'kind': 'mask', 'package_mask': m['qualname'], 'enum': m['base'], 'names': True, 'pre': [200, 201],
                    'subsets': subsets_of(n, rng, 4096), 'raw_masks': [rng.getrandbits(32) for _ in range(200)] + [0xFFFFFFFF],
                    'steps': mutation_steps(values, m['offset'], rng, 24 if ctx.thorough else 12, True)})
        for mode in HISTORY_MODES:
            sc = {'kind': 'mask', 'package_mask': m['qualname'], 'enum': m['base'], 'names': True, 'pre': [],
                  'subsets': subsets_of(n, rng, 4096 if ctx.thorough else 128), 'raw_masks': [rng.getrandbits(32) for _ in range(20)],
                  'steps': mutation_steps(values, m['offset'], rng, 8 if ctx.thorough else 3, True, conv=True)}
            out.append(with_history(sc, values, m['offset'], [v for _, v in m['attrs']], mode, rng, 96 if ctx.thorough else 48))
    return out


# ---- model requests --------------------------------------------------------------------------------------------------

def model_op(op):
    if op[0] in 'MDI':
        return 's' + op[1:]          # a member is an int: strict conversion of its value
    if op[0] == 'L':
        return 'c' + op[1:]
    if op[0] == 'x':
        return 'l'                   # another enumeration's history does not touch this one
    if op[0] in 'aq':
        return 'c' + op.split(':')[1]
    if op[0] == 'A':
        return 's' + op.split(':')[1]
    if op[0] in 'dG':
        return 's' + op[1:]
    if op[0] in 'KY':
        return 'l'                   # making an adapter does not touch the enumeration
    if op[0] in 'PF':
        _, _, form, _, v = adapter_op(op)
        return ('s%d' if ADAPTER_FORMS[form] else 'c%d') % v      # by the flag of the adapter that is asked, nothing else
    return op


MODEL_OPS = 12000   # the list-based model is quadratic in the number of hidden members: longer scripts are compared on a prefix


def model_ops(script):
    return script.get('model_ops', MODEL_OPS)


def model_line(info, script):
    return 'dynenum %s %s' % (info.defs(), ';'.join(model_op(o) for o in script['ops'][:model_ops(script)]) or '-')


# ---- oracle: the property statement on the answers of the real classes -------------------------------------------------

MEMBER = re.compile(r'^(.*)=(-?\d+):([UR])(.*)$')


def judge_enum(ctx, info, script, toks):
    """Returns a list of (signature, description, op index)."""
    bad = []
    lenient_seen = set()
    conversions = 0
    baseline = {}

    def hidden(name):
        return name.startswith(PREFIX) or name.upper().startswith(PREFIX)

    def add(sig, desc, i):
        wire = script['ops'][i].partition(':')[0].split('.')[-1]
        made = [o for o in script['ops'][:i] if o[0] == 'K' and o.endswith('.' + wire)]     # the adapters of the same pair
        bad.append(('C17/' + sig, '%s: %s%s (operation %d `%s` of script %s, after %d conversions%s) -> %s'
                    % (info.q, how, desc, i, script['ops'][i], script['label'], conversions,
                       ' and the creation, in this order, of the adapters %s' % ' '.join(made) if made and how else '', toks[i][:120]), i))

    how = ''
    for i, (op, t) in enumerate(zip(script['ops'], toks)):
        k = op[0]
        how = ''
        if '~' in t:
            add('member-identity-changed', 'a member equal to, but not the same object as, the one returned earlier', i)
            continue
        if '?' in t:
            add('result-not-a-member', 'result is not a member of the class', i)
            continue
        if k in 'PF':
            _, _, form, wire, v = adapter_op(op)
            k = 'pP'[ADAPTER_FORMS[form]]       # p = asked of a permissive adapter, P = of a strict one
            how = '%s for (%s, E) made as %s, ' % ('EnumAdapter' if form[0] == 'e' else 'AutoEnum', wire, form)
        if k in 'caqLp':
            v = v if k == 'p' else int(op.split(':')[1]) if k in 'aq' else int(op[1:])
            conversions += 1
            site = {'c': 'call-lenient', 'a': 'adapter-lenient', 'q': 'call-lenient-numpy', 'L': 'call-lenient-on-member-object',
                    'p': 'adapter-lenient'}[k]
            m = MEMBER.match(t)
            if not m:
                add(site + '/raises', 'lenient conversion of %d raised' % v, i)
            elif int(m.group(2)) != v:
                add(site + '/value-not-preserved', 'lenient conversion of %d gives a member with value %s' % (v, m.group(2)), i)
            elif v in info.values and t != info.member(v):
                add(site + '/defined-value-not-its-member', 'lenient conversion of the defined value %d is not %s' % (v, info.member(v)), i)
            elif v not in info.values and m.group(3) != 'U':
                add(site + '/unknown-not-flagged', 'lenient conversion of the undefined value %d is not flagged unrecognized' % v, i)
            lenient_seen.add(v)
        elif k in 'sAdGMDIP':
            v = v if k == 'P' else int(op.split(':')[1]) if k == 'A' else int(op[1:])
            site = {'s': 'call-strict', 'A': 'adapter-strict', 'd': 'call-default', 'G': 'getitem-int', 'P': 'adapter-strict',
                    'M': 'call-strict-on-member-object', 'D': 'call-default-on-member-object', 'I': 'getitem-member-object'}[k]
            if k in 'MDI':
                lenient_seen.add(v)
            if v in info.values:
                if t != info.member(v):
                    add(site + '/defined-value-not-its-member', 'strict conversion of the defined value %d is not %s' % (v, info.member(v)), i)
            elif not t.startswith('!'):
                add(site + ('/accepts-unknown-seen-before' if v in lenient_seen else '/accepts-unknown'),
                    'strict conversion of the undefined value %d is not refused' % v, i)
        elif k in 'KY':
            if 'l' in baseline and t != baseline['l']:
                add('len/changed-after-adapter-creation', 'len(E) was %s on the fresh class and is %s' % (baseline['l'], t), i)
        elif k == 'x':
            conversions += 1         # another enumeration saw an unknown value; len(E) is reported
            if 'l' in baseline and t != baseline['l']:
                add('len/changed-after-foreign-conversions', 'len(E) was %s on the fresh class and is %s' % (baseline['l'], t), i)
        elif k in 'iljrwWH' or (k in 'gn' and not hidden(op[1:])):
            # (1) the clause stated outright: the answer must be what the DEFINITION says (info = the translator's table),
            #     in every state;  (2) history independence: the answer must be the one the fresh class gave to the same
            #     question in this script (before any conversion).  An answer that moved is reported as (2) - the
            #     signatures older replays carry -, an answer that is wrong from the start (or wrong and never asked on the
            #     fresh class) as (1).
            name = op[1:]
            site = {'i': 'iter', 'l': 'len', 'g': 'getitem', 'n': 'call-by-name', 'j': 'len', 'r': 'reversed', 'w': 'contains',
                    'W': 'contains', 'H': 'contains'}[k]
            direct = None
            if k == 'H':
                conversions += 1
                lenient_seen.add(int(name))
            if k in 'ir':
                want = info.iter if k == 'i' else info.reversed
                what = 'list(E)' if k == 'i' else 'list(reversed(E))'
                got = [] if t == '-' else t.split(',')
                if t.startswith('!'):
                    direct = ('raises', '%s raised' % what)
                elif any(x.endswith(':U') for x in got):
                    direct = ('yields-hidden-member', '%s yields the hidden member %s' % (what, [x for x in got if x.endswith(':U')][0]))
                elif len(set(got)) != len(got):
                    direct = ('member-repeated', '%s yields %s more than once' % (what, [x for x in got if got.count(x) > 1][0]))
                elif t != want:
                    direct = ('not-the-defined-members-in-%s-order' % ('declaration' if k == 'i' else 'reverse-declaration'),
                              '%s is not the %d defined members (first name of every distinct value) in %s order: want %s'
                              % (what, info.len, 'declaration' if k == 'i' else 'reverse declaration', want[:200]))
            elif k == 'l':
                if t != str(info.len):
                    direct = ('not-the-number-of-defined-members', 'len(E) is not %d, the number of distinct defined values (%d names%s)'
                              % (info.len, len(info.defn), ''.join('; %s is an alias of %s' % a for a in info.aliases[:4])))
            elif k == 'j':
                a, _, b = t.partition('/')
                if t.startswith('!'):
                    direct = ('raises', 'len(E) / list(E) raised')
                elif a != b:
                    direct = ('differs-from-iteration', 'len(E) is %s while list(E), taken in the same state, has %s members '
                              '(the definition has %d distinct values under %d names%s)'
                              % (a, b, info.len, len(info.defn), ''.join('; %s is an alias of %s' % x for x in info.aliases[:4])))
                elif a != str(info.len):
                    direct = ('not-the-number-of-defined-members', 'len(E) and len(list(E)) are %s, the definition has %d distinct values'
                              % (a, info.len))
            elif k in 'wH':
                v = int(name)
                subject = '%d in E' % v if k == 'w' else 'E(%d, raise_on_unrecognized=False) in E' % v
                if t.startswith('!'):
                    if k == 'H':
                        direct = ('raises', '`%s` raised' % subject)
                    else:
                        ctx.count('contains_int_not_supported')      # judged by history independence only
                elif v in info.values and t != 'T':
                    direct = ('defined-%s-reported-absent' % ('value' if k == 'w' else 'member'), '`%s` is false for a defined value' % subject)
                elif v not in info.values and t != 'F':
                    direct = (('undefined-value-reported-present' if k == 'w' else 'hidden-member-reported-present') +
                              ('-after-conversion' if v in lenient_seen else ''),
                              '`%s` is true for the undefined value %d%s' % (subject, v, ' (converted leniently before)' if v in lenient_seen else ''))
            elif k == 'W':
                if (name in info.byname or name.upper() in info.byname) and t != 'T':
                    direct = ('defined-member-reported-absent', '`E[%r] in E` is not true for a defined name' % name)
            elif name in info.byname or name.upper() in info.byname:
                want = info.member(info.byname[name] if name in info.byname else info.byname[name.upper()])
                # (on the fresh class only names spelled as in the definition are judged: the upper-case fallback of
                #  `E['name']` is a convenience of the implementation, not part of the definition)
                if t != want and (conversions or name in info.byname):
                    alias = dict(info.aliases).get(name if name in info.byname else name.upper())
                    direct = ('defined-name-changed' if conversions else 'defined-name-not-its-member',
                              'lookup of the defined name %r%s is not %s' % (name, ' (an alias of %s)' % alias if alias else '', want))
            elif not t.startswith('!') and conversions:
                direct = ('absent-name-resolves-after-conversions', 'lookup of the absent name %r succeeds' % name)
            if conversions == 0:
                baseline.setdefault(op, t)
            if op in baseline and t != baseline[op] and k != 'H':
                what = {'i': 'list(E)', 'l': 'len(E)', 'j': 'len(E)/len(list(E))', 'r': 'list(reversed(E))', 'w': '`%s in E`' % name,
                        'W': '`E[%r] in E`' % name}.get(k, 'lookup of %s name %r' % ('the defined' if name in info.byname else 'the', name))
                feature = 'changed-after-conversions' if k in 'iljrwW' else (
                    'defined-name-changed' if name in info.byname or name.upper() in info.byname else
                    ('absent-name-resolves-after-conversions' if baseline[op].startswith('!') else 'name-lookup-changed'))
                add(site + '/' + feature, '%s was %s on the fresh class and is %s' % (what, baseline[op][:200], t[:200]), i)
            elif direct:
                add(site + '/' + direct[0], direct[1], i)
        elif k in 'gn':
            # a hidden name: `E['_U_3']` resolves once 3 has been converted leniently.  Not a defined name and not an
            # ordinary absent one: recorded, and judged by the correspondence with the model only (theorem
            # C17_lookup_changes_only_hidden says this is the only kind of lookup that can move).
            if not t.startswith('!'):
                ctx.count('hidden_name_lookup_resolves' if k == 'g' else 'hidden_name_strict_call_accepted')
            elif k == 'g':
                ctx.count('hidden_name_lookup_keyerror')
    return bad


def judge_conv(tag, who, v, ans, e_values, m_values, before):
    """One lenient conversion of a mask script's history (the enumeration 'E' or the mask class 'M', both IntEnum classes of
    the package): the first clause of the property.  Returns (signature, text) or None."""
    what = '%s(%d, raise_on_unrecognized=False)' % ('the enumeration' if who == 'E' else 'the mask class', v)
    defined = v in e_values if who == 'E' else str(v) in m_values
    site = 'C17/call-lenient/' if who == 'E' else 'C17/mask-class-call-lenient/'
    m = MEMBER.match(ans)
    if ans.startswith('!') or not m:
        return site + 'raises', '%s: %s raised / gave %s after %s' % (tag, what, ans[:80], before[-6:])
    if '?' in m.group(4):
        return site.replace('call-lenient/', '') + 'result-not-a-member', '%s: %s gave %s' % (tag, what, ans[:80])
    if '~' in m.group(4):
        return site.replace('call-lenient/', '') + 'member-identity-changed', ('%s: %s gave a member equal to, but not the same object as, '
                                                                          'the one returned earlier: %s' % (tag, what, ans[:80]))
    if int(m.group(2)) != v:
        return site + 'value-not-preserved', '%s: %s gave a member with value %s' % (tag, what, m.group(2))
    if defined and m.group(3) != 'R':
        return site + 'defined-value-flagged-unrecognized', '%s: %s is a defined value and came back as %s' % (tag, what, ans[:80])
    if not defined and m.group(3) != 'U':
        return site + 'unknown-not-flagged', '%s: %s is not a defined value and came back as %s' % (tag, what, ans[:80])
    return None


def judge_steps(script, res, tag):
    """The steps of a mask script.  Returns (violations [(signature, text, step index)], model requests
    [(driver line, what the real class answered, step index, what)]).  Oracle: (1) the property's round trip - the list
    that comes back for the mask of a set is that set; (2) history independence - a call gives what the same call
    (equal mask / equal set) gave the first time it was made in this script, whatever the caller has done since to the
    objects it got back."""
    bad, req = [], []
    off = res['offset']
    members = [] if res['enum_values'] == '-' else res['enum_values'].split(',')
    names = [MEMBER.match(m).group(1) for m in members]
    vals = [int(MEMBER.match(m).group(2)) for m in members]
    plain = ','.join('%s=%d' % (nm, v) for nm, v in zip(names, vals)) or '-'
    ok_offset = all(v >= off for v in vals)
    first = {}
    edits = []
    m_values = set(a.rpartition('=')[2] for a in res['attrs'].split(',')) if res['attrs'] != '-' else set()    # as text: may be huge
    convs = []

    def items_of(content):
        if content == '-':
            return []
        out = []
        for t in content.split(','):
            m = MEMBER.match(t)
            if not m or m.group(4):
                return None
            out.append(int(m.group(2)))
        return out

    def same_question(key, what, ans, j):
        if key not in first:
            first[key] = (ans, j)
        elif first[key][0] != ans:
            between = [script['steps'][e] for e in edits if first[key][1] < e < j]
            cvs = [st[1:] for st in script['steps'][first[key][1]:j] if st[0] == 'cv']
            bad.append(('C17/mask/%s-differs-between-equal-calls' % what.split('(')[0],
                        '%s: %s = %r at step %d, but the equal call at step %d gave %r; in between the caller edited lists it had '
                        'got back or passed in: %s%s' % (tag, what, ans[:160].lstrip('='), j, first[key][1], first[key][0][:160].lstrip('='),
                                                       between[:6], '; and these integers were converted leniently by the enumeration '
                                                       '(E) / the mask class (M): %s' % cvs[:8] if cvs else ''), j))

    for j, (st, ans) in enumerate(zip(script['steps'], res['steps'])):
        k = st[0]
        if ans in ('!bad-ref', '!bad-op'):
            continue
        if k == 'ed':
            edits.append(j)
        elif k == 'cv':
            v = judge_conv(tag, st[1], st[2], ans, set(vals), m_values, convs)
            convs.append(st[1:])
            if v:
                bad.append((v[0], v[1] + ' (step %d)' % j, j))
        elif k == 'tv':
            req.append(('masktv %d %s %s' % (off, plain, st[1]), ans, j, 'to_values(0x%s)' % st[1]))
            same_question(('tv', st[1]), 'to_values(0x%s)' % st[1], ans, j)
        elif k == 'ts':
            req.append(('maskts %d %s %s' % (off, plain, st[1]), ans, j, 'to_string(0x%s)' % st[1]))
            same_question(('ts', st[1]), 'to_string(0x%s)' % st[1], ans, j)
        elif k == 'tb':
            _, idxs, by, cont = st
            if by == 'name':
                items = ','.join('@' + (names[i].lower() if x % 2 else names[i]) for x, i in enumerate(idxs)) or '-'
                req.append(('masktb %d %s %s' % (off, res['attrs'], items), ans, j, 'to_bitmask(names)'))
                same_question(('tbn', frozenset(idxs)), 'to_bitmask(%s of names %s)' % (cont, sorted(set(idxs))), ans, j)
            else:
                items = ','.join(str(vals[i]) for i in idxs) or '-'
                req.append(('masktb %d - %s' % (off, items), ans, j, 'to_bitmask(%s)' % by))
                same_question(('tb', frozenset(vals[i] for i in idxs)), 'to_bitmask(%s of %s)' % (cont, sorted(set(vals[i] for i in idxs))), ans, j)
        elif k == 'tbL':
            arg, _, got = ans.rpartition('|')
            its = items_of(arg)
            if its is None or any(x not in vals for x in its):
                # (the caller's edits only ever put captured members into a list: anything else came from a helper)
                bad.append(('C17/mask/result-not-a-list-of-members', '%s: the list in slot %s holds %s, the captured members are %s'
                            % (tag, st[1], arg[:120], plain[:200]), j))
                continue
            req.append(('masktb %d - %s' % (off, ','.join(map(str, its)) or '-'), got, j, 'to_bitmask(list in slot %s)' % st[1]))
            same_question(('tb', frozenset(its)), 'to_bitmask(%s of %s)' % (st[2], sorted(set(its))), got, j)
        elif k == 'rt':
            _, idxs, cont, _ = st
            mask, _, back = ans.partition('|')
            want = ','.join(members[i] for i in range(len(members)) if i in set(idxs)) or '-'
            if ok_offset and not ans.startswith('!') and back != want:
                hist = [list(h) for h in script.get('history', [])] + convs
                bad.append(('C17/mask/roundtrip-differs' + ('-after-caller-edits' if edits else ''),
                            '%s: to_values(to_bitmask(S)) = [%s] for S = [%s] (mask 0x%s) at step %d; before it the caller edited '
                            'lists it had got back: %s%s' % (tag, back[:160], want[:160], mask[:40], j, [script['steps'][e] for e in edits][-4:],
                                                           '; lenient conversions before it (E = by the enumeration, M = by the mask '
                                                           'class): %s' % hist[-8:] if hist else ''), j))
            items = ','.join(str(vals[i]) for i in idxs) or '-'
            if ans.startswith('!'):
                req.append(('masktb %d - %s' % (off, items), ans, j, 'to_bitmask(S) of a round trip'))
            else:
                req.append(('masktb %d - %s' % (off, items), mask, j, 'to_bitmask(S) of a round trip'))
                if not mask.startswith(('!', '?')):
                    req.append(('masktv %d %s %s' % (off, plain, mask), back, j, 'to_values(to_bitmask(S))'))
            same_question(('rt', frozenset(idxs)), 'to_values(to_bitmask(%s of members %s))' % (cont, sorted(set(idxs))), ans, j)
    return bad, req


def shrink_steps(script, j, sig):
    """Fewer steps that still end in the same violation: the steps up to the failing one, dropped one at a time."""
    base = dict(script, subsets=[], raw_masks=[])
    steps = script['steps'][:j + 1]

    def fails(cand):
        r = run_forked([dict(base, steps=cand)], 1)[0].get('ok')
        if not r or r.get('decorate') != 'ok' or 'steps' not in r:
            return False
        tag = script.get('package_mask') or '%s offset=%d' % (script['enum'], script['offset'])
        return any(s == sig and x == len(cand) - 1 for s, _, x in judge_steps(dict(base, steps=cand), r, tag)[0])
    try:
        if fails(steps):
            for keep in (12, 6, 3):          # usually the last few steps are enough
                if len(steps) > keep and fails(steps[-keep:]):
                    steps = steps[-keep:]
            i = len(steps) - 2
            while i >= 0:
                cand = steps[:i] + steps[i + 1:]
                if fails(cand):
                    steps = cand
                i -= 1
    except fv.InfraError:
        pass
    return dict(base, steps=steps)


def judge_mask(ctx, script, res, lines, pend):
    """Oracle for one mask script and the model requests for it."""
    bad = []
    tag = script.get('package_mask') or '%s offset=%d' % (script['enum'], script['offset'])
    if res['decorate'] == 'pre':
        bad.append(('C17/call-lenient/raises', '%s: lenient conversion `%s` raised %s after %s'
                    % (script['enum'], res['pre_ops'][-1], res['pre_error'], res['pre_ops'][:-1]),
                    {'script': {'kind': 'enum', 'enum': script['enum'], 'ops': res['pre_ops'], 'label': 'mask-pre', 'oracle': True}}))
        return bad
    if res['decorate'] != 'ok':
        bad.append(('C17/mask/decorator-raises', '%s: enum_bitmask raised %s' % (tag, res['decorate']), None))
        return bad
    off = res['offset']
    members = [] if res['enum_values'] == '-' else res['enum_values'].split(',')
    vals = [int(MEMBER.match(m).group(2)) for m in members]
    ok_offset = all(v >= off for v in vals)
    plain = ','.join('%s=%d' % (MEMBER.match(m).group(1), v) for m, v in zip(members, vals)) or '-'
    history = [list(h) for h in script.get('history', [])]
    after = ''
    if history:
        m_values = set(a.rpartition('=')[2] for a in res['attrs'].split(',')) if res['attrs'] != '-' else set()    # as text: may be huge
        for j, ((who, v), ans) in enumerate(zip(history, res.get('history', []))):
            r = judge_conv(tag, who, v, ans, set(vals), m_values, history[:j])
            if r:
                bad.append((r[0], r[1], {'script': dict(script, subsets=[], raw_masks=[], steps=[], history=history[:j + 1])}))
        ctx.count('mask_scripts_with_unknown_value_history')
        ctx.count('mask_history_conversions_by_enum', sum(1 for w, _ in history if w == 'E'))
        ctx.count('mask_history_conversions_by_mask_class', sum(1 for w, _ in history if w == 'M'))
        ctx.count('mask_history_values_seen_by_both_classes',
                  len(set(v for w, v in history if w == 'E') & set(v for w, v in history if w == 'M')))
        after = ('; before it these integers had been converted with raise_on_unrecognized=False by the enumeration (E) / the mask '
                 'class (M): %s%s' % (history[:12], ' ...' if len(history) > 12 else ''))
    for idxs, row in zip(script['subsets'], res['rows']):
        want = ','.join(members[i] for i in range(len(members)) if i in set(idxs)) or '-'
        rp = {'script': dict(script, subsets=[idxs], raw_masks=[], steps=[]), 'subset_members': [members[i] for i in idxs]}
        if ok_offset:
            if row['mask'].startswith('!'):
                bad.append(('C17/mask/to_bitmask-raises', '%s: to_bitmask(%s) raised %s' % (tag, rp['subset_members'], row['mask']), rp))
            elif row.get('back') != want:
                bad.append(('C17/mask/roundtrip-differs', '%s: to_values(to_bitmask(S)) = [%s] for S = [%s] (mask 0x%s)%s'
                            % (tag, row.get('back'), want, row['mask'][:40], after), rp))
            if script.get('names') and 'bymask' in row and not row['mask'].startswith('!'):
                if row['bymask'].startswith('!'):
                    # e.g. a base enum with mixed-case names: to_bitmask upper-cases the string.  The property speaks of
                    # members; the string form is compared with the model only.
                    ctx.count('mask_by_name_raises')
                elif row.get('byback') != want:
                    bad.append(('C17/mask/roundtrip-by-name-differs', '%s: to_values(to_bitmask(names of S)) = [%s] for S = [%s]%s'
                                % (tag, row.get('byback', row['bymask']), want, after), rp))
        items = ','.join(str(vals[i]) for i in idxs) or '-'
        lines.append('masktb %d - %s' % (off, items))
        pend.append(('tb', row['mask'], rp, tag))
        if script.get('names') and 'bymask' in row:
            nm = ','.join('@' + (MEMBER.match(members[i]).group(1).lower() if j % 2 else MEMBER.match(members[i]).group(1))
                          for j, i in enumerate(idxs)) or '-'
            lines.append('masktb %d %s %s' % (off, res['attrs'], nm))
            pend.append(('tb-names', row['bymask'], rp, tag))
        if not row['mask'].startswith('!'):
            lines.append('masktv %d %s %s' % (off, plain, row['mask']))
            pend.append(('tv', row['back'], rp, tag))
        ctx.case('%s|%s' % (tag, items), nontrivial=bool(idxs))
        ctx.count('mask_subsets')
    for mask, got in zip(script.get('raw_masks', []), res['tv']):
        lines.append('masktv %d %s %x' % (off, plain, mask))
        pend.append(('tv-raw', got, {'script': dict(script, subsets=[], raw_masks=[mask], steps=[])}, tag))
    if script.get('steps'):
        sbad, req = judge_steps(script, res, tag)
        for sig, desc, j in sbad:
            bad.append((sig, desc, ('steps', j)))
        for line, got, j, what in req:
            lines.append(line)
            pend.append(('step %d %s %s' % (j, script['steps'][j], what), got,
                         {'script': dict(script, subsets=[], raw_masks=[], steps=script['steps'][:j + 1])}, tag))
        ctx.count('mask_steps', len(script['steps']))
        ctx.count('mask_steps_editing_a_result', sum(1 for st in script['steps'] if st[0] == 'ed'))
        ctx.case('%s|steps|%s' % (tag, json.dumps(script['steps'])), nontrivial=True)
    return bad


# ---- the run ---------------------------------------------------------------------------------------------------------

def translate(ctx):
    """Stage A."""
    try:
        data = c17_extract.extract(fv.REPO)
    except c17_extract.ExtractError as e:
        ctx.proof_failures.append('translator: %s' % e)
        ctx.notes.append('stage A failed: %s' % e)
        raise
    path = os.path.join(fv.LEAN, 'FeVerif', 'Generated', 'PyEnums.lean')
    with fv.LeanLock():
        changed = c17_extract.write_if_changed(path, c17_extract.render(data))
    ctx.cov['generated_table'] = {'file': 'lean/FeVerif/Generated/PyEnums.lean', 'rewritten': changed, 'enums': len(data['enums']),
                                  'mask_classes': len(data['masks']), 'memberless_classes_skipped': data['skipped'],
                                  'modules_not_importable': data['import_failures']}
    return data


def run_scripts(ctx, infos, scripts):
    by = {i.q: i for i in infos}
    # the expensive scripts first (a lenient conversion costs O(members)): the workers finish together
    scripts = sorted(scripts, key=lambda sc: -(sum(1 for o in sc['ops'] if o[0] in 'caqH') if sc['kind'] == 'enum' else
                                               (len(sc.get('subsets', [])) + len(sc.get('steps', []))) // 8))
    t0 = time.time()
    results = run_forked(scripts, nproc=min(12, os.cpu_count() or 6) if ctx.thorough else 4, timeout=5400 if ctx.thorough else 600)
    timing = ctx.cov.setdefault('timing_s', {})
    timing['real_classes'] = round(timing.get('real_classes', 0) + time.time() - t0, 1)
    lines, pend = [], []
    reported = set(sig for sig, _, _ in ctx.violations)
    for sc, r in zip(scripts, results):
        if 'infra' in r:
            raise fv.InfraError('worker failed on %s: %s' % (sc.get('enum'), r['infra']))
        r = r['ok']
        if sc['kind'] == 'enum':
            info = by[sc['enum']]
            lines.append(model_line(info, sc))
            pend.append(('enum', r, sc, info))
            ctx.count('enum_scripts_' + sc['label'])
            ctx.count('enum_operations', len(sc['ops']))
            for o in sc['ops']:
                if o[0] in 'jrwWH':
                    ctx.count({'j': 'ops_len_vs_iteration', 'r': 'ops_reversed', 'w': 'ops_value_in_enum', 'W': 'ops_member_in_enum',
                               'H': 'ops_hidden_member_in_enum'}[o[0]])
            if info.aliases:
                ctx.count('enum_scripts_on_classes_with_alias_names')
            if sc['oracle']:
                for sig, desc, i in judge_enum(ctx, info, sc, r):
                    ctx.count('violations_seen')
                    if sig not in reported:         # one (shrunk) replay per signature
                        reported.add(sig)
                        ctx.violation(sig, desc, {'script': shrink_enum(ctx, info, sc, i, sig)})
        else:
            for sig, desc, rp in judge_mask(ctx, sc, r, lines, pend):
                ctx.count('violations_seen')
                if sig not in reported:
                    reported.add(sig)
                    if isinstance(rp, tuple):
                        rp = {'script': shrink_steps(sc, rp[1], sig)}
                    if rp is not None and rp['script'].get('history'):
                        rp = dict(rp, script=shrink_history(rp['script'], sig))
                    ctx.violation(sig, desc, rp if rp is not None else {'script': dict(sc, subsets=sc['subsets'][:1], steps=[])})
    t0 = time.time()
    outs = ctx.driver(lines)
    timing['model'] = round(timing.get('model', 0) + time.time() - t0, 1)
    for (kind, got, a, b), mo in zip(pend, outs):
        ctx.cov['traces_validated_against_impl'] += 1
        if kind == 'enum':
            sc, info = a, b
            impl = ';'.join(got[:model_ops(sc)])
            if len(got) > model_ops(sc):
                ctx.count('operations_beyond_model_prefix_oracle_only', len(got) - model_ops(sc))
            ctx.case('%s|%s' % (info.q, ';'.join(sc['ops'])), nontrivial=any(o[0] in 'caqNPFH' for o in sc['ops']))
            if impl != mo:
                it, mt = impl.split(';'), mo.split(';')
                j = next((x for x in range(min(len(it), len(mt))) if it[x] != mt[x]), min(len(it), len(mt)))
                ctx.disagree('%s (%s): operation %d `%s`: real class %s, model %s' %
                             (info.q, sc['label'], j, sc['ops'][j] if j < len(sc['ops']) else '?',
                              it[j][:80] if j < len(it) else '-', mt[j][:80] if j < len(mt) else '-'),
                             {'script': shrink_enum(ctx, info, sc, min(j, len(sc['ops']) - 1))
                              if len(ctx.disagreements) < 3 else dict(sc, ops=sc['ops'][:j + 1][-400:])})
            elif len(ctx.cov['samples']) < 4 and sc['label'] in ('wide-boundary-random', 'string-path'):
                ctx.sample({'enum': info.q, 'ops': sc['ops'][-12:], 'real_and_model': got[-12:]})
        else:
            if got != mo:
                ctx.disagree('%s %s: real %s, model %s' % (b, kind, str(got)[:80], mo[:80]), a)


class _NoCount:
    def count(self, *a, **k):
        pass

    def case(self, *a, **k):
        pass


def shrink_history(script, sig):
    """Fewer lenient conversions before the helpers are asked, the same violation: halves, then one at a time."""
    hist = [list(h) for h in script.get('history', [])]

    def fails(cand):
        sc = dict(script, history=cand)
        r = run_forked([sc], 1)[0].get('ok')
        if not r or r.get('decorate') != 'ok':
            return False
        return any(s == sig for s, _, _ in judge_mask(_NoCount(), sc, r, [], []))
    try:
        if not hist or not fails(hist):
            return script
        if fails([]):
            return dict(script, history=[])
        for _ in range(16):
            h = len(hist) // 2
            if h and fails(hist[h:]):
                hist = hist[h:]
            elif h and fails(hist[:h]):
                hist = hist[:h]
            else:
                break
        chunk = max(1, len(hist) // 4)        # (the two conversions that matter may sit in different halves)
        while True:
            i = len(hist) - chunk
            while i > -chunk:
                cand = hist[:max(i, 0)] + hist[i + chunk:]
                if len(cand) < len(hist) and fails(cand):
                    hist = cand
                i -= chunk
            if chunk == 1:
                break
            chunk = max(1, chunk // 2)
    except fv.InfraError:
        pass
    return dict(script, history=hist)


def shrink_enum(ctx, info, sc, i, sig=None):
    """A short script that still fails in the same way at its last operation: [the same question on the fresh class]
    + the adapter creations + some of the lenient conversions before it (halved greedily, then one by one, then the
    adapter creations one by one) + the offending operation.  `sig` = the oracle signature to preserve, or None to
    preserve a disagreement with the model."""
    ops = sc['ops'][:i + 1]
    last = ops[-1]
    head = [last] if last[0] in 'ilgnjrwW' else []      # the same question on the fresh class (dropped if the signature is
                                                         # that of an answer wrong in itself, not of one that moved)
    keep = [(j, o) for j, o in enumerate(ops[:-1]) if o[0] in 'caqNPFH']
    made = [(j, o) for j, o in enumerate(ops[:-1]) if o[0] in 'KY']

    def build(made, body):
        return head + [o for _, o in sorted(made + body)] + [last]

    def fails(made, body):
        cand = dict(sc, ops=build(made, body))
        r = run_forked([cand], 1)[0].get('ok')
        if not r:
            return False
        if sig is not None:
            return any(s == sig and j == len(cand['ops']) - 1 for s, _, j in judge_enum(_NoCount(), info, cand, r))
        return ctx.driver([model_line(info, cand)])[0].split(';')[-1] != r[-1]
    try:
        if head and not fails(made, keep):
            head = []
        if fails(made, keep):
            cur = keep
            for _ in range(20):
                if not cur:
                    break
                if fails(made, cur[len(cur) // 2:]):
                    cur = cur[len(cur) // 2:]
                elif fails(made, cur[:len(cur) // 2]):
                    cur = cur[:len(cur) // 2]
                elif len(cur) > 2 and fails(made, cur[:-1]):
                    cur = cur[:-1]
                else:
                    break
            if len(cur) <= 24:
                for x in list(cur):
                    rest = [y for y in cur if y is not x]
                    if fails(made, rest):
                        cur = rest
            # an adapter nobody asks any more can only matter by having been made: try without each (with what asks it)
            for x in list(made):
                ident = x[1][1:].split('.')[0]
                rest_m = [y for y in made if y is not x]
                rest_c = [y for y in cur if not (y[1][0] in 'PF' and y[1][1:].split('.')[0] == ident)]
                if not (last[0] in 'PF' and last[1:].split('.')[0] == ident) and fails(rest_m, rest_c):
                    made, cur = rest_m, rest_c
            return dict(sc, ops=build(made, cur), label=sc['label'] + '/shrunk')
    except fv.InfraError:
        pass
    return dict(sc, ops=ops)


def run(ctx, data):
    infos = [Info(e) for e in data['enums']]
    # synthetic enumerations (declared in non-ascending order, with gaps, negative values): the helpers and the
    # metaclass are generic, the property is not only about the classes the package happens to define
    syn = synthetic_infos()
    uncovered = set(ALL_FORM_PAIRS)
    scripts = enum_scripts(ctx, infos) + mask_scripts(ctx, infos + syn, data['masks'])
    for si in syn:
        scripts.append(member_and_foreign_script(si, ctx.rng.sample(infos, 2), ctx.rng))
        scripts.append(enum_script(si, list(range(-8, 48)), ctx.rng, 'synthetic', 16, 0))
        for variant in (0, 1, 1):          # pairs nobody made an adapter for before: every creation order is possible
            scripts.append(adapter_script(ctx, si, ctx.rng, variant, uncovered, infos))
    infos = infos + syn
    ctx.count('enum_classes', len(infos))
    ctx.count('enum_classes_with_alias_names', sum(1 for x in infos if x.aliases))
    run_scripts(ctx, infos, scripts)


def search(ctx):
    """Stage E: the same oracle with another seed's worth of scripts."""
    ctx.notes.append('stage E: widened search')
    data = c17_extract.extract(fv.REPO)
    run(ctx, data)


def check(ctx):
    ctx.cov['rule'] = (
        'per IntEnum subclass of the package (table regenerated from the working tree), each script in a freshly forked process: '
        'all integers 0..255 ascending, descending and shuffled; boundary values of the 8/16/32/64-bit signed and unsigned ranges, '
        'neighbours of every defined value and random 64-bit integers, shuffled; for classes not known to travel in an 8-bit field '
        'a sample of the 16-bit range (with its ends and the neighbours of defined values) in three orders (thorough: all 65536 '
        'values for the 16-bit classes, in 16 histories of 4096 values each, each value converted leniently and strictly); per value: lenient conversion (directly or through EnumAdapter/AutoEnum.parse) and strict '
        'conversion before and after; at checkpoints list(E), len(E), E[name] for every defined name, absent names, strict conversion '
        'of the values seen so far, hidden-name lookups; the members / iteration / length clause judged outright against the '
        'definition table at every checkpoint (list(E) = first name of every distinct value in declaration order, each once, no '
        'hidden member; len(E) == len(list(E)) taken in the same state == number of distinct values, not of names; '
        'list(reversed(E)); E[name] for every name, alias names included; `v in E` for defined, undefined-unseen and '
        'undefined-seen values, `E[name] in E`, the hidden member `in E`) on the fresh class and after every history, for the '
        'package classes (one of which has an alias name) and for synthetic classes with two and three names for one value, '
        'aliases before / after other members, of the zero value, of negative values; mask helpers: all subsets of the captured members (up to 2^12, sampled '
        'beyond) for several offsets, by member and by name, plus random masks for to_values.  Adapters: per class two scripts '
        'that make several adapter objects for the same (wire type, enumeration) pair - 8 ways of making one (AutoEnum / '
        'EnumAdapter, flag omitted / keyword / positional, strict / permissive), 16 wire types (quick: Int8ul/16ul/32ul + 5 others), '
        'creation orders chosen so that all 64 ordered pairs (made earlier, made later) keep being covered, for the pairs the '
        'package itself made fields for at import a strict one first - and after each creation ask every adapter made so far '
        '(directly and as a Struct field) for a new unknown value, a defined value and an unknown value seen through another '
        'adapter, the whole 8-bit range through the last strict and permissive one; each answer judged by the flag of the adapter '
        'asked; adapters for other enumerations on the same wire type are made in between.  Mask helpers under mutation: scripts of '
        'to_values / to_string / to_bitmask / round-trip calls with equal masks and equal sets (int / bool / mask member / keyword; '
        'list, tuple, set, frozenset, generator, iterator, reversed, dict, keys view, deque; members, plain ints, names) in which the '
        'caller edits (11 kinds of edit) every list it got back or passed in between the calls; every call must equal the model\'s '
        'answer for its own argument and the first answer to the same question.  Mask helpers after unknown values: per class one '
        'or two extra mask scripts (thorough: 8), per package mask class 8, in which a pool of integers - all small integers, the '
        'masks of the sets asked about, single bits, the full mask, defined values and their neighbours, defined mask entries - is '
        'first converted with raise_on_unrecognized=False by the enumeration AND by the mask class derived from it (8 orders: one '
        'class then the other, value by value, shuffled, repeated, one class only), then the same subset round trips by member / '
        'name, to_values of the plain integers, and step lists in which the mask\'s own integer is converted by both classes '
        'between equal questions; each conversion judged by the first clause, every helper answer by the unchanged oracle.  '
        'A case is one script (distinct = '
        'distinct enum and operation list; non-trivial = contains a lenient conversion) or one (mask class, subset) pair '
        '(non-trivial = non-empty subset) or the step list of one mask class.')
    ctx.assumptions += [
        'Model/DynEnum.lean models DynamicEnumMeta together with aenum.extend_enum (stdlib-Enum, non-Flag path) and CPython 3.12 '
        'Enum.__new__/_proto_member.__set_name__ as three tables (_member_names_, _member_map_, _value2member_map_); it is tied to the '
        'real classes by comparing every answer of every script; reversed(E) and `x in E` are modelled for CPython 3.12 '
        '(EnumType.__reversed__ / __contains__ under DynamicEnumMeta\'s filters); where an interpreter refuses `int in E` '
        '(TypeError before 3.12) that answer is only required to be the same before and after conversions',
        'names vs members: the first NAME = value line of a value is the member, later lines with the same value are alias names '
        '(c17_extract.split_aliases, cross-checked against the interpreter\'s __members__ objects; the generated table states per '
        'class, kernel-decided, that this member list is the model\'s canonicalMembers)',
        'a Python str is modelled as its list of code points; str.upper() is modelled for ASCII letters only (the translator rejects '
        'non-ASCII member names)',
        'extend_enum also refuses a name present in the class __dict__ or a superclass; the translator checks that no non-member '
        'attribute of any enum class starts with the hidden prefix, so only _member_map_ matters',
        'histories consist of integer conversions (strict or lenient, directly or through EnumAdapter) and read-only lookups; the '
        'lenient *string* conversion E(\'name\', raise_on_unrecognized=False) adds a visible member by design and is outside the '
        'property\'s quantifier (it is modelled and compared, not part of the stability theorem)',
        'hidden-name lookups (E[\'_U_3\'] resolves after 3 was converted leniently) are not counted among the "name lookups of the '
        'enumeration": theorem C17_lookup_changes_only_hidden shows this is the only lookup that can change',
        'masks are natural numbers (to_values of a negative mask is outside the model)',
        'an adapter object is modelled by the flag it was created with and nothing else (P/F operations are the model\'s strict or '
        'lenient conversion according to that flag): no state is shared between adapter objects, and the mask helpers are '
        'functions of their argument (Model/DynEnum.lean: toValues, toBitmask, maskToString) - a caller editing a returned '
        'list has no counterpart in the model because it cannot matter',
        'thorough tier: the 65536 values of a 16-bit class are converted in 16 separate histories of 4096 values (one process '
        'each) instead of one history of 65536, plus one 16384-value history for one class per run; no code path depends on the '
        'number of hidden members']
    try:
        data = translate(ctx)
    except c17_extract.ExtractError:
        data = None
    ctx.prove(MODULES)
    ctx.cov['trusted_base'].append('tools/c17_extract.py as a reader of member names and integer values (cross-checked against the AST)')
    if data is not None:
        try:
            run(ctx, data)
        except fv.InfraError:
            if not ctx.proof_failures:
                raise
    return fv.finish(ctx, 'proof', search if data is not None else None)


def replay(ctx, path):
    obj = json.load(open(path))
    data = c17_extract.extract(fv.REPO)
    infos = [Info(e) for e in data['enums']] + synthetic_infos()
    r = obj['input']
    scripts = [r['script']] if isinstance(r, dict) and 'script' in r else []
    if not scripts:
        for it in obj.get('correspondence_failures', []):
            if isinstance(it.get('input'), dict) and 'script' in it['input']:
                scripts.append(it['input']['script'])
    run_scripts(ctx, infos, scripts)
    for sc in scripts:
        print('replayed: %s' % json.dumps({k: v for k, v in sc.items() if k != 'subsets'})[:400])
    return fv.finish(ctx, 'proof', None)
