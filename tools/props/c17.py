"""C17 - unknown enumeration values are preserved, flagged and history-independent; bit-mask helpers round-trip.

Stage A  tools/c17_extract.py regenerates lean/FeVerif/Generated/PyEnums.lean from the working tree.
Stage B  FeVerif.Props.C17 (theorems over the model of DynamicEnumMeta in Model/DynEnum.lean) + axiom audit.
Stage C  the REAL enum classes against the Lean model on operation scripts.  Enum classes are process-global and
         mutated by lenient conversions, so every script runs in a freshly forked child of this process (the parent
         imports the package once and never converts anything).
Stage D  the property statement evaluated directly on what the real classes answered.

Operations of an enum script (one token each; the Lean driver command `dynenum <defs> <ops>` answers in the same format):
  c<int>  E(<int>, raise_on_unrecognized=False)     s<int>  E(<int>, raise_on_unrecognized=True)    d<int>  E(<int>)
  G<int>  E[<int>]                                   q<b>:<int>  E(numpy.uint<b>(<int>), raise_on_unrecognized=False)
  a<b>:<int> / A<b>:<int>  AutoEnum(Int<b>ul, E).parse(bytes) lenient / EnumAdapter(..., raise_on_unrecognized=True).parse(bytes)
  g<name> E[<name>]        n<name> / N<name>  E(<name>, raise_on_unrecognized=True / False)        i  list(E)     l  len(E)
Answers: a member is NAME=value:U|R (U = is_unrecognized()), a list is comma separated, an exception is !<Type>.
(d, G, A are the model's `s`; a, q are the model's `c`.)
"""
import json
import os
import re
import select
import sys
import traceback

import fv
import c17_extract

MODULES = ['FeVerif.Props.C17']
PREFIX = '_U'
ERRS = {ValueError: '!ValueError', KeyError: '!KeyError', TypeError: '!TypeError', AttributeError: '!AttributeError'}
WIDE = [-1, -2, -128, -129, -32768, -32769, -2 ** 31, -2 ** 31 - 1, -2 ** 63, -2 ** 63 - 1, 127, 128, 255, 256, 257, 32767, 32768,
        65535, 65536, 65537, 2 ** 31 - 1, 2 ** 31, 2 ** 32 - 1, 2 ** 32, 2 ** 63 - 1, 2 ** 63, 2 ** 64 - 1, 2 ** 64, 2 ** 64 + 1, 10 ** 30]
ABSENT = ['NO_SUCH_MEMBER', 'no_such_member', 'X', 'U_3', 'u', '_', '_V_3', 'UNRECOGNIZED', '3', '']


# ---- running the real code (inside a forked child) ------------------------------------------------------------------

def _err(e):
    for t, s in ERRS.items():
        if type(e) is t:
            return s
    return '!Other:' + type(e).__name__


_SYN_CACHE = {}


def resolve_enum(q):
    """A package class by qualified name, or a synthetic IntEnum `synthetic:Name|A=3,B=1` (declaration order kept)."""
    if not q.startswith('synthetic:'):
        return c17_extract.resolve(q)
    if q not in _SYN_CACHE:
        name, body = q[len('synthetic:'):].split('|')
        src = 'from fusion_engine_client.utils.enum_utils import IntEnum\nclass %s(IntEnum):\n' % name
        for item in body.split(','):
            n, v = item.split('=')
            src += '    %s = %d\n' % (n, int(v))
        ns = {}
        exec(src, ns)
        _SYN_CACHE[q] = ns[name]
    return _SYN_CACHE[q]


SYNTHETIC = ['synthetic:SentinelFirst|INVALID=15,A=0,B=3,C=1',
             'synthetic:Descending|Z=9,Y=5,X=2',
             'synthetic:Gappy|LOW=1,HIGH=40,MID=7,ZERO=0',
             'synthetic:NegFirst|LAST=6,NEG=-2,FIRST=-5,ONE=1']


def synthetic_infos():
    out = []
    for q in SYNTHETIC:
        body = q.split('|')[1]
        out.append(Info({'qualname': q, 'defn': [(x.split('=')[0], int(x.split('=')[1])) for x in body.split(',')], 'bits': 8}))
    return out


class _Exec:
    """Executes primitive operations on one real enum class and renders what it saw."""

    def __init__(self, E):
        self.E = E
        self.first = {}      # (name, value) -> the object first seen under that name and value
        self.adapters = {}

    def tok(self, m):
        E = self.E
        if type(m) is not E:
            return '?type:%s' % type(m).__name__
        t = '%s=%d:%s' % (m.name, int(m), 'U' if m.is_unrecognized() else 'R')
        if m.value != int(m):
            t += '?value'
        if self.first.setdefault((m.name, int(m)), m) is not m:
            t += '~'            # equal to, but not the same object as, the member seen earlier
        return t

    def adapter(self, bits, strict):
        key = (bits, strict)
        if key not in self.adapters:
            import construct
            from fusion_engine_client.utils.construct_utils import AutoEnum, EnumAdapter
            sub = getattr(construct, 'Int%dul' % bits)
            if strict:
                self.adapters[key] = EnumAdapter(self.E, construct.Enum(sub, self.E), raise_on_unrecognized=True)
            else:
                self.adapters[key] = AutoEnum(sub, self.E)   # lenient is AutoEnum's default
        return self.adapters[key]

    def op(self, op):
        E = self.E
        k, arg = op[0], op[1:]
        try:
            if k == 'c':
                return self.tok(E(int(arg), raise_on_unrecognized=False))
            if k == 's':
                return self.tok(E(int(arg), raise_on_unrecognized=True))
            if k == 'd':                                   # default flag must be the strict one
                return self.tok(E(int(arg)))
            if k == 'n':
                return self.tok(E(arg, raise_on_unrecognized=True))
            if k == 'N':
                return self.tok(E(arg, raise_on_unrecognized=False))
            if k == 'g':
                return self.tok(E[arg])
            if k == 'G':                                   # E[<int>] is E(<int>): strict
                return self.tok(E[int(arg)])
            if k in 'MDIL':                                # the MEMBER OBJECT of an earlier lenient conversion is converted
                m = E(int(arg), raise_on_unrecognized=False)       # (already seen: no state change)
                if k == 'M':
                    return self.tok(E(m, raise_on_unrecognized=True))
                if k == 'D':
                    return self.tok(E(m))
                if k == 'I':
                    return self.tok(E[m])
                return self.tok(E(m, raise_on_unrecognized=False))
            if k == 'x':                                   # a lenient conversion on ANOTHER enumeration; then len(E)
                q, v = arg.rsplit(':', 1)
                resolve_enum(q)(int(v), raise_on_unrecognized=False)
                return str(len(E))
            if k == 'i':
                return ','.join(self.tok(m) for m in list(E)) or '-'
            if k == 'l':
                return str(len(E))
            if k == 'q':                                   # a numpy integer, as the file index hands them over
                import numpy as np
                bits, v = arg.split(':')
                return self.tok(E(getattr(np, 'uint' + bits)(int(v)), raise_on_unrecognized=False))
            if k in 'aA':
                bits, v = arg.split(':')
                bits, v = int(bits), int(v)
                return self.tok(self.adapter(bits, k == 'A').parse(v.to_bytes(bits // 8, 'little')))
        except BaseException as e:
            return _err(e)
        return '!bad-op'


def _child_enum(script):
    E = resolve_enum(script['enum'])
    ex = _Exec(E)
    return [ex.op(o) for o in script['ops']]


def _child_mask(script):
    """to_bitmask / to_values of a mask class over subsets of the captured members."""
    from fusion_engine_client.utils.enum_utils import enum_bitmask
    if script.get('package_mask'):
        M = c17_extract.resolve(script['package_mask'])
        E = type(M._enum_values[0])
    else:
        E = resolve_enum(script['enum'])
    ex = _Exec(E)
    pre = script.get('pre', [])
    done = []

    def convert(v):
        done.append('c%d' % v)
        try:
            E(v, raise_on_unrecognized=False)
        except BaseException as e:
            return {'decorate': 'pre', 'pre_ops': list(done), 'pre_error': _err(e)}
    for v in pre[:len(pre) // 2]:
        r = convert(v)
        if r:
            return r
    if not script.get('package_mask'):
        try:
            @enum_bitmask(E, offset=script['offset'], define_bits=script['define_bits'])
            class M:
                pass
        except BaseException as e:
            return {'decorate': _err(e)}
    for v in pre[len(pre) // 2:]:
        r = convert(v)
        if r:
            return r
    vals = list(M._enum_values)
    res = {'decorate': 'ok', 'offset': int(M._enum_offset), 'enum_values': ','.join(ex.tok(m) for m in vals) or '-',
           'attrs': ','.join('%s=%d' % (n, int(m.value)) for n, m in M.__members__.items()) or '-', 'rows': [], 'tv': []}
    for idxs in script['subsets']:
        members = [vals[i] for i in idxs]
        row = {}
        try:
            mask = M.to_bitmask(members)
            row['mask'] = '%x' % mask if mask >= 0 else '!negative'
        except BaseException as e:
            row['mask'] = _err(e)
            mask = None
        if mask is not None and mask >= 0:
            try:
                row['back'] = ','.join(ex.tok(m) for m in M.to_values(mask)) or '-'
            except BaseException as e:
                row['back'] = _err(e)
        if script.get('names'):
            try:
                m2 = M.to_bitmask([m.name.lower() if j % 2 else m.name for j, m in enumerate(members)])
                row['bymask'] = '%x' % m2 if m2 >= 0 else '!negative'
                row['byback'] = ','.join(ex.tok(m) for m in M.to_values(m2)) or '-' if m2 >= 0 else '-'
            except BaseException as e:
                row['bymask'] = _err(e)
        res['rows'].append(row)
    for mask in script.get('raw_masks', []):
        try:
            res['tv'].append(','.join(ex.tok(m) for m in M.to_values(mask)) or '-')
        except BaseException as e:
            res['tv'].append(_err(e))
    return res


def _child(script):
    sys.set_int_max_str_digits(0)
    return _child_mask(script) if script.get('kind') == 'mask' else _child_enum(script)


def run_forked(scripts, nproc=4, timeout=600):
    """Each script in its own forked child; returns the list of results (or {'infra': text})."""
    results = [None] * len(scripts)
    pending = list(enumerate(scripts))
    live = {}      # read fd -> (index, pid, chunks)
    sys.stdout.flush()
    while pending or live:
        while pending and len(live) < nproc:
            i, sc = pending.pop(0)
            r, w = os.pipe()
            pid = os.fork()
            if pid == 0:
                code = 0
                try:
                    os.close(r)
                    try:
                        out = {'ok': _child(sc)}
                    except BaseException:
                        out = {'infra': traceback.format_exc()[-1500:]}
                    with os.fdopen(w, 'w') as f:
                        json.dump(out, f)
                except BaseException:
                    code = 3
                finally:
                    os._exit(code)
            os.close(w)
            live[r] = (i, pid, [])
        ready, _, _ = select.select(list(live), [], [], timeout)
        if not ready:
            for _, pid, _ in live.values():
                try:
                    os.kill(pid, 9)
                    os.waitpid(pid, 0)
                except OSError:
                    pass
            raise fv.InfraError('enum worker timed out')
        for r in ready:
            data = os.read(r, 1 << 20)
            if data:
                live[r][2].append(data)
                continue
            i, pid, chunks = live.pop(r)
            os.close(r)
            os.waitpid(pid, 0)
            try:
                results[i] = json.loads(b''.join(chunks).decode())
            except ValueError:
                results[i] = {'infra': 'worker died without an answer'}
    return results


# ---- script generation -----------------------------------------------------------------------------------------------

class Info:
    """What the definition says (from the translator's table): the oracle's reference."""

    def __init__(self, e):
        self.q = e['qualname']
        self.defn = e['defn']
        self.bits = e['bits']
        self.values = set(v for _, v in self.defn)
        self.canon = {}
        for n, v in self.defn:
            self.canon.setdefault(v, n)
        self.byname = dict(self.defn)
        self.iter = ','.join('%s=%d:R' % (n, v) for n, v in self.defn if self.canon[v] == n) or '-'
        self.len = len(set(self.values))

    def member(self, v):
        return '%s=%d:R' % (self.canon[v], v)

    def defs(self):
        return ','.join('%s=%d' % (n, v) for n, v in self.defn) or '-'


def checkpoint(info, seen, rng, full):
    ops = ['i', 'l']
    ops += ['g' + n for n, _ in info.defn]
    ops += ['g' + n for n in ABSENT if n]
    if full:
        ops += ['g' + n.lower() for n, _ in info.defn[:6]] + ['n' + n for n, _ in info.defn[:6]] + ['nNO_SUCH_MEMBER']
    sv = list(seen)
    if len(sv) > 300:
        sv = rng.sample(sv, 300)
    ops += ['s%d' % v for v in sv]
    ops += ['g%s_%d' % (PREFIX, v) for v in sv[:8]] + ['n%s_%d' % (PREFIX, v) for v in sv[:3]]
    return ops


def enum_script(info, vals, rng, label, every, adapter_bits=0, per_value_strict=True):
    ops = checkpoint(info, [], rng, True)
    seen = []
    for j, v in enumerate(vals):
        use_adapter = adapter_bits and 0 <= v < (1 << adapter_bits) and j % 3 == 2
        conv = ('a%d:%d' % (adapter_bits, v)) if use_adapter else \
            ('q16:%d' % v) if (j % 4 == 1 and 0 <= v < 65536) else 'c%d' % v
        strict = ('A%d:%d' % (adapter_bits, v)) if use_adapter else ('d%d' % v if j % 5 == 4 else 's%d' % v)
        if per_value_strict and j % 2:
            ops += [strict, conv, strict]        # refused before it was ever seen, and after
        elif per_value_strict:
            ops += [conv, strict]
        else:
            ops += [conv]
        if j % 7 == 3:
            ops += ['c%d' % v, 'g%s_%d' % (PREFIX, v)]     # a second lenient conversion returns the same member
        if j % 11 == 5:
            ops += ['G%d' % v]
        seen.append(v)
        if every and (j + 1) % every == 0 and j + 1 < len(vals):
            ops += checkpoint(info, seen, rng, False)
    ops += checkpoint(info, seen, rng, True)
    return {'kind': 'enum', 'enum': info.q, 'ops': ops, 'label': label, 'oracle': True}


def member_and_foreign_script(info, others, rng):
    """Conversions of member OBJECTS (a hidden member handed back to a strict conversion must still be refused) and
    histories on OTHER enumerations (unknown values seen by another class must not change this one)."""
    ops = checkpoint(info, [], rng, False)
    vs = sorted(info.values)
    unknown = [v for v in (vs[-1] + 1, vs[-1] + 7, vs[0] - 1, 77, 200) if v not in info.values][:4]
    seen = []
    for v in unknown:
        ops += ['c%d' % v, 'M%d' % v, 'D%d' % v, 'I%d' % v, 'L%d' % v, 's%d' % v]
        seen.append(v)
    for v in vs[:6]:
        ops += ['c%d' % v, 'M%d' % v, 'D%d' % v, 'I%d' % v]
    for o in others:
        # values defined HERE but unknown THERE are converted leniently there; here they must stay defined and strict-acceptable
        for v in [x for x in vs if x not in o.values][:5]:
            ops += ['x%s:%d' % (o.q, v), 's%d' % v, 'd%d' % v, 'c%d' % v]
        # and values unknown here that the other class saw must still be refused here
        for v in unknown[:2]:
            ops += ['x%s:%d' % (o.q, v), 's%d' % v]
    ops += checkpoint(info, seen, rng, True)
    return {'kind': 'enum', 'enum': info.q, 'ops': ops, 'label': 'member-objects+foreign-enums', 'oracle': True}


def string_path_script(info, rng):
    """The lenient *string* conversion adds a visible member by design; compared with the model only."""
    vs = sorted(info.values)
    ops = ['i', 'l', 'c%d' % (min(vs) - 1), 'Nbogus', 'i', 'l', 'gbogus', 'nbogus', 'Nbogus', 'Nother', 'i', 'l',
           'N%s_77' % PREFIX, 'i', 'l', 'c77', 's77', 'n%s_77' % PREFIX, 'N' + info.defn[0][0].lower(), 'i', 'l']
    return {'kind': 'enum', 'enum': info.q, 'ops': ops, 'label': 'string-path', 'oracle': False}


def enum_scripts(ctx, infos):
    rng = ctx.rng
    out = []
    for info in infos:
        lo = list(range(256))
        sh = lo[:]
        rng.shuffle(sh)
        bits = info.bits if info.bits in (8, 16, 32, 64) else 0
        ab = bits if bits in (8, 16, 32) else 0
        out.append(enum_script(info, lo, rng, '8bit-ascending', 64, ab))
        out.append(enum_script(info, lo[::-1], rng, '8bit-descending', 64, 0))
        out.append(enum_script(info, sh, rng, '8bit-shuffled', 50, ab))
        wide = WIDE + [rng.randrange(-2 ** 63, 2 ** 64) for _ in range(40)] + sorted(info.values) + \
            [v + d for v in info.values for d in (-1, 1)]
        rng.shuffle(wide)
        out.append(enum_script(info, wide, rng, 'wide-boundary-random', 40, 0))
        if bits != 8:
            n = 6000 if ctx.thorough else 1200
            pool = set(rng.randrange(65536) for _ in range(n)) | {0, 1, 254, 255, 256, 257, 32767, 32768, 65534, 65535} | \
                set(v for v in info.values if 0 <= v < 65536) | set(v + d for v in info.values for d in (-1, 1) if 0 <= v + d < 65536)
            pool = sorted(pool)
            psh = pool[:]
            rng.shuffle(psh)
            out.append(enum_script(info, pool, rng, '16bit-sample-ascending', 400, ab if ab >= 16 else 0))
            out.append(enum_script(info, pool[::-1], rng, '16bit-sample-descending', 400, 0))
            out.append(enum_script(info, psh, rng, '16bit-sample-shuffled', 400, ab if ab >= 16 else 0))
        out.append(string_path_script(info, rng))
        others = [o for o in infos if o.q != info.q and len(o.values - info.values) + len(info.values - o.values) > 0]
        out.append(member_and_foreign_script(info, rng.sample(others, min(3, len(others))), rng))
    if ctx.thorough:
        # every value of the 16-bit wire range, one order per enum (a lenient conversion costs O(members) in aenum)
        k = 0
        for info in infos:
            if info.bits == 16:
                vals = list(range(65536))
                if k % 3 == 1:
                    vals.reverse()
                elif k % 3 == 2:
                    rng.shuffle(vals)
                k += 1
                out.append(enum_script(info, vals, rng, '16bit-exhaustive', 16384, 0, per_value_strict=False))
    return out


def subsets_of(n, rng, limit):
    if n <= 12 and (1 << n) <= limit:
        res = [[i for i in range(n) if b >> i & 1] for b in range(1 << n)]
    else:
        res = [[], list(range(n))] + [[i] for i in range(n)]
        while len(res) < limit:
            res.append([i for i in range(n) if rng.random() < rng.choice([0.1, 0.5, 0.9])])
    # a few in another order and with repetitions: the argument is a list, the property speaks of the set
    for _ in range(min(20, len(res))):
        s = list(rng.choice(res))
        rng.shuffle(s)
        res.append(s + s[:2])
    return res


def mask_scripts(ctx, infos, masks):
    rng = ctx.rng
    out = []
    for info in infos:
        vs = sorted(info.values)
        n = len(vs)
        big = vs[-1] - vs[0] > 4096
        if vs[-1] - vs[0] > 100000:
            ctx.count('mask_derivation_skipped_span_too_wide')     # 1 << (2**32 - 1) is not a test of anything
            continue
        offs = [(0, True)] if vs[0] >= 0 else []
        offs += [(vs[0], True)] if vs[0] > 0 else []
        offs += [(vs[0] - 3, True), (vs[0] + 1, False)]       # the last one: a member below the offset (ValueError)
        for j, (off, db) in enumerate(offs):
            limit = (256 if big else 4096 if j == 0 else 512) * (4 if ctx.thorough and not big else 1)
            out.append({'kind': 'mask', 'enum': info.q, 'offset': off, 'define_bits': db, 'names': db and not big,
                        'pre': [vs[-1] + 1, vs[-1] + 2, vs[0] - 1, 77] if j % 2 else [],
                        'subsets': subsets_of(n, rng, limit),
                        'raw_masks': [rng.getrandbits(rng.choice([4, 8, 16, 40])) for _ in range(20)] if not big else [0, 1, 5]})
    for m in masks:
        n = len(m['enum_values'])
        out.append({'kind': 'mask', 'package_mask': m['qualname'], 'enum': m['base'], 'names': True, 'pre': [200, 201],
                    'subsets': subsets_of(n, rng, 4096), 'raw_masks': [rng.getrandbits(32) for _ in range(200)] + [0xFFFFFFFF]})
    return out


# ---- model requests --------------------------------------------------------------------------------------------------

def model_op(op):
    if op[0] in 'MDI':
        return 's' + op[1:]          # a member is an int: strict conversion of its value
    if op[0] == 'L':
        return 'c' + op[1:]
    if op[0] == 'x':
        return 'l'                   # another enumeration's history does not touch this one
    if op[0] in 'aq':
        return 'c' + op.split(':')[1]
    if op[0] == 'A':
        return 's' + op.split(':')[1]
    if op[0] in 'dG':
        return 's' + op[1:]
    return op


MODEL_OPS = 9000    # the list-based model is quadratic in the number of hidden members: longer scripts are compared on a prefix


def model_line(info, script):
    return 'dynenum %s %s' % (info.defs(), ';'.join(model_op(o) for o in script['ops'][:MODEL_OPS]) or '-')


# ---- oracle: the property statement on the answers of the real classes -------------------------------------------------

MEMBER = re.compile(r'^(.*)=(-?\d+):([UR])(.*)$')


def judge_enum(ctx, info, script, toks):
    """Returns a list of (signature, description, op index)."""
    bad = []
    lenient_seen = set()
    conversions = 0
    baseline = {}

    def hidden(name):
        return name.startswith(PREFIX) or name.upper().startswith(PREFIX)

    def add(sig, desc, i):
        bad.append(('C17/' + sig, '%s: %s (operation %d `%s` of script %s, after %d conversions) -> %s'
                    % (info.q, desc, i, script['ops'][i], script['label'], conversions, toks[i][:120]), i))

    for i, (op, t) in enumerate(zip(script['ops'], toks)):
        k = op[0]
        if '~' in t:
            add('member-identity-changed', 'a member equal to, but not the same object as, the one returned earlier', i)
            continue
        if '?' in t:
            add('result-not-a-member', 'result is not a member of the class', i)
            continue
        if k in 'caqL':
            v = int(op.split(':')[1]) if k in 'aq' else int(op[1:])
            conversions += 1
            site = {'c': 'call-lenient', 'a': 'adapter-lenient', 'q': 'call-lenient-numpy', 'L': 'call-lenient-on-member-object'}[k]
            m = MEMBER.match(t)
            if not m:
                add(site + '/raises', 'lenient conversion of %d raised' % v, i)
            elif int(m.group(2)) != v:
                add(site + '/value-not-preserved', 'lenient conversion of %d gives a member with value %s' % (v, m.group(2)), i)
            elif v in info.values and t != info.member(v):
                add(site + '/defined-value-not-its-member', 'lenient conversion of the defined value %d is not %s' % (v, info.member(v)), i)
            elif v not in info.values and m.group(3) != 'U':
                add(site + '/unknown-not-flagged', 'lenient conversion of the undefined value %d is not flagged unrecognized' % v, i)
            lenient_seen.add(v)
        elif k in 'sAdGMDI':
            v = int(op.split(':')[1]) if k == 'A' else int(op[1:])
            site = {'s': 'call-strict', 'A': 'adapter-strict', 'd': 'call-default', 'G': 'getitem-int',
                    'M': 'call-strict-on-member-object', 'D': 'call-default-on-member-object', 'I': 'getitem-member-object'}[k]
            if k in 'MDI':
                lenient_seen.add(v)
            if v in info.values:
                if t != info.member(v):
                    add(site + '/defined-value-not-its-member', 'strict conversion of the defined value %d is not %s' % (v, info.member(v)), i)
            elif not t.startswith('!'):
                add(site + ('/accepts-unknown-seen-before' if v in lenient_seen else '/accepts-unknown'),
                    'strict conversion of the undefined value %d is not refused' % v, i)
        elif k == 'x':
            conversions += 1         # another enumeration saw an unknown value; len(E) is reported
            if 'l' in baseline and t != baseline['l']:
                add('len/changed-after-foreign-conversions', 'len(E) was %s on the fresh class and is %s' % (baseline['l'], t), i)
        elif k in 'il' or (k in 'gn' and not hidden(op[1:])):
            # history independence: the answer must be the one the fresh class gave to the same question in this script
            # (before any conversion).  Whether the fresh answers follow the definition is the model's business.
            name = op[1:]
            site = {'i': 'iter', 'l': 'len', 'g': 'getitem', 'n': 'call-by-name'}[k]
            if conversions == 0:
                baseline.setdefault(op, t)
            elif op in baseline:
                if t != baseline[op]:
                    what = {'i': 'list(E)', 'l': 'len(E)'}.get(k, 'lookup of %s name %r' %
                                                             ('the defined' if name in info.byname else 'the', name))
                    feature = {'i': 'changed-after-conversions', 'l': 'changed-after-conversions'}.get(
                        k, 'defined-name-changed' if name in info.byname or name.upper() in info.byname else
                        ('absent-name-resolves-after-conversions' if baseline[op].startswith('!') else 'name-lookup-changed'))
                    add(site + '/' + feature, '%s was %s on the fresh class and is %s' % (what, baseline[op][:200], t[:200]), i)
            elif k in 'gn' and (name in info.byname or name.upper() in info.byname):
                want = info.member(info.byname[name] if name in info.byname else info.byname[name.upper()])
                if t != want:
                    add(site + '/defined-name-changed', 'lookup of the defined name %r is not %s' % (name, want), i)
            elif k in 'gn' and not t.startswith('!'):
                add(site + '/absent-name-resolves-after-conversions', 'lookup of the absent name %r succeeds' % name, i)
        elif k in 'gn':
            # a hidden name: `E['_U_3']` resolves once 3 has been converted leniently.  Not a defined name and not an
            # ordinary absent one: recorded, and judged by the correspondence with the model only (theorem
            # C17_lookup_changes_only_hidden says this is the only kind of lookup that can move).
            if not t.startswith('!'):
                ctx.count('hidden_name_lookup_resolves' if k == 'g' else 'hidden_name_strict_call_accepted')
            elif k == 'g':
                ctx.count('hidden_name_lookup_keyerror')
    return bad


def judge_mask(ctx, script, res, lines, pend):
    """Oracle for one mask script and the model requests for it."""
    bad = []
    tag = script.get('package_mask') or '%s offset=%d' % (script['enum'], script['offset'])
    if res['decorate'] == 'pre':
        bad.append(('C17/call-lenient/raises', '%s: lenient conversion `%s` raised %s after %s'
                    % (script['enum'], res['pre_ops'][-1], res['pre_error'], res['pre_ops'][:-1]),
                    {'script': {'kind': 'enum', 'enum': script['enum'], 'ops': res['pre_ops'], 'label': 'mask-pre', 'oracle': True}}))
        return bad
    if res['decorate'] != 'ok':
        bad.append(('C17/mask/decorator-raises', '%s: enum_bitmask raised %s' % (tag, res['decorate']), None))
        return bad
    off = res['offset']
    members = [] if res['enum_values'] == '-' else res['enum_values'].split(',')
    vals = [int(MEMBER.match(m).group(2)) for m in members]
    ok_offset = all(v >= off for v in vals)
    plain = ','.join('%s=%d' % (MEMBER.match(m).group(1), v) for m, v in zip(members, vals)) or '-'
    for idxs, row in zip(script['subsets'], res['rows']):
        want = ','.join(members[i] for i in range(len(members)) if i in set(idxs)) or '-'
        rp = {'script': dict(script, subsets=[idxs], raw_masks=[]), 'subset_members': [members[i] for i in idxs]}
        if ok_offset:
            if row['mask'].startswith('!'):
                bad.append(('C17/mask/to_bitmask-raises', '%s: to_bitmask(%s) raised %s' % (tag, rp['subset_members'], row['mask']), rp))
            elif row.get('back') != want:
                bad.append(('C17/mask/roundtrip-differs', '%s: to_values(to_bitmask(S)) = [%s] for S = [%s] (mask 0x%s)'
                            % (tag, row.get('back'), want, row['mask'][:40]), rp))
            if script.get('names') and 'bymask' in row and not row['mask'].startswith('!'):
                if row['bymask'].startswith('!'):
                    # e.g. a base enum with mixed-case names: to_bitmask upper-cases the string.  The property speaks of
                    # members; the string form is compared with the model only.
                    ctx.count('mask_by_name_raises')
                elif row.get('byback') != want:
                    bad.append(('C17/mask/roundtrip-by-name-differs', '%s: to_values(to_bitmask(names of S)) = [%s] for S = [%s]'
                                % (tag, row.get('byback', row['bymask']), want), rp))
        items = ','.join(str(vals[i]) for i in idxs) or '-'
        lines.append('masktb %d - %s' % (off, items))
        pend.append(('tb', row['mask'], rp, tag))
        if script.get('names') and 'bymask' in row:
            nm = ','.join('@' + (MEMBER.match(members[i]).group(1).lower() if j % 2 else MEMBER.match(members[i]).group(1))
                          for j, i in enumerate(idxs)) or '-'
            lines.append('masktb %d %s %s' % (off, res['attrs'], nm))
            pend.append(('tb-names', row['bymask'], rp, tag))
        if not row['mask'].startswith('!'):
            lines.append('masktv %d %s %s' % (off, plain, row['mask']))
            pend.append(('tv', row['back'], rp, tag))
        ctx.case('%s|%s' % (tag, items), nontrivial=bool(idxs))
        ctx.count('mask_subsets')
    for mask, got in zip(script.get('raw_masks', []), res['tv']):
        lines.append('masktv %d %s %x' % (off, plain, mask))
        pend.append(('tv-raw', got, {'script': dict(script, subsets=[], raw_masks=[mask])}, tag))
    return bad


# ---- the run ---------------------------------------------------------------------------------------------------------

def translate(ctx):
    """Stage A."""
    try:
        data = c17_extract.extract(fv.REPO)
    except c17_extract.ExtractError as e:
        ctx.proof_failures.append('translator: %s' % e)
        ctx.notes.append('stage A failed: %s' % e)
        raise
    path = os.path.join(fv.LEAN, 'FeVerif', 'Generated', 'PyEnums.lean')
    with fv.LeanLock():
        changed = c17_extract.write_if_changed(path, c17_extract.render(data))
    ctx.cov['generated_table'] = {'file': 'lean/FeVerif/Generated/PyEnums.lean', 'rewritten': changed, 'enums': len(data['enums']),
                                  'mask_classes': len(data['masks']), 'memberless_classes_skipped': data['skipped'],
                                  'modules_not_importable': data['import_failures']}
    return data


def run_scripts(ctx, infos, scripts):
    by = {i.q: i for i in infos}
    results = run_forked(scripts, nproc=6 if ctx.thorough else 4, timeout=5400 if ctx.thorough else 600)
    lines, pend = [], []
    reported = set(sig for sig, _, _ in ctx.violations)
    for sc, r in zip(scripts, results):
        if 'infra' in r:
            raise fv.InfraError('worker failed on %s: %s' % (sc.get('enum'), r['infra']))
        r = r['ok']
        if sc['kind'] == 'enum':
            info = by[sc['enum']]
            lines.append(model_line(info, sc))
            pend.append(('enum', r, sc, info))
            ctx.count('enum_scripts_' + sc['label'])
            ctx.count('enum_operations', len(sc['ops']))
            if sc['oracle']:
                for sig, desc, i in judge_enum(ctx, info, sc, r):
                    ctx.count('violations_seen')
                    if sig not in reported:         # one (shrunk) replay per signature
                        reported.add(sig)
                        ctx.violation(sig, desc, {'script': shrink_enum(ctx, info, sc, i, sig)})
        else:
            for sig, desc, rp in judge_mask(ctx, sc, r, lines, pend):
                ctx.count('violations_seen')
                if sig not in reported:
                    reported.add(sig)
                    ctx.violation(sig, desc, rp if rp is not None else {'script': dict(sc, subsets=sc['subsets'][:1])})
    outs = ctx.driver(lines)
    for (kind, got, a, b), mo in zip(pend, outs):
        ctx.cov['traces_validated_against_impl'] += 1
        if kind == 'enum':
            sc, info = a, b
            impl = ';'.join(got[:MODEL_OPS])
            if len(got) > MODEL_OPS:
                ctx.count('operations_beyond_model_prefix_oracle_only', len(got) - MODEL_OPS)
            ctx.case('%s|%s' % (info.q, ';'.join(sc['ops'])), nontrivial=any(o[0] in 'caqN' for o in sc['ops']))
            if impl != mo:
                it, mt = impl.split(';'), mo.split(';')
                j = next((x for x in range(min(len(it), len(mt))) if it[x] != mt[x]), min(len(it), len(mt)))
                ctx.disagree('%s (%s): operation %d `%s`: real class %s, model %s' %
                             (info.q, sc['label'], j, sc['ops'][j] if j < len(sc['ops']) else '?',
                              it[j][:80] if j < len(it) else '-', mt[j][:80] if j < len(mt) else '-'),
                             {'script': shrink_enum(ctx, info, sc, min(j, len(sc['ops']) - 1))
                              if len(ctx.disagreements) < 3 else dict(sc, ops=sc['ops'][:j + 1][-400:])})
            elif len(ctx.cov['samples']) < 4 and sc['label'] in ('wide-boundary-random', 'string-path'):
                ctx.sample({'enum': info.q, 'ops': sc['ops'][-12:], 'real_and_model': got[-12:]})
        else:
            if got != mo:
                ctx.disagree('%s %s: real %s, model %s' % (b, kind, str(got)[:80], mo[:80]), a)


class _NoCount:
    def count(self, *a, **k):
        pass


def shrink_enum(ctx, info, sc, i, sig=None):
    """A short script that still fails in the same way at its last operation: [the same question on the fresh class]
    + some of the lenient conversions before it (halved greedily) + the offending operation.  `sig` = the oracle
    signature to preserve, or None to preserve a disagreement with the model."""
    ops = sc['ops'][:i + 1]
    last = ops[-1]
    head = [last] if last[0] in 'ilgn' else []
    keep = [o for o in ops[:-1] if o[0] in 'caqN']

    def fails(body):
        cand = dict(sc, ops=head + body + [last])
        r = run_forked([cand], 1)[0].get('ok')
        if not r:
            return False
        if sig is not None:
            return any(s == sig and j == len(cand['ops']) - 1 for s, _, j in judge_enum(_NoCount(), info, cand, r))
        return ctx.driver([model_line(info, cand)])[0].split(';')[-1] != r[-1]
    try:
        if fails(keep):
            cur = keep
            for _ in range(20):
                if not cur:
                    break
                if fails(cur[len(cur) // 2:]):
                    cur = cur[len(cur) // 2:]
                elif fails(cur[:len(cur) // 2]):
                    cur = cur[:len(cur) // 2]
                elif len(cur) > 2 and fails(cur[:-1]):
                    cur = cur[:-1]
                else:
                    break
            return dict(sc, ops=head + cur + [last], label=sc['label'] + '/shrunk')
    except fv.InfraError:
        pass
    return dict(sc, ops=ops)


def run(ctx, data):
    infos = [Info(e) for e in data['enums']]
    # synthetic enumerations (declared in non-ascending order, with gaps, negative values): the helpers and the
    # metaclass are generic, the property is not only about the classes the package happens to define
    syn = synthetic_infos()
    scripts = enum_scripts(ctx, infos) + mask_scripts(ctx, infos + syn, data['masks'])
    for si in syn:
        scripts.append(member_and_foreign_script(si, ctx.rng.sample(infos, 2), ctx.rng))
        scripts.append(enum_script(si, list(range(-8, 48)), ctx.rng, 'synthetic', 16, 0))
    infos = infos + syn
    ctx.count('enum_classes', len(infos))
    run_scripts(ctx, infos, scripts)


def search(ctx):
    """Stage E: the same oracle with another seed's worth of scripts."""
    ctx.notes.append('stage E: widened search')
    data = c17_extract.extract(fv.REPO)
    run(ctx, data)


def check(ctx):
    ctx.cov['rule'] = (
        'per IntEnum subclass of the package (table regenerated from the working tree), each script in a freshly forked process: '
        'all integers 0..255 ascending, descending and shuffled; boundary values of the 8/16/32/64-bit signed and unsigned ranges, '
        'neighbours of every defined value and random 64-bit integers, shuffled; for classes not known to travel in an 8-bit field '
        'a sample of the 16-bit range (with its ends and the neighbours of defined values) in three orders (thorough: all 65536 '
        'values for the 16-bit classes); per value: lenient conversion (directly or through EnumAdapter/AutoEnum.parse) and strict '
        'conversion before and after; at checkpoints list(E), len(E), E[name] for every defined name, absent names, strict conversion '
        'of the values seen so far, hidden-name lookups; mask helpers: all subsets of the captured members (up to 2^12, sampled '
        'beyond) for several offsets, by member and by name, plus random masks for to_values.  A case is one script (distinct = '
        'distinct enum and operation list; non-trivial = contains a lenient conversion) or one (mask class, subset) pair '
        '(non-trivial = non-empty subset).')
    ctx.assumptions += [
        'Model/DynEnum.lean models DynamicEnumMeta together with aenum.extend_enum (stdlib-Enum, non-Flag path) and CPython 3.12 '
        'Enum.__new__/_proto_member.__set_name__ as three tables (_member_names_, _member_map_, _value2member_map_); it is tied to the '
        'real classes by comparing every answer of every script',
        'a Python str is modelled as its list of code points; str.upper() is modelled for ASCII letters only (the translator rejects '
        'non-ASCII member names)',
        'extend_enum also refuses a name present in the class __dict__ or a superclass; the translator checks that no non-member '
        'attribute of any enum class starts with the hidden prefix, so only _member_map_ matters',
        'histories consist of integer conversions (strict or lenient, directly or through EnumAdapter) and read-only lookups; the '
        'lenient *string* conversion E(\'name\', raise_on_unrecognized=False) adds a visible member by design and is outside the '
        'property\'s quantifier (it is modelled and compared, not part of the stability theorem)',
        'hidden-name lookups (E[\'_U_3\'] resolves after 3 was converted leniently) are not counted among the "name lookups of the '
        'enumeration": theorem C17_lookup_changes_only_hidden shows this is the only lookup that can change',
        'masks are natural numbers (to_values of a negative mask is outside the model)']
    try:
        data = translate(ctx)
    except c17_extract.ExtractError:
        data = None
    ctx.prove(MODULES)
    ctx.cov['trusted_base'].append('tools/c17_extract.py as a reader of member names and integer values (cross-checked against the AST)')
    if data is not None:
        try:
            run(ctx, data)
        except fv.InfraError:
            if not ctx.proof_failures:
                raise
    return fv.finish(ctx, 'proof', search if data is not None else None)


def replay(ctx, path):
    obj = json.load(open(path))
    data = c17_extract.extract(fv.REPO)
    infos = [Info(e) for e in data['enums']]
    r = obj['input']
    scripts = [r['script']] if isinstance(r, dict) and 'script' in r else []
    if not scripts:
        for it in obj.get('correspondence_failures', []):
            if isinstance(it.get('input'), dict) and 'script' in it['input']:
                scripts.append(it['input']['script'])
    run_scripts(ctx, infos, scripts)
    for sc in scripts:
        print('replayed: %s' % json.dumps({k: v for k, v in sc.items() if k != 'subsets'})[:400])
    return fv.finish(ctx, 'proof', None)
