"""C18 - extraction of FusionEngine content is byte-exact, indexed and idempotent."""
import contextlib
import io
import json
import os
import sys

import fv
import gen
from props import index_common as ic

MODULES = ['FeVerif.Props.C18']


CALLS = [0]
COUNTS = [None]       # per-type counts reported by the last extraction that was asked for them


def extract(path, out, via_app=False, save_index=True, stale=None):
    """Returns ('ok', count|None, output bytes|None, index bytes|None) or ('raise', text).
    `stale` = (old output bytes | None, old index bytes | None): files an earlier extraction left at the output paths."""
    COUNTS[0] = None
    for f in (out, os.path.splitext(out)[0] + '.p1i'):
        if os.path.exists(f):
            os.remove(f)
    if stale is not None:
        for f, b in ((out, stale[0]), (os.path.splitext(out)[0] + '.p1i', stale[1])):
            if b is not None:
                with open(f, 'wb') as fd:
                    fd.write(b)
    try:
        if via_app == 'locate':
            # a third entry point: locate_log(<mixed file>, extract_fusion_engine_data=True) extracts to <stem>.p1log
            import logging
            logging.disable(logging.CRITICAL)
            from fusion_engine_client.utils.log import locate_log
            assert os.path.splitext(path)[0] + '.p1log' == out
            got = locate_log(path, extract_fusion_engine_data=True)
            if got is not None and os.path.abspath(got) != os.path.abspath(out):
                return ('raise', 'locate_log returned %r, expected %r or None' % (got, out))
            if (got is None) != (not os.path.exists(out)):
                return ('raise', 'locate_log returned %r but the output file %s' % (got, 'exists' if os.path.exists(out) else 'does not exist'))
            count = None
        elif via_app:
            from fusion_engine_client.applications import p1_extract
            argv = sys.argv
            sys.argv = ['p1_extract', '-o', os.path.dirname(out), '-p', os.path.splitext(os.path.basename(out))[0], path]
            try:
                with contextlib.redirect_stdout(io.StringIO()):
                    p1_extract.main()
            finally:
                sys.argv = argv
            count = None
        else:
            from fusion_engine_client.utils.log import extract_fusion_engine_log
            CALLS[0] += 1
            if CALLS[0] % 3 != 0:
                count = int(extract_fusion_engine_log(path, out, warn_on_gaps=False, save_index=save_index))
            else:
                # the other result form: (count, {message type: count})
                count, per_type = extract_fusion_engine_log(path, out, warn_on_gaps=False, save_index=save_index, return_counts=True)
                count = int(count)
                COUNTS[0] = dict((int(k), int(v)) for k, v in per_type.items() if int(v) != 0)
    except SystemExit as e:
        return ('raise', 'SystemExit %s' % e.code)
    except BaseException as e:
        return ('raise', '%s: %s' % (type(e).__name__, str(e)[:100]))
    ob = open(out, 'rb').read() if os.path.exists(out) else None
    p1i = os.path.splitext(out)[0] + '.p1i'
    ib = open(p1i, 'rb').read() if os.path.exists(p1i) else None
    return ('ok', count, ob, ib)


def extract_in_place(path, how):
    """Extract `path` (a .p1log) with the output resolving to the same file. Returns ('ok', bytes now in the file | None) or ('raise', text)."""
    extra = []
    try:
        if how == 'func-default-name':
            from fusion_engine_client.utils.log import extract_fusion_engine_log
            extract_fusion_engine_log(path, warn_on_gaps=False)
        elif how.startswith('func-'):
            # input and output are two different NAMES of the same file
            from fusion_engine_client.utils.log import extract_fusion_engine_log
            d = os.path.dirname(path)
            if how == 'func-through-symlinked-directory':
                link = os.path.join(d, 'c18_dirlink')
                extra.append(link)
                if os.path.lexists(link):
                    os.remove(link)
                os.symlink(d, link)
                src = os.path.join(link, os.path.basename(path))
            else:
                src = os.path.join(d, 'c18_other_name.p1log')
                extra.append(src)
                if os.path.lexists(src):
                    os.remove(src)
                (os.symlink if 'symlink' in how else os.link)(path, src)
            extract_fusion_engine_log(src, path, warn_on_gaps=False)
        else:
            from fusion_engine_client.applications import p1_extract
            argv = sys.argv
            sys.argv = ['p1_extract', '-o', os.path.dirname(path), '-p', os.path.splitext(os.path.basename(path))[0], path]
            try:
                with contextlib.redirect_stdout(io.StringIO()):
                    p1_extract.main()
            finally:
                sys.argv = argv
    except SystemExit as e:
        if e.code not in (0, None):
            return ('raise', 'SystemExit %s' % e.code)
    except BaseException as e:
        return ('raise', '%s: %s' % (type(e).__name__, str(e)[:100]))
    finally:
        for f in extra:
            if os.path.lexists(f):
                os.remove(f)
    return ('ok', open(path, 'rb').read() if os.path.exists(path) else None)


def fresh_index_bytes(out_path):
    """Index file a fresh indexing of `out_path` writes (in a scratch copy so the extractor's index is untouched)."""
    data = open(out_path, 'rb').read()
    p = ic.write_log(data, 'c18_fresh.p1log')
    res = ic.run_indexer(p, 1, save_index=True)
    p1i = os.path.splitext(p)[0] + '.p1i'
    b = open(p1i, 'rb').read() if os.path.exists(p1i) else None
    for f in (p, p1i):
        if os.path.exists(f):
            os.remove(f)
    return res, b


def index_entries(b):
    """(whole-second time | None, type, offset) per 14-byte entry of a .p1i file (the last one is the end marker), or None."""
    if b is None or len(b) % 14:
        return None
    import struct
    return [(None if t == 0xFFFFFFFF else t, ty, o) for t, ty, o in struct.iter_unpack('<IHQ', b)]


def describe_index_difference(ib, fb, ob):
    """Signature and text for a written index that differs from the fresh one: the first differing entry, field by field."""
    sig = 'C18/written-index-not-equivalent-to-fresh'
    w, f = index_entries(ib), index_entries(fb)
    if w is None or f is None:
        return sig, ''
    if len(w) != len(f):
        return sig, ': %d entries written, %d in the fresh index' % (len(w), len(f))
    diff = [k for k in range(len(w)) if w[k] != f[k]]
    if not diff:
        return sig, ''
    k = diff[0]
    only_times = all(w[j][1:] == f[j][1:] for j in diff)
    name = ''
    if only_times and ob is not None and w[k][2] + 24 <= len(ob):
        from fusion_engine_client.messages import message_type_to_class
        name = ''.join(' ' + c.__name__ for t, c in message_type_to_class.items() if int(t) == w[k][1])
        size = 24 + int.from_bytes(ob[w[k][2] + 16:w[k][2] + 20], 'little')
        name += ', P1 time by the class\'s own get_p1_time(): %s s' % ic.expected_time(ob[w[k][2]:w[k][2] + size])
    text = ': %d of %d entries differ%s; first: entry %d (offset %d, type %d%s) written (time, type, offset) = %s, fresh = %s' % (
        len(diff), len(w), ' (P1 times only)' if only_times else '', k, w[k][2], w[k][1], name, w[k], f[k])
    return (sig + '/times' if only_times else sig), text


_STALE = {}


def data_has_sync(data):
    return b'\x2e\x31' in data


def stale_files(rng):
    """Output and index of an earlier extraction (made once per run by the implementation itself, from a small valid log)."""
    if 'v' not in _STALE:
        from props import reader_common as rc
        import random
        d = ic.tmpdir()
        src, out = os.path.join(d, 'c18_stale_in.bin'), os.path.join(d, 'c18_stale.p1log')
        with open(src, 'wb') as f:
            f.write(b'old' + rc.make_log(random.Random(5), 4, junk=False, t_start=3.0))
        r = extract(src, out)
        _STALE['v'] = (r[2], r[3]) if r[0] == 'ok' else (b'\x2e\x31' + bytes(40), None)
        for f in (src, out, os.path.splitext(out)[0] + '.p1i', os.path.splitext(src)[0] + '.p1i'):
            if os.path.exists(f):
                os.remove(f)
    ob, ib = _STALE['v']
    return rng.choice([(ob, ib), (ob, None), (b'not a log at all', None), (ob, ib)])


def time_family_messages(rng, t0=1000.0):
    """CRC-valid messages of EVERY registered class, with every way a class can define (or lack) its P1 time. Returns a list of
    (message bytes, label) in generation order (P1 times strictly increasing by whole seconds):
      - classes with `details` (MeasurementDetails): every SystemTimeSource x measurement_time unset/set x details.p1_time
        unset / set in the same whole second / in a later second / in an earlier second / a nanosecond before the second
        (P1 time = measurement_time when the source is P1_TIME, details.p1_time otherwise);
      - classes with their own `p1_time`: set, invalid; with a DIFFERENT gps_time where the class has one;
      - classes without P1 time: as constructed, and with a system time where the class has one (never a P1 time)."""
    from fusion_engine_client.messages import message_type_to_class, MeasurementDetails, Timestamp, SystemTimeSource
    out = []
    t = [float(t0)]
    seq = [0]

    def step():
        t[0] += 1.0
        return t[0]

    def add(c, o, label):
        try:
            p = bytes(o.pack())
        except Exception:
            return
        v = int(c.get_version()) if hasattr(c, 'get_version') else 0
        out.append((gen.frame(int(c.get_type()), p, seq[0], 0, v), '%s/%s' % (c.__name__, label)))
        seq[0] += 1

    for mt, c in sorted(message_type_to_class.items(), key=lambda x: int(x[0])):
        try:
            probe = c()
        except Exception:
            continue
        if isinstance(getattr(probe, 'details', None), MeasurementDetails):
            for src in SystemTimeSource:
                for mset in (True, False):
                    for dp in ('unset', 'same-second', 'later-second', 'earlier-second', 'ns-before'):
                        o = c()
                        now = step() + 0.5
                        o.details.measurement_time_source = src
                        o.details.measurement_time = Timestamp(now) if mset else Timestamp()
                        if dp == 'unset':
                            o.details.p1_time = Timestamp()
                        elif dp == 'ns-before':
                            o.details.measurement_time = Timestamp(now - 0.5) if mset else Timestamp()
                            o.details.p1_time = Timestamp()
                            o.details.p1_time.seconds = now - 1.5 + 0.999999999
                        else:
                            o.details.p1_time = Timestamp(max(0.0, now + {'same-second': 0.25, 'later-second': 7.0, 'earlier-second': -993.0}[dp]))
                        add(c, o, 'details:%s:measurement_time-%s:p1_time-%s' % (src.name, 'set' if mset else 'unset', dp))
            # time-source bytes outside the enumeration (the byte is located by comparing two packed objects)
            a, b = c(), c()
            b.details.measurement_time_source = SystemTimeSource.P1_TIME
            try:
                pa, pb = bytes(a.pack()), bytes(b.pack())
            except Exception:
                continue
            at = [k for k in range(len(pa)) if pa[k] != pb[k]]
            if len(at) == 1:
                for raw in (5, 255):
                    o = c()
                    now = step() + 0.5
                    o.details.measurement_time_source = SystemTimeSource.P1_TIME
                    o.details.measurement_time = Timestamp(now)
                    o.details.p1_time = Timestamp(now + 7.0)
                    p = bytearray(o.pack())
                    p[at[0]] = raw
                    v = int(c.get_version()) if hasattr(c, 'get_version') else 0
                    out.append((gen.frame(int(c.get_type()), bytes(p), seq[0], 0, v), '%s/details:source-byte-%d' % (c.__name__, raw)))
                    seq[0] += 1
        elif hasattr(probe, 'p1_time'):
            for label in ('p1-set', 'p1-invalid', 'p1-set-other-gps', 'p1-invalid-gps-set'):
                o = c()
                now = step() + 0.25
                o.p1_time = Timestamp(now) if 'p1-set' in label else Timestamp()
                if 'gps' in label:
                    if not isinstance(getattr(o, 'gps_time', None), Timestamp):
                        continue
                    o.gps_time = Timestamp(now + 1.3e9)
                add(c, o, label)
        else:
            add(c, c(), 'no-p1')
            if hasattr(probe, 'system_time_ns'):
                o = c()
                o.system_time_ns = int((step() + 0.75) * 1e9)
                add(c, o, 'no-p1-system-time-set')
    return out


def time_family_files(ctx, rng):
    """Files made of time_family_messages(): (data, label, every message <= 200 bytes). Quick tier: every message once, in
    generation order, in slices of 64 (small replays), and two shuffled mixes with junk and false syncs in between; thorough tier
    also one file per class and more mixes."""
    tf = time_family_messages(rng, t0=rng.choice([0.0, 1000.0, 4.0e9]))
    for _, label in tf:
        ctx.count('time_family_' + label.split('/')[1].split(':measurement_time')[0].replace(':', '_'))
    res = []
    n = 64
    for k in range(0, len(tf), n):
        sl = tf[k:k + n]
        res.append((b''.join(m for m, _ in sl), 'time-families-%s..%s' % (sl[0][1], sl[-1][1]), all(len(m) <= 200 for m, _ in sl)))
    seqs = {'n': 7}
    for k in range(8 if ctx.thorough else 2):
        sl = rng.sample(tf, 48)
        parts = []
        for m, _ in sl:
            parts.append(m)
            if rng.random() < 0.4:
                parts.append(gen.token(rng, rng.choice('JSFCTU'), seqs))
        res.append((rng.choice([b'', b'x', b'junk\x2e']) + b''.join(parts), 'time-families-mixed-%d' % k, False))
    if ctx.thorough:
        by = {}
        for m, label in tf:
            by.setdefault(label.split('/')[0], []).append(m)
        for name, ms in by.items():
            if len(ms) > 1:
                rng.shuffle(ms)
                res.append((b'\x2e'.join(ms), 'time-families-class-%s' % name, all(len(m) <= 200 for m in ms)))
    return res


def one_file(ctx, data, kinds, lines, pending, via_app=False, save_index=True, stale=None):
    d = ic.tmpdir()
    path = os.path.join(d, 'c18_input.bin')
    with open(path, 'wb') as f:
        f.write(data)
    for old in (os.path.join(d, "c18_input.p1i"),):
        if os.path.exists(old):
            os.remove(old)
    out = os.path.join(d, 'c18_out.p1log')
    if via_app == 'locate':
        out = os.path.splitext(path)[0] + '.p1log'
        save_index = True
    if stale is not None and not save_index and data_has_sync(data):
        stale = (stale[0], None)        # the property says nothing about an old index next to a NEW output when none is requested
    r1 = extract(path, out, via_app, save_index, stale)
    replay = {'file': data.hex(), 'tokens': kinds, 'via_app': via_app, 'save_index': save_index}
    if stale is not None:
        replay['stale_output'] = None if stale[0] is None else stale[0].hex()
        replay['stale_index'] = None if stale[1] is None else stale[1].hex()
        ctx.count('preexisting_output_cases')
    if r1[0] == 'raise':
        ctx.violation('C18/extraction-raised', 'extraction raised %s' % r1[1], replay)
        return
    _, count, ob, ib = r1
    if COUNTS[0] is not None:
        replay['per_type_counts'] = dict((str(k), v) for k, v in COUNTS[0].items())
        ctx.count('extractions_with_return_counts')
    lines.append('extract %s' % (data.hex() or '-'))
    fresh = None
    again = None
    if ob is not None:
        fresh = fresh_index_bytes(out)
        # second extraction, from the output
        out2 = os.path.join(d, 'c18_out2.p1log')
        src2 = os.path.join(d, 'c18_in2.bin')
        with open(src2, 'wb') as f:
            f.write(ob)
        again = extract(src2, out2, False)
        for f in (out2, os.path.splitext(out2)[0] + '.p1i', src2, os.path.splitext(src2)[0] + '.p1i'):
            if os.path.exists(f):
                os.remove(f)
        # "extracting the output again" in the most direct way: the output file itself with the default output name
        # (<stem>.p1log = the same file), through the function and through the p1_extract tool
        if again[0] == 'ok' and again[2] == ob:
            for how in ('func-default-name', 'app-same-stem', 'func-input-is-symlink-to-output', 'func-input-is-hard-link-of-output',
                        'func-through-symlinked-directory'):
                src3 = os.path.join(d, 'c18_again.p1log')
                with open(src3, 'wb') as f:
                    f.write(ob)
                inplace = extract_in_place(src3, how)
                for f in (src3, os.path.splitext(src3)[0] + '.p1i', src3 + '.tmp'):
                    if os.path.exists(f):
                        os.remove(f)
                ctx.count('second_extraction_in_place_' + how)
                if inplace != ('ok', ob):
                    again = ('ok', again[1], None if inplace[0] != 'ok' else inplace[1], None, how, inplace)
                    break
    if not save_index:
        if ib is not None:
            ctx.violation('C18/index-written-although-not-requested', 'save_index=False but a .p1i was written', replay)
        if ob is not None:
            fresh = (fresh[0], None)     # no written index to compare
    pending.append((replay, count, ob, ib, fresh, again))
    for f in (path, out, os.path.splitext(out)[0] + '.p1i'):
        if os.path.exists(f):
            os.remove(f)


def judge(ctx, replay, count, ob, ib, fresh, again, mo):
    mcount, mout, moffs = mo.split('|')
    impl = '%s|%s' % ('?' if count is None else count, 'nofile' if ob is None else ob.hex())
    model = '%s|%s' % ('?' if count is None else mcount, mout)
    if impl != model:
        ctx.disagree('extraction: implementation count/output %s, model %s' % (impl[:100], model[:100]), replay)
        # the model of extraction IS the property statement (concatenation of the scan's messages)
        ctx.violation('C18/output-differs-from-concatenation-of-scanned-messages',
                      'extraction wrote %s bytes / reported %s messages; the sequential scan of the input gives %s bytes / %s messages' %
                      ('no file' if ob is None else len(ob), count, 'no file' if mout == 'nofile' else len(mout) // 2, mcount), replay)
        return
    if 'per_type_counts' in replay:
        want = {}
        o = 0
        b = ob or b''
        while o + 24 <= len(b):
            t = int.from_bytes(b[o + 10:o + 12], 'little')
            want[str(t)] = want.get(str(t), 0) + 1
            o += 24 + int.from_bytes(b[o + 16:o + 20], 'little')
        if replay['per_type_counts'] != want:
            ctx.violation('C18/per-type-counts-wrong', 'return_counts=True reported %s; the output holds %s' %
                          (replay['per_type_counts'], want), replay)
    if ob is None:
        if ib is not None:
            ctx.violation('C18/index-without-output', 'no message was found and no output exists, but an index file is at the output '
                          'path' + (' (left over from an earlier extraction to the same path)' if ib.hex() == replay.get('stale_index')
                                    else ' (written by this extraction)'), replay)
        ctx.count('message_free_inputs')
        return
    res, fb = fresh
    if res[0] == 'raise':
        ctx.violation('C18/fresh-index-raised', res[1], replay)
        return
    offs = [int(x.split(':')[0]) for x in moffs.split(',') if x]
    if res[1] != offs:
        ctx.violation('C18/fresh-index-of-output-differs', 'fresh index of the output has offsets %s, the builder recorded %s' %
                      (res[1][:10], offs[:10]), replay)
    if replay.get('save_index', True) and ib != fb:
        sig, where = describe_index_difference(ib, fb, ob)
        ctx.violation(sig,
                      'the .p1i written by the extraction differs from the one a fresh indexing of the output writes '
                      '(%s vs %s bytes)%s' % (None if ib is None else len(ib), None if fb is None else len(fb), where), replay)
    if replay.get('save_index', True) and ib is not None:
        ctx.count('written_index_entries_compared_with_fresh_time_type_offset', len(ib) // 14)
    if again is None or again[0] == 'raise':
        ctx.violation('C18/second-extraction-raised', str(again), replay)
    elif again[2] != ob:
        how = ' (%s: %s)' % (again[4], again[5][:2] if again[5][0] == 'raise' else 'file now %s' %
                             ('missing' if again[5][1] is None else '%d bytes' % len(again[5][1]))) if len(again) > 4 else ''
        ctx.violation('C18/not-idempotent' + ('-in-place' if how else ''), 'extracting the output again changed it (%d -> %s bytes)%s' %
                      (len(ob), None if again[2] is None else len(again[2]), how), replay)
    elif again[1] is not None and count is not None and again[1] != count:
        ctx.violation('C18/not-idempotent-count', 'second extraction reports %s messages, first %s' % (again[1], count), replay)
    ctx.count('messages_extracted', int(mcount))


def run(ctx, budget):
    rng = ctx.rng
    lines, pending = [], []
    files = []
    for _ in range(budget):
        files.append(gen.small_file(rng, rng.choice([1, 2, 4, 8, 14]), 200, 'VVVUUWCTSFJ', pad=rng.choice([0, 7, 40])) + (True,))
    for _ in range(max(3, budget // 5)):
        files.append(gen.stream(rng, rng.choice([3, 8, 20]), 'VVVVUWCTSFHRJDZNG'))       # full-size real classes, P1 times
    # logs with P1-timed messages, untimed ones, unknown types and CRC-valid messages whose payload does not decode
    from props import reader_common as rc
    for _ in range(max(4, budget // 3)):
        log = rc.make_log(rng, rng.choice([3, 6, 12]), junk=True)
        seqs = {'n': 0}
        extra = b''.join(gen.token(rng, k, seqs) + rc.make_log(rng, 1, junk=False, t_start=500.0) for k in rng.choice(['N', 'NU', 'UN', 'NN']))
        cut = rng.randrange(0, len(log) + 1) if False else len(log)
        files.append((log[:cut] + extra + rc.make_log(rng, 2, junk=False, t_start=600.25), 'timed'))
        files.append((rc.make_log(rng, 2, junk=False, t_start=7.5) + gen.token(rng, 'N', seqs) + gen.token(rng, 'U', seqs), 'timedN'))
    # CRC-valid messages whose 16-bit type field is 0 (the value the index format also uses for its end marker), at every position
    zt = gen.frame(0, b'xy', 3)
    zz = gen.frame(9, b'abc', 4)
    for nm, dd in (('type0-mid', zz + zt + zz), ('type0-last', b'junk' + zz + zt), ('type0-only', zt), ('type0-first', zt + b'\x2e\x31' + zz),
                   ('type0-twice', zt + zt + zz + zt)):
        files.append((dd, nm))
    # P1 timestamps at the edges of the wire format: the index written by the extraction and a fresh one must agree on them too
    bt = ic.boundary_time_messages(rng)
    files.append((b'xx' + b''.join(bt), 'boundary-times'))
    for m in bt[:4]:
        files.append((m + b'\x2e\x31junk' + gen.frame(9, b'q', 5), 'boundary-time'))
    # every way a message class defines its P1 time (see time_family_messages): always with an index request
    timed_files = time_family_files(ctx, rng)
    # RTCM-like frames and message-free files
    files.append((b'\xd3\x00\x04' + bytes(7) + b'\xd3\x00\x00\x47\xea\x4b', 'rtcm'))
    files.append((b'', 'empty'))
    files.append((bytes(rng.randrange(256) for _ in range(300)), 'junk'))
    files.append((b'\x2e\x31' * 100, 'syncs'))
    # message-free inputs without an index request
    files.append((bytes(rng.randrange(1, 256) for _ in range(50)).replace(b'\x2e', b'\x00'), 'junk2'))
    files.append((b'', 'empty2'))
    for r in fv.corpus('C18'):      # regression corpus first
        if 'file' in r:
            st = None
            if 'stale_output' in r:
                st = tuple(None if r.get(k) is None else bytes.fromhex(r[k]) for k in ('stale_output', 'stale_index'))
            one_file(ctx, bytes.fromhex(r['file']), 'corpus', lines, pending, via_app=False, save_index=r.get('save_index', True), stale=st)
            ctx.count('corpus_cases')
    # rebound block constants on a few
    for i, f in enumerate(files):
        data, kinds = f[0], f[1]
        small = len(f) > 2      # every message <= 200 bytes: the rebound overlap of 256 bytes is a valid size limit
        ic.rebind(*((64, 256) if i % 3 == 0 and small else (80 * 1024, 16 * 1024)))
        one_file(ctx, data, kinds, lines, pending, via_app=(i % 7 == 3), save_index=(i % 4 != 1 or i % 7 == 3),
                 stale=stale_files(rng) if i % 5 == 2 else None)
        for t in kinds if kinds.isalpha() and kinds.isupper() else ['x']:
            ctx.count('token_' + t)
    ic.rebind(80 * 1024, 16 * 1024)
    for i, (data, kinds, small) in enumerate(timed_files):
        ic.rebind(*((64, 256) if i % 3 == 1 and small else (80 * 1024, 16 * 1024)))
        one_file(ctx, data, kinds, lines, pending, via_app=kinds.startswith('time-families-mixed') and [False, True, 'locate'][i % 3],
                 save_index=True, stale=stale_files(rng) if i % 4 == 3 else None)
        ctx.count('time_family_files')
    ic.rebind(80 * 1024, 16 * 1024)
    # the locate_log(..., extract_fusion_engine_data=True) entry point, on fresh directories and where an earlier extraction of
    # OTHER content left its files at the output path (non-empty inputs: the function does not consider empty files)
    for i, f in enumerate(files):
        if f[0] and (i % 4 == 1 or f[1] in ('rtcm', 'junk', 'syncs', 'junk2', 'timedN')):
            one_file(ctx, f[0], f[1], lines, pending, via_app='locate', stale=stale_files(rng) if i % 2 == 0 else None)
            ctx.count('via_locate_log')
    # message-free inputs (and a few others) once more without an index request
    for f in files:
        if f[1] in ('rtcm', 'empty', 'junk', 'syncs', 'junk2', 'empty2', 'timedN'):
            one_file(ctx, f[0], f[1], lines, pending, via_app=False, save_index=False)
    # message-free inputs where an earlier extraction left its files at the output path
    for f in files:
        if f[1] in ('rtcm', 'empty', 'junk', 'syncs', 'junk2'):
            one_file(ctx, f[0], f[1], lines, pending, via_app=(f[1] == 'junk'), save_index=(f[1] != 'syncs'), stale=stale_files(rng))
    outs = ctx.driver(lines)
    for p, mo in zip(pending, outs):
        judge(ctx, *p, mo)
        ctx.case(p[0]['file'], nontrivial=len(p[0]['file']) >= 48)
        ctx.cov['traces_validated_against_impl'] += 1
    for p, mo in list(zip(pending, outs))[:2]:
        ctx.sample({'tokens': p[0]['tokens'], 'input_bytes': len(p[0]['file']) // 2, 'model_count_and_offsets': mo.split('|')[0] + '|' + mo.split('|')[2][:80]})


def search(ctx):
    run(ctx, 200)


def check(ctx):
    ctx.cov['rule'] = ('mixed-content files (valid messages of every registered class with and without P1 time, unknown types, wrappers '
                       'with nested messages, corrupted/truncated messages, false syncs, junk, RTCM-like frames, empty and message-free '
                       'files) through extract_fusion_engine_log and the p1_extract entry point (real and rebound block constants): '
                       'output bytes and count vs the Lean model (= the property statement), written .p1i vs the .p1i of a fresh indexing '
                       'of the output, second extraction vs first; non-trivial = input >= 48 bytes; distinct = distinct input')
    ctx.assumptions += ['the reader iterates the messages of the input\'s index, which by C08 is the sequential scan',
                        'file system: open(...,"wb") truncates, write appends, os.remove removes']
    ctx.prove(MODULES)
    try:
        run(ctx, 150 if ctx.thorough else 40)
    except fv.InfraError:
        if not ctx.proof_failures:
            raise
    return fv.finish(ctx, 'proof', search)


def replay(ctx, path):
    obj = json.load(open(path))
    lines, pending = [], []
    i = obj['input']
    stale = None
    if 'stale_output' in i:
        stale = tuple(None if i.get(k) is None else bytes.fromhex(i[k]) for k in ('stale_output', 'stale_index'))
    one_file(ctx, bytes.fromhex(i['file']), i.get('tokens', ''), lines, pending, i.get('via_app', False), i.get('save_index', True), stale)
    outs = ctx.driver(lines)
    for p, mo in zip(pending, outs):
        judge(ctx, *p, mo)
    return fv.finish(ctx, 'proof', None)
